(* C08 - calls interoperate with code built by the platform compiler: the aggregate type descriptions,
   parameter/return classes and variadic markers cproc hands to the backend.
   Only statements, each closed by `exact`, with Print Assumptions beneath; non-vacuity Examples.
   Model: Model/Emittype.v (qbe.c qbetype/emittype/emitclass/mkfunc/funcexpr(EXPRCALL)/emitfunc header,
   expr.c call arguments, type.c typepromote/typeadjust).  Specification: Spec/QbeAgg.v (QBE's layout
   of a description, its flattened field list, the SysV / AAPCS64 / RISC-V classifiers; the C side's
   flattened list, natural layout, default argument promotions). *)
From Coq Require Import ZArith List Bool Lia.
From Cproc Require Import Model.Layout Spec.AbiLayout Spec.QbeAgg Model.Emittype
  Proofs.EmittypeProofs Proofs.EmittypeInv Proofs.EmittypeCalls Proofs.EmittypeBridge.
Import ListNotations.
Open Scope Z_scope.

(* ts: every type handed to emittype during one compilation, in order (mkfunc: return type and
   parameters; each call: argument types, then the result type).  U: which type object a uid names.
   For a naturally laid out record type t without bit-fields among them (naturalb, closed under nesting,
   arrays, unions, the opaque aarch64 va_list), the printed description - under QBE's own layout
   rule, in the environment of the descriptions printed before it - has the C type's size and alignment. *)
Theorem C08_descriptor_size_align_partial :
  forall (sc : bool) (U : Z -> option ctype) (ts : list ctype) (t : ctype) (u : Z),
    Forall (uid_ok U) ts -> In t ts -> rec_uid u t -> naturalb t = true ->
    let st := emit_all sc ts est0 in
    exists id, find u (e_map st) = Some id /\
               QbeAgg.size (e_out st) id = Some (csize t) /\ QbeAgg.align (e_out st) id = Some (calign t).
Proof. exact descriptor_size_align_partial. Qed.
Print Assumptions C08_descriptor_size_align_partial.

(* ... and denotes, field for field, the C type's flattened list (offset, size, integer|float) *)
Theorem C08_descriptor_fields_partial :
  forall (sc : bool) (U : Z -> option ctype) (ts : list ctype) (t : ctype) (u : Z),
    Forall (uid_ok U) ts -> In t ts -> rec_uid u t -> naturalb t = true ->
    let st := emit_all sc ts est0 in
    exists id, find u (e_map st) = Some id /\ QbeAgg.flat (e_out st) id = Some (cflat t).
Proof. exact descriptor_fields_partial. Qed.
Print Assumptions C08_descriptor_fields_partial.

(* register classes are functions of (size, alignment, flattened list): equal lists, equal classes *)
Theorem C08_class_ext :
  forall li1 li2, l_size li1 = l_size li2 -> l_align li1 = l_align li2 -> l_flat li1 = l_flat li2 ->
    sysv_class li1 = sysv_class li2 /\ aapcs64_class li1 = aapcs64_class li2 /\ rv64_class li1 = rv64_class li2.
Proof. exact class_ext. Qed.
Print Assumptions C08_class_ext.

(* hence the description and the C declaration are passed in the same registers on all three targets *)
Theorem C08_descriptor_classes :
  forall (sc : bool) (U : Z -> option ctype) (ts : list ctype) (t : ctype) (u : Z),
    Forall (uid_ok U) ts -> In t ts -> rec_uid u t -> naturalb t = true ->
    let st := emit_all sc ts est0 in
    exists id li, find u (e_map st) = Some id /\ elookup id (env_of (e_out st)) = Some li /\
      sysv_class li = sysv_class (cinfo t) /\ aapcs64_class li = aapcs64_class (cinfo t) /\
      rv64_class li = rv64_class (cinfo t).
Proof. exact descriptor_classes. Qed.
Print Assumptions C08_descriptor_classes.

(* emission order, for ALL types (bit-fields, packed, ... included): every `:name` inside a description was
   defined by an earlier line; names are unique; ids are 1..n; every record type handed to emittype has a line *)
Theorem C08_types_before_use :
  forall (sc : bool) (U : Z -> option ctype) (ts : list ctype),
    Forall (uid_ok U) ts ->
    let st := emit_all sc ts est0 in
    ordered (e_out st) /\ NoDup (map td_id (e_out st)) /\
    (forall d, In d (e_out st) -> 1 <= td_id d <= e_next st) /\
    (forall t u, In t ts -> rec_uid u t -> exists id, find u (e_map st) = Some id /\ In id (map td_id (e_out st))).
Proof. exact types_before_use. Qed.
Print Assumptions C08_types_before_use.

(* the domain is not an ad-hoc predicate: what naturalb demands of a record (offsets, size, alignment) is C06's ABI
   layout of the same members declared plainly, and what cproc's own addmember/tagspec arithmetic computes for them *)
Theorem C08_natural_is_abi :
  forall u k sz al ms, naturalb (CRec u k false sz al ms) = true ->
    spec_layout rules_sysv k false (items_of ms) = Some (mkT sz al false false false false false false, members_of ms).
Proof. exact natural_is_abi. Qed.
Print Assumptions C08_natural_is_abi.

Theorem C08_natural_is_cproc_layout :
  forall u k sz al ms, naturalb (CRec u k false sz al ms) = true ->
    record_layout k false (items_of ms) = Ok (mkT sz al false false false false false false, members_of ms).
Proof. exact natural_is_cproc_layout. Qed.
Print Assumptions C08_natural_is_cproc_layout.

(* the member walk of emittype terminates within its fuel on every member list *)
Theorem C08_walk_fuel_enough :
  forall sc mp fuel l, (length l < fuel)%nat -> walk_struct fuel sc mp l <> None.
Proof. exact walk_fuel_enough. Qed.
Print Assumptions C08_walk_fuel_enough.

Theorem C08_body_never_fuel_error : forall sc mp k l, body_of sc mp k l <> fuel_error.
Proof. exact body_never_fuel_error. Qed.
Print Assumptions C08_body_never_fuel_error.

(* the full-strength statements are FALSE of the faithful model outside that domain *)
(* known finding emittype-bitfield-drops-members *)
Theorem C08_descriptor_size_align_refuted :
  record_layout true false [INamed tint 0 (Some 4); INamed tuchar 0 None; INamed (tarr tchar 5) 0 None]
    = Ok (mkT 8 4 false false false false false false, [mkM true 4 0 0 28; mkM true 1 1 0 0; mkM true 5 2 0 0]) /\
  option_map l_size (desc_info true wit_bitfield 1) = Some 4 /\ csize wit_bitfield = 8 /\
  e_out (emittype true wit_bitfield est0) = [mkTD 1 None (BStruct [(FBase Fw, 1)])].
Proof. exact descriptor_size_align_refuted. Qed.
Print Assumptions C08_descriptor_size_align_refuted.

Theorem C08_descriptor_fields_refuted :
  option_map l_flat (desc_info true wit_bitfield 1) = Some [(0, 4, KInt)] /\
  cflat wit_bitfield = [(0, 1, KInt); (1, 1, KInt); (2, 1, KInt); (3, 1, KInt); (4, 1, KInt); (5, 1, KInt); (6, 1, KInt)].
Proof. exact descriptor_fields_refuted. Qed.
Print Assumptions C08_descriptor_fields_refuted.

Theorem C08_descriptor_classes_refuted :
  option_map sysv_class (desc_info true wit_bitfield_float 1) = Some (SvRegs SvInt SvNone) /\
  sysv_class (cinfo wit_bitfield_float) = SvRegs SvInt SvSse /\
  option_map l_size (desc_info true wit_bitfield_float 1) = Some 8 /\ csize wit_bitfield_float = 16.
Proof. exact descriptor_classes_refuted. Qed.
Print Assumptions C08_descriptor_classes_refuted.

(* known finding emittype-bitfield-smaller-unit-chosen *)
Theorem C08_descriptor_smaller_unit_refuted :
  record_layout true false [INamed tshort 0 (Some 7); INamed tchar 0 (Some 1)]
    = Ok (mkT 2 2 false false false false false false, [mkM true 2 0 0 9; mkM true 1 0 7 0]) /\
  desc_info true wit_bitfield_small 1 = Some (mkLI 1 1 [(0, 1, KInt)]) /\
  csize wit_bitfield_small = 2 /\ calign wit_bitfield_small = 2.
Proof. exact descriptor_smaller_unit_refuted. Qed.
Print Assumptions C08_descriptor_smaller_unit_refuted.

(* known finding emittype-bitfield-unit-overlaps-previous *)
Theorem C08_descriptor_overlap_refuted :
  record_layout true false [INamed tint 0 None; INamed (mkT 8 4 false false false false false false) 0 None;
                            INamed tchar 0 None; INamed tlong8 0 (Some 3)]
    = Ok (mkT 16 8 false false false false false false,
          [mkM true 4 0 0 0; mkM true 8 4 0 0; mkM true 1 12 0 0; mkM true 8 8 40 21]) /\
  option_map l_size (desc_info true wit_bitfield_overlap 1) = Some 24 /\ csize wit_bitfield_overlap = 16 /\
  e_out (emittype true wit_bitfield_overlap est0) =
    [mkTD 2 None (BStruct [(FBase Fw, 1); (FBase Fw, 1)]);
     mkTD 1 None (BStruct [(FBase Fw, 1); (FType 2, 1); (FBase Fl, 1)])].
Proof. exact descriptor_overlap_refuted. Qed.
Print Assumptions C08_descriptor_overlap_refuted.

(* known finding emittype-bitfield-padding-lost *)
Theorem C08_descriptor_padding_refuted :
  record_layout true false [IUnnamedBf tchar 7; INamed tdouble 0 None]
    = Ok (mkT 16 8 false false false false false false, [mkM true 8 8 0 0]) /\
  desc_info true wit_bitfield_pad 1 = Some (mkLI 8 8 [(0, 8, KFlt)]) /\
  cinfo wit_bitfield_pad = mkLI 16 8 [(8, 8, KFlt)] /\ naturalb wit_bitfield_pad = false.
Proof. exact descriptor_padding_refuted. Qed.
Print Assumptions C08_descriptor_padding_refuted.

(* D23, known finding emittype-packed-layout *)
Theorem C08_descriptor_packed_refuted :
  record_layout true true [INamed tchar 0 None; INamed tint 0 None]
    = Ok (mkT 5 1 false false false false false false, [mkM true 1 0 0 0; mkM true 4 1 0 0]) /\
  desc_info true wit_packed 1 = Some (mkLI 8 4 [(0, 1, KInt); (4, 4, KInt)]) /\
  cinfo wit_packed = mkLI 5 1 [(0, 1, KInt); (1, 4, KInt)].
Proof. exact descriptor_packed_refuted. Qed.
Print Assumptions C08_descriptor_packed_refuted.

(* known finding emittype-alignas-member-ignored *)
Theorem C08_descriptor_alignas_refuted :
  record_layout true false [INamed tchar 0 None; INamed tint 16 None]
    = Ok (mkT 32 16 false false false false false false, [mkM true 1 0 0 0; mkM true 4 16 0 0]) /\
  desc_info true wit_alignas 1 = Some (mkLI 8 4 [(0, 1, KInt); (4, 4, KInt)]) /\
  cinfo wit_alignas = mkLI 32 16 [(0, 1, KInt); (16, 4, KInt)].
Proof. exact descriptor_alignas_refuted. Qed.
Print Assumptions C08_descriptor_alignas_refuted.

(* known finding emittype-flexible-member-one-element *)
Theorem C08_descriptor_flexible_refuted :
  record_layout true false [INamed tint 0 None; INamed (tflex tdouble) 0 None]
    = Ok (mkT 8 8 false false false true false false, [mkM true 4 0 0 0; mkM true 0 8 0 0]) /\
  desc_info true wit_flexible 1 = Some (mkLI 16 8 [(0, 4, KInt); (8, 8, KFlt)]) /\
  cinfo wit_flexible = mkLI 8 8 [(0, 4, KInt)].
Proof. exact descriptor_flexible_refuted. Qed.
Print Assumptions C08_descriptor_flexible_refuted.

(* known finding emittype-valist-member-x86_64-empty *)
Theorem C08_descriptor_valist_member_refuted :
  e_out (emittype true wit_valist_x86 est0) =
    [mkTD 2 None (BStruct []); mkTD 1 None (BStruct [(FType 2, 1); (FBase Fw, 1)])] /\
  option_map l_size (desc_info true wit_valist_x86 1) = Some 4 /\ csize wit_valist_x86 = 32.
Proof. exact descriptor_valist_member_refuted. Qed.
Print Assumptions C08_descriptor_valist_member_refuted.

(* scalar classes *)
Theorem C08_qbetype_data_spec :
  forall sc k, cls_size (q_data (qbetype_scal sc k)) = ssize k /\ cls_kind (q_data (qbetype_scal sc k)) = skind_kind k.
Proof. exact qbetype_data_spec. Qed.
Print Assumptions C08_qbetype_data_spec.

Theorem C08_qbetype_base_spec :
  forall sc k, q_base (qbetype_scal sc k) =
    if sfloat k then (if ssize k =? 4 then Fs else Fd) else (if ssize k =? 8 then Fl else Fw).
Proof. exact qbetype_base_spec. Qed.
Print Assumptions C08_qbetype_base_spec.

Theorem C08_qbetype_load_spec :
  forall sc i, q_load (qbetype_scal sc (SkInt i)) =
    match isize i, isigned sc i with
    | 1, true => LdSB | 1, false => LdUB | 2, true => LdSH | 2, false => LdUH | 4, _ => LdW | _, _ => LdL
    end.
Proof. exact qbetype_load_spec. Qed.
Print Assumptions C08_qbetype_load_spec.

(* calls *)
Theorem C08_vararg_marker_position :
  forall sc mp nparam args, (nparam <= length args)%nat ->
    call_args sc mp true nparam 0 args =
    cls_list sc mp (firstn nparam args) ++ None :: cls_list sc mp (skipn nparam args).
Proof. exact vararg_marker_position. Qed.
Print Assumptions C08_vararg_marker_position.

Theorem C08_no_marker_nonvariadic :
  forall sc mp nparam args, call_args sc mp false nparam 0 args = cls_list sc mp args.
Proof. exact no_marker_nonvariadic. Qed.
Print Assumptions C08_no_marker_nonvariadic.

Theorem C08_marker_absent_when_too_few :
  forall sc mp nparam args, (length args < nparam)%nat -> call_args sc mp true nparam 0 args = cls_list sc mp args.
Proof. exact marker_absent_when_too_few. Qed.
Print Assumptions C08_marker_absent_when_too_few.

Theorem C08_typepromote_spec :
  forall sc k w, width_ok k w = true -> typepromote sc (CScal k) w = promote_spec sc (CScal k) w.
Proof. exact typepromote_spec. Qed.
Print Assumptions C08_typepromote_spec.

Theorem C08_promote_args_spec :
  forall sc va args params ts,
    Forall arg_width_ok args ->
    convert_args sc va params args = ArgOk ts ->
    length ts = length args /\
    forall i a, nth_error args i = Some a ->
      match nth_error params i with
      | Some p => nth_error ts i = Some (exprassign (fst a) p)
      | None => va = true /\ nth_error ts i = Some (exprconvert (fst a) (promote_spec sc (fst a) (snd a)))
      end.
Proof. exact promote_args_spec. Qed.
Print Assumptions C08_promote_args_spec.

Theorem C08_convert_args_count :
  forall sc va args params,
    (convert_args sc va params args = ArgTooMany <-> va = false /\ (length params < length args)%nat) /\
    (convert_args sc va params args = ArgTooFew <-> va = false /\ (length args < length params)%nat).
Proof. exact convert_args_count. Qed.
Print Assumptions C08_convert_args_count.

Theorem C08_promoted_class :
  forall sc mp k w, width_ok k w = true ->
    let t := exprpromote sc (CScal k, w) in
    (k = SkFloat -> argclass sc mp t = ABase Fd) /\
    (forall i, k = SkInt i \/ k = SkEnum i -> isize i < 4 -> argclass sc mp t = ABase Fw).
Proof. exact promoted_class. Qed.
Print Assumptions C08_promoted_class.

Theorem C08_typeadjust_spec : forall t, typeadjust t = adjust_spec t.
Proof. exact typeadjust_spec. Qed.
Print Assumptions C08_typeadjust_spec.

Theorem C08_adjusted_param_class :
  forall sc mp t, (forall e s, typeadjust t <> CArr e s) /\
                  (forall e s, t = CArr e s -> argclass sc mp (typeadjust t) = ABase Fl).
Proof. exact adjusted_param_class. Qed.
Print Assumptions C08_adjusted_param_class.

(* ------------------------------------------------------------------ non-vacuity *)
(* struct I { float f; short h; };  union V { double d; char c[5]; };
   struct N { int i; struct I a[2]; union V v; };    passed by value, then struct I alone *)
Definition exI : ctype := CRec 2 true false 8 4 (MCons (CScal SkFloat) 0 None (MCons (CScal (SkInt IShort)) 4 None MNil)).
Definition exV : ctype := CRec 3 false false 8 8 (MCons (CScal SkDouble) 0 None (MCons (CArr (CScal (SkInt IChar)) 5) 0 None MNil)).
Definition exN : ctype :=
  CRec 1 true false 32 8 (MCons (CScal (SkInt IInt)) 0 None (MCons (CArr exI 16) 4 None (MCons exV 24 None MNil))).
Definition exU (u : Z) : option ctype :=
  if u =? 1 then Some exN else if u =? 2 then Some exI else if u =? 3 then Some exV else None.

Example C08_descriptor_hypotheses_satisfiable :
  Forall (uid_ok exU) [exN; exI] /\ naturalb exN = true /\ rec_uid 1 exN /\
  e_out (emit_all true [exN; exI] est0) =
    [mkTD 2 None (BStruct [(FBase Fs, 1); (FBase Fh, 1)]);
     mkTD 3 None (BUnion [[(FBase Fd, 1)]; [(FBase Fb, 5)]]);
     mkTD 1 None (BStruct [(FBase Fw, 1); (FType 2, 2); (FType 3, 1)])] /\
  QbeAgg.size (e_out (emit_all true [exN; exI] est0)) 1 = Some 32 /\
  QbeAgg.flat (e_out (emit_all true [exN; exI] est0)) 1 =
    Some [(0, 4, KInt); (4, 4, KFlt); (8, 2, KInt); (12, 4, KFlt); (16, 2, KInt); (24, 8, KFlt);
          (24, 1, KInt); (25, 1, KInt); (26, 1, KInt); (27, 1, KInt); (28, 1, KInt)].
Proof.
  split; [repeat constructor|]. split; [vm_compute; reflexivity|]. split; [reflexivity|].
  split; [vm_compute; reflexivity|]. split; vm_compute; reflexivity.
Qed.

(* h(int, ...) called as h(1, (char)2, 3.0f): marker after the first argument, char as w, float as d *)
Example C08_call_example :
  convert_args true true [CScal (SkInt IInt)]
    [(CScal (SkInt IInt), None); (CScal (SkInt IChar), None); (CScal SkFloat, None)]
  = ArgOk [CScal (SkInt IInt); CScal (SkInt IInt); CScal SkDouble] /\
  call_args true [] true 1 0 [CScal (SkInt IInt); CScal (SkInt IInt); CScal SkDouble]
  = [Some (ABase Fw); None; Some (ABase Fw); Some (ABase Fd)] /\
  call_args true [] true 0 0 [] = [None].
Proof. vm_compute. auto. Qed.
