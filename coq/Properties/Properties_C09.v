(* C09 - linkage and the object's symbol table follow C11 6.2.2 / 6.9.  (statements only; under construction) *)
From Coq Require Import List NArith Bool.
From Cproc Require Import Lib.LinkageBase Model.Linkage Spec.LinkSpec.
Import ListNotations.

Example C09_nonvacuous_placeholder :
  Linkage.run [IDecl (DObj OSnone None false); IDecl (DObj OSnone None false)] =
  LinkSpec.run [IDecl (DObj OSnone None false); IDecl (DObj OSnone None false)].
Proof. vm_compute. reflexivity. Qed.
