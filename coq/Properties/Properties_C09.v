(* C09 - linkage and the object's symbol table follow C11 6.2.2 / 6.9.
   Only statements, each closed by `exact`, with Print Assumptions beneath; non-vacuity Examples.

   Linkage.run h   the symbol table ("nm view") the modelled compiler code produces for the history h of ONE identifier
   LinkSpec.run h  what C11 6.2.2p3-7, 6.7p3, 6.7.1, 6.7.4p7, 6.7.9p5, 6.9.2 prescribe for h
                   (Accept table | Reject = diagnostic required | Unspec reason = undefined behaviour / outside the property)
   known_devs h    h runs into one of the two recorded deviations of the compiler (D19, thread-local tentative definitions) *)
From Coq Require Import List NArith Bool.
From Cproc Require Import Lib.LinkageBase Model.Linkage Spec.LinkSpec Proofs.LinkageProofs Proofs.LinkageIds.
Import ListNotations.
Local Open Scope N_scope.

(* Headline: for every history (any length below the wrap-around of the 32-bit name counter) on which C11 specifies an
   outcome and which avoids the two recorded deviations, the compiler's verdict (accept / diagnose) and the symbol
   table it emits - definitions of the named symbol with their export and thread marks and assembler name, one
   anonymous symbol per block-scope static, and what every use refers to - are exactly the prescribed ones. *)
Theorem C09_linkage_spec : forall h,
  N.of_nat (length h) < two32 -> known_devs h = false -> specified (LinkSpec.run h) = true ->
  Linkage.run h = LinkSpec.run h.
Proof. exact linkage_spec. Qed.
Print Assumptions C09_linkage_spec.

(* The unrestricted statement is false: D19 (`inline int f(void){..} extern inline int f(void);` emits no definition) ... *)
Theorem C09_inline_rule_refuted :
  exists h, N.of_nat (length h) < two32 /\ specified (LinkSpec.run h) = true /\ Linkage.run h <> LinkSpec.run h.
Proof. exact inline_rule_refuted. Qed.
Print Assumptions C09_inline_rule_refuted.

(* ... and `_Thread_local int x; _Thread_local int x;` (the symbol is defined twice). *)
Theorem C09_thread_tentative_refuted :
  exists h, N.of_nat (length h) < two32 /\ specified (LinkSpec.run h) = true /\ Linkage.run h <> LinkSpec.run h.
Proof. exact thread_tentative_refuted. Qed.
Print Assumptions C09_thread_tentative_refuted.

(* 6.7.4p7 restricted: histories of file-scope function declarations in which no declaration that lacks `inline`
   (or has `extern`) follows the body of a so-far-inline definition. *)
Theorem C09_inline_rule_partial : forall h,
  N.of_nat (length h) < two32 -> forallb is_func_decl h = true -> inline_late_from init_sstate h = false ->
  specified (LinkSpec.run h) = true -> Linkage.run h = LinkSpec.run h.
Proof. exact inline_rule_partial. Qed.
Print Assumptions C09_inline_rule_partial.

(* At most one definition of the named symbol per unit. *)
Theorem C09_one_definition : forall h t,
  N.of_nat (length h) < two32 -> known_devs h = false -> specified (LinkSpec.run h) = true ->
  Linkage.run h = Accept t -> (length (st_linked t) <= 1)%nat.
Proof. exact one_definition. Qed.
Print Assumptions C09_one_definition.

(* A file-scope declaration without initializer and without extern (a tentative definition) makes the unit define
   the object exactly once, whatever else the history contains. *)
Theorem C09_tentative_one_definition : forall h1 sc asm h2 s1 x t,
  N.of_nat (length (h1 ++ IDecl (DObj sc asm false) :: h2)) < two32 ->
  known_devs (h1 ++ IDecl (DObj sc asm false) :: h2) = false ->
  specified (LinkSpec.run (h1 ++ IDecl (DObj sc asm false) :: h2)) = true ->
  spec_steps init_sstate h1 = SOk s1 -> ss_frames s1 = [x] -> osc_extern sc = false ->
  Linkage.run (h1 ++ IDecl (DObj sc asm false) :: h2) = Accept t ->
  exists d, st_linked t = [d] /\ ld_kind d = KObj.
Proof. exact tentative_one_definition. Qed.
Print Assumptions C09_tentative_one_definition.

(* emittentativedefns: nothing for an object that has been defined, exactly one definition for one that has not. *)
Theorem C09_flush_one_definition : forall n d defs d' defs',
  flush n d defs = Some (d', defs') -> md_storage d <> SAuto ->
  (md_defined d = true -> defs' = defs) /\
  (md_defined d = false -> n <> 0%nat -> exists a id t e, defs' = EData a id t e :: defs).
Proof. exact flush_one_definition. Qed.
Print Assumptions C09_flush_one_definition.

(* A unit that only declares the identifier `extern` (without initializer / body) defines nothing - for every history. *)
Theorem C09_extern_never_defines : forall h t,
  forallb extern_only h = true -> Linkage.run h = Accept t -> st_linked t = [] /\ st_anon t = [].
Proof. exact extern_never_defines. Qed.
Print Assumptions C09_extern_never_defines.

(* The numbers in $.Lname.N never repeat - for every history short enough not to wrap the counter. *)
Theorem C09_local_names_unique : forall h defs refs,
  2 * N.of_nat (length h) < two32 -> run_events h = FAccept defs refs -> NoDup (local_ids defs).
Proof. exact local_names_unique. Qed.
Print Assumptions C09_local_names_unique.

(* declcommon: an `extern` or function redeclaration takes the linkage of the prior declaration (that of the visible
   one at block scope; external if that one has none - 6.2.2p4). *)
Theorem C09_redecl_inherits : forall parents k asm ex prior d,
  declcommon parents k asm false ex prior = Some d -> ex = true \/ k = KFunc ->
  match prior with
  | Some p => md_link d = md_link p
  | None =>
    match lookup parents with
    | Some p => if link_eqb (md_link p) LNone then md_link d = LExtern else md_link d = md_link p
    | None => md_link d = LExtern
    end
  end.
Proof. exact redecl_inherits. Qed.
Print Assumptions C09_redecl_inherits.

(* ---- non-vacuity ---- *)
(* `int x; int x; void w1(void){ static int x; x; } void w2(void){ extern int x; x; } int x = 1;`
   meets the hypotheses of C09_linkage_spec and exercises tentative definitions, a block-scope static, 6.2.2p4 and a definition *)
Definition ex_hist : list item :=
  [IDecl (DObj OSnone None false); IDecl (DObj OSnone None false);
   IOpen; IDecl (DObj OSstatic None false); IUse; IClose;
   IOpen; IDecl (DObj OSextern None false); IUse; IClose;
   IDecl (DObj OSnone None true)].
Example C09_nonvacuous :
  N.of_nat (length ex_hist) < two32 /\ known_devs ex_hist = false /\ specified (LinkSpec.run ex_hist) = true /\
  Linkage.run ex_hist =
    Accept {| st_linked := [{| ld_name := Plain; ld_kind := KObj; ld_thread := false; ld_export := true |}];
              st_anon := [false]; st_refs := [RAnon false; RLinked Plain false] |} /\
  run_events ex_hist = FAccept [EData None 2 false false; EData None 0 false true] [MRef None 2 false; MRef None 0 false].
Proof. repeat split; vm_compute; reflexivity. Qed.

(* both branches of 6.7.4p7 under the hypotheses of C09_inline_rule_partial, and a rejected and an unspecified history *)
Example C09_nonvacuous_inline :
  let inline_only := [IDecl (DFunc FSnone true None false); IDecl (DFunc FSnone true None true)] in
  let external := [IDecl (DFunc FSnone false None false); IDecl (DFunc FSnone true None true)] in
  forallb is_func_decl inline_only = true /\ inline_late_from init_sstate inline_only = false /\
  Linkage.run inline_only = Accept {| st_linked := []; st_anon := []; st_refs := [] |} /\
  forallb is_func_decl external = true /\ inline_late_from init_sstate external = false /\
  Linkage.run external =
    Accept {| st_linked := [{| ld_name := Plain; ld_kind := KFunc; ld_thread := false; ld_export := true |}]; st_anon := []; st_refs := [] |} /\
  LinkSpec.run [IDecl (DObj OSstatic None true); IDecl (DObj OSstatic None true)] = Reject /\
  Linkage.run [IDecl (DObj OSstatic None true); IDecl (DObj OSstatic None true)] = Reject /\
  LinkSpec.run [IDecl (DObj OSnone None false); IDecl (DObj OSstatic None false)] = Unspec UBothLinkages /\
  known_devs d19_witness = true /\ known_devs thread_witness = true.
Proof. repeat split; vm_compute; reflexivity. Qed.
