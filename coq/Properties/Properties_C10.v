(* C10 - constraint violations and unsupported features are diagnosed, never accepted.
   Only statements, each closed by `exact`, with Print Assumptions beneath. *)
From Coq Require Import String List NArith ZArith Bool Arith.
From Cproc Require Import Spec.Constraints Gen.Sites Gen.SitesCat Model.Checks
  Proofs.ChecksSites Proofs.ChecksProofs Proofs.ChecksArith Proofs.ChecksArity.
Import ListNotations.
Local Open Scope list_scope.

(* G. Every error(), fatal(), expect(), tokencheck() and assert() call of the compiler proper, as
   extracted from the source of this run, is covered by the committed catalogue: at least one violating
   template or a justification.  Deleting a check leaves a dangling entry (second theorem), adding one
   without a template leaves an uncovered site (first theorem). *)
Theorem C10_sites_covered : forall s, In s sites -> covered catalogue s = true.
Proof. exact sites_covered. Qed.
Print Assumptions C10_sites_covered.

Theorem C10_catalogue_anchored : forall c, In c catalogue -> anchored sites c = true.
Proof. exact catalogue_anchored. Qed.
Print Assumptions C10_catalogue_anchored.

(* (a) declspecs: for EVERY list of type-specifier keywords - any length, order and repetition - the type the
   compiler derives is the one C11 6.7.2p2 assigns to the multiset, and None (rejected) otherwise; the
   switch table is the one found in decl.c on this run. *)
Theorem C10_typespec_table_spec : forall l : list tskw, typespec_type l = c11_typespec l.
Proof. exact typespec_table_spec. Qed.
Print Assumptions C10_typespec_table_spec.

Theorem C10_typespec_rejects_with_error : forall l : list tskw,
  l <> [] -> c11_typespec l = None -> exists e, typespec l = inl e.
Proof. exact typespec_rejects_with_error. Qed.
Print Assumptions C10_typespec_rejects_with_error.

(* (b) storageclass(): accepted exactly when 6.7.1p2 allows the combination (at most one, except
   _Thread_local with static or extern); the context tests of decl()/parameter() are 6.7.1p3, 6.7.1p7,
   6.9p2 and 6.7.6.3p2. *)
Theorem C10_storageclass_table_spec : forall l : list sckw,
  (exists sc, sc_run l = Some sc) <-> c11_storage_ok l = true.
Proof. exact storageclass_table_spec. Qed.
Print Assumptions C10_storageclass_table_spec.

Theorem C10_storageclass_context_spec : forall (l : list sckw) (sc : N) (c : dctx) (k : dkind),
  sc_run l = Some sc -> sc_ctx_check c k sc = c11_storage_ctx_ok c k l.
Proof. exact storageclass_context_spec. Qed.
Print Assumptions C10_storageclass_context_spec.

(* (c) bit-fields (structdecl/addmember).  The full-strength statement is false in two ways: _Bool bit-fields
   wider than one bit are accepted, and an alignment specifier on an unnamed bit-field is not noticed. *)
Theorem C10_bitfield_constraints_refuted :
  exists b : bitfield, bitfield_accepts b = true /\ ~ c11_bitfield_ok b.
Proof. exact bitfield_constraints_refuted. Qed.
Print Assumptions C10_bitfield_constraints_refuted.

Theorem C10_bitfield_alignas_unnamed_refuted :
  exists b : bitfield, bf_type b = BFint 4 /\ bitfield_accepts b = true /\ ~ c11_bitfield_ok b.
Proof. exact bitfield_alignas_unnamed_refuted. Qed.
Print Assumptions C10_bitfield_alignas_unnamed_refuted.

Theorem C10_bitfield_constraints_partial : forall b : bitfield,
  bf_type b <> BFbool ->
  bf_named b = true ->
  (forall bytes, bf_type b = BFint bytes -> (bytes <= 16)%N) ->
  bitfield_accepts b = true -> c11_bitfield_ok b.
Proof. exact bitfield_constraints_partial. Qed.
Print Assumptions C10_bitfield_constraints_partial.

Theorem C10_bitfield_complete : forall b : bitfield,
  (forall bytes, bf_type b = BFint bytes -> (0 < bytes <= 16)%N) ->
  (bf_width b < M64 - 1)%N ->
  c11_bitfield_ok b -> bitfield_accepts b = true.
Proof. exact bitfield_complete. Qed.
Print Assumptions C10_bitfield_complete.

(* (d) alignment specifiers: every accepted value is zero or a power of two and the strictest is not
   weaker than the alignment of the type; where a specifier may appear. *)
Theorem C10_alignas_constraints : forall (values : list N) (type_align : N),
  (forall v, In v values -> (v < M64)%N) ->
  alignas_accepts values type_align = true -> c11_alignas_ok values type_align.
Proof. exact alignas_constraints. Qed.
Print Assumptions C10_alignas_constraints.

Theorem C10_alignas_placement : forall d, alignas_allowed d = c11_alignas_allowed d.
Proof. exact alignas_placement. Qed.
Print Assumptions C10_alignas_placement.

(* (e) array declarators.  C11's "greater than zero" is false of the code (zero-length arrays are accepted). *)
Theorem C10_array_size_c11_refuted :
  exists a : arraydecl, array_accepts a true = true /\ ~ c11_array_ok a.
Proof. exact array_size_c11_refuted. Qed.
Print Assumptions C10_array_size_c11_refuted.

Theorem C10_array_size_constraints : forall (isint lsigned : bool) (u : N) (incomplete isfunc : bool) (esize : N),
  (u < M64)%N -> (0 < esize)%N ->
  array_check isint lsigned u incomplete isfunc esize = None ->
  ext_array_ok (mk_arr isint (array_signed_value lsigned u) incomplete isfunc esize).
Proof. exact array_size_constraints. Qed.
Print Assumptions C10_array_size_constraints.

Theorem C10_array_size_c11_partial : forall (isint lsigned : bool) (u : N) (incomplete isfunc : bool) (esize : N),
  (u < M64)%N -> (0 < esize)%N -> u <> 0%N ->
  array_check isint lsigned u incomplete isfunc esize = None ->
  c11_array_ok (mk_arr isint (array_signed_value lsigned u) incomplete isfunc esize).
Proof. exact array_size_c11_partial. Qed.
Print Assumptions C10_array_size_c11_partial.

Theorem C10_array_negative_rejected : forall (u : N) (esize : N),
  (9223372036854775808 <= u)%N -> (0 < esize)%N ->
  array_check true true u false false esize <> None.
Proof. exact array_negative_rejected. Qed.
Print Assumptions C10_array_negative_rejected.

(* (f) expandfunc: for every macro signature and every token list, the invocation is accepted exactly when
   the number of arguments is the one 6.10.3p4 demands (incl. M() for one parameter, and the rejected extra
   empty argument M(1,)). *)
Theorem C10_macro_arity : forall (named : nat) (variadic : bool) (ts : list atok),
  expandfunc_arity (macro_params named variadic) ts = AOk <-> c11_arity_ok named variadic ts = true.
Proof. exact macro_arity. Qed.
Print Assumptions C10_macro_arity.

(* Non-vacuity: the hypotheses of the theorems above are satisfiable on non-trivial instances, and the
   checkers do reject. *)
Example C10_nonvacuous :
  typespec_type [TSlong; TSunsigned; TSint; TSlong] = Some Cullong /\
  typespec [TSlong; TSdouble; TSlong] = inl EInvalidCombination /\
  typespec [TSint; TSint] = inl EMultipleTypes /\
  sc_run [SCstatic; SCthread] = Some 72%N /\ sc_run [SCstatic; SCextern] = None /\
  sc_ctx_check AtBlock DObject 64%N = false /\
  bitfield_accepts (mk_bf (BFint 4) 32 true false false) = true /\
  bitfield_accepts (mk_bf (BFint 4) 33 true false false) = false /\
  bitfield_accepts (mk_bf (BFint 4) 0 true false false) = false /\
  alignas_accepts [16; 0; 8]%N 8%N = true /\ alignas_accepts [4]%N 8%N = false /\ alignas_accepts [24]%N 8%N = false /\
  array_check true true (M64 - 1) false false 4 = Some EArrNegative /\
  array_check true false (M64 - 1) false false 4 = Some EArrTooLarge /\
  array_check true true 10 false false 4 = None /\
  expandfunc_arity (macro_params 1 false) [AOther; AComma; ARParen] = ATooMany /\
  expandfunc_arity (macro_params 2 true) [AOther; AComma; AOther; AComma; AOther; AComma; AOther; ARParen] = AOk /\
  covered catalogue (mk_site "pp.c" "expandfunc" Kerror "not enough arguments for macro '%s'" 1) = true /\
  covered catalogue (mk_site "pp.c" "expandfunc" Kerror "no such diagnostic" 1) = false.
Proof. vm_compute. repeat split; reflexivity. Qed.
