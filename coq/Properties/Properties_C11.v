(* C11 - diagnostics name the file and line of the offending construct.
   Only statements, each closed by `exact`, with Print Assumptions beneath.

   The location printed by error() is the `loc` of a token (or the scanner's current `loc`); the theorems
   below say what `loc` every token of the model carries.  Specification: Spec/LineSpec.v (physical line and
   column of every character; presumed line/file after `#line N ["f"]` and `# N "f" flags`; a token is where
   its first character is).  `run` is the -E token stream of the model (nextinto/directive/next/keyword),
   `run_scan` the raw scan() stream, `outs` the locations of all tokens that are not new-lines. *)
From Coq Require Import List NArith ZArith Bool Lia.
From Cproc Require Import Gen.Keywords Model.Scan Spec.Lex Spec.LineSpec
     Proofs.ScanSim Proofs.ScanLexShape Proofs.ScanLoc.
Import ListNotations.
Open Scope N_scope.

(* For every text that has no backslash-new-line directly after a '.', with any mixture of splices, comments,
   #line directives and line markers: the location of every token agrees (mod 2^64, the width of size_t)
   with the presumed location of the specification, token by token, as far as the specification goes
   (it stops at a directive it does not cover: anything but the two line-control forms with a decimal line
   number <= 2147483647 and an optional escape-free file name). *)
Theorem C11_loc_spec_partial : forall name text,
  no_dot_splice text ->
  prefix_match (expected file_plain name text) (outs (fst (run name text))).
Proof. exact loc_spec_partial. Qed.
Print Assumptions C11_loc_spec_partial.

(* The restriction is necessary: `..` + backslash-new-line + another character loses a line (known finding
   dotdot-splice-loc). *)
Theorem C11_loc_spec_refuted_dotdot :
  mismatch (expected file_plain [] text_dotdot) (outs (fst (run [] text_dotdot))).
Proof. exact loc_spec_refuted_dotdot. Qed.
Print Assumptions C11_loc_spec_refuted_dotdot.

(* ... and with the full file-name rule (escape sequences decoded) the statement fails on `#line 5 "a\\b.c"`
   (known finding D8b, source XXX). *)
Theorem C11_loc_spec_refuted_file_escape :
  mismatch (expected file_full [] text_file_escape) (outs (fst (run [] text_file_escape))).
Proof. exact loc_spec_refuted_file_escape. Qed.
Print Assumptions C11_loc_spec_refuted_file_escape.

Theorem C11_mismatch_not_prefix : forall spec got, mismatch spec got -> ~ prefix_match spec got.
Proof. exact mismatch_not_prefix. Qed.
Print Assumptions C11_mismatch_not_prefix.

(* Physical line and column of EVERY token of the raw scanner stream (splices and comments counted as the
   physical lines they occupy; columns start at 1); new-line tokens are excluded, they carry line+1, column 0. *)
Theorem C11_col_spec : forall name text, no_dot_splice text ->
  let f := S (S (length text)) in
  Forall2 (fun t lt => tkind t = lkind lt /\ phys_match t lt name)
          (fst (run_scan name text)) (fst (lex_all f f (logical text))).
Proof. exact scan_loc_spec. Qed.
Print Assumptions C11_col_spec.

(* the hypothesis is decidable *)
Theorem C11_no_dot_splice_decidable : forall text, no_dot_splice_b text = true -> no_dot_splice text.
Proof. exact no_dot_splice_b_sound. Qed.
Print Assumptions C11_no_dot_splice_decidable.

(* scansetloc after a line directive whose new-line is on physical line q: the next line is line n *)
Theorem C11_setloc : forall d s av sp fl newfile n q,
  Rel true d s av false sp [] fl ->
  Rel true (n - (q + 1))%Z (scansetloc s newfile n ((q + 1 + d) mod M64)%Z) av false sp [] newfile.
Proof. exact Rel_setloc. Qed.
Print Assumptions C11_setloc.

(* the convention for new-line tokens (known finding newline-token-loc when such a token is diagnosed) *)
Example C11_newline_token_convention :
  map (fun t => (lline (tloc t), lcol (tloc t))) (fst (run_scan [] [97; 10; 98])) = [(1, 1); (2, 0); (2, 1)]%Z.
Proof. exact newline_token_convention. Qed.

(* Non-vacuity: marker with flags, blank line, multi-line comment, splice, #line, `..` *)
Example C11_nonvacuous :
  no_dot_splice_b text_sample = true /\
  locsb (expected file_plain [109] text_sample) (outs (fst (run [109] text_sample))) = true /\
  expected file_plain [109] text_sample =
    [(f_h, 9%Z, 5%Z); (f_h, 10%Z, 2%Z); (f_h, 100%Z, 1%Z); (f_h, 100%Z, 2%Z); (f_h, 100%Z, 3%Z); (f_h, 100%Z, 4%Z)].
Proof. exact nonvacuous_loc. Qed.
