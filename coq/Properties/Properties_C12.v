(* C12 - macro definition and expansion follow C11 6.10.3 on the implemented subset.
   Only statements, each closed by `exact`, with Print Assumptions beneath. *)
From Coq Require Import List NArith Arith Bool String.
From Cproc Require Import Model.PP Spec.MacroSpec Proofs.PPBasics Proofs.PPStringize Proofs.PPObj Proofs.PPFunc Proofs.PPInv.
Import ListNotations.

(* The string literal expandfunc() builds for a `#` parameter (opening quote, stringize() on every token of
   the argument, trailing space dropped, closing quote) is the spelling of 6.10.3.2p2, for every argument. *)
Theorem C12_stringize_spec :
  forall l : list token, Forall wf_tok l -> stringize_all l = MacroSpec.spelling l.
Proof. exact stringize_spec. Qed.
Print Assumptions C12_stringize_spec.

(* macroequal() accepts exactly the redefinitions 6.10.3p2 allows (same kind, same parameter spelling, same
   replacement list including white-space separation) whose usage flags agree. *)
Theorem C12_macroequal_spec :
  forall m1 m2 : macro,
    macroequal m1 m2 = true <->
    MacroSpec.same_def m1 m2 /\
    (mfunc m1 = true -> List.map ptok (mparams m1) = List.map ptok (mparams m2) /\
                        List.map pstr (mparams m1) = List.map pstr (mparams m2)).
Proof. exact macroequal_spec. Qed.
Print Assumptions C12_macroequal_spec.

(* Object-like fragment: for EVERY table of object-like macros (self and mutual reference allowed) and
   EVERY source token list without '#', given fuel >= |src| * W(maxbody, |tb|) + 4, the specification
   (hide-set algorithm, both readings of 6.10.3.4p4) yields a result and the frame machine of pp.c terminates
   normally with exactly that token list (kinds, spellings, white-space and hide flags) minus the leading
   new-lines ppinit() skips.  This is also the termination theorem for object-like expansion. *)
Theorem C12_objlike_refines :
  forall (tb : table) (l : list token),
    all_object_like tb -> clean_bodies tb -> Forall clean_tok l ->
    forall fuel, bound tb l <= fuel ->
    exists out, MacroSpec.spec_run fuel tb l = SOk out /\ PP.run fuel true tb l = (dropnl_tok out, Done).
Proof. exact objlike_refines. Qed.
Print Assumptions C12_objlike_refines.

(* In every state reachable by calls of next(): m.hide is set iff a frame of m is on the context stack ... *)
Theorem C12_hide_iff_on_stack :
  forall tb, all_object_like tb -> clean_bodies tb ->
  forall l s n m, Forall clean_tok l -> reachable tb l s -> macroget (tbl s) n = Some m ->
    (mhide m = true <-> In n (names (ctx s))).
Proof. exact obj_hide_iff_on_stack. Qed.
Print Assumptions C12_hide_iff_on_stack.

(* ... and macrodepth counts the frames, no macro has two frames. *)
Theorem C12_depth_counts_frames :
  forall tb, all_object_like tb -> clean_bodies tb ->
  forall l s, Forall clean_tok l -> reachable tb l s ->
    depth s = List.length (ctx s) /\ NoDup (names (ctx s)).
Proof. exact obj_depth_counts_frames. Qed.
Print Assumptions C12_depth_counts_frames.

(* The WHOLE machine (function-like macros, variadic, #, directives that define and undefine macros on the
   way, any table without hidden macros, any source): in every state reachable through calls of next(),
   macrodepth = number of macro frames on ctx, and every macro whose hide flag is set has a frame on ctx. *)
Theorem C12_depth_counts_frames_general :
  forall tb l s,
    (forall n m, macroget tb n = Some m -> mhide m = false) ->
    reach tb l s ->
    depth s = List.length (mnames (ctx s)) /\
    (forall n m, macroget (tbl s) n = Some m -> mhide m = true -> In n (mnames (ctx s))).
Proof. exact depth_counts_frames_general. Qed.
Print Assumptions C12_depth_counts_frames_general.

(* A painted token (token.hide) is never expanded again, whatever the table and the state. *)
Theorem C12_painted_never_expanded :
  forall fuel s t, hide t = true -> expand (S fuel) s t = Ok (false, t, s).
Proof. exact painted_never_expanded. Qed.
Print Assumptions C12_painted_never_expanded.

(* Function-like macros, bounded: with the definitions of `prologue` (function-like, variadic, #, mutual
   reference, a function-like name at the end of a replacement list) EVERY text of at most 4 tokens over the
   8-token alphabet gives, wherever the specification defines a result, exactly that result. *)
Theorem C12_funclike_refines_partial :
  forall l, List.length l <= 4 -> Forall (fun t => In t alphabet) l ->
  agree 400 (prologue ++ l ++ [tNL]) = true.
Proof. exact funclike_refines_partial. Qed.
Print Assumptions C12_funclike_refines_partial.

(* ... and unrestricted it is false (known finding D29): a parameter used both plainly and with '#'. *)
Theorem C12_funclike_refines_refuted :
  exists l out, MacroSpec.spec_run 100 [] l = SOk out /\ fst (PP.run 100 true [] l) <> dropnl_tok out.
Proof. exact funclike_refines_refuted. Qed.
Print Assumptions C12_funclike_refines_refuted.

(* Non-vacuity.  #define A B 1 / #define B A y / text `B A` (the D28 example): hypotheses hold, the bound is
   reached, the result is  B 1 y A y 1  with the inner B and A painted. *)
Example C12_objlike_nonvacuous :
  let tb := [(bytes "A"%string, mkMacro false (bytes "A"%string) false [] [] [tI "B"%string true; tN "1"%string true]);
             (bytes "B"%string, mkMacro false (bytes "B"%string) false [] [] [tI "A"%string true; tI "y"%string true])] in
  let l := [tI "B"%string false; tI "A"%string true; tNL] in
  all_object_like tb /\ clean_bodies tb /\ Forall clean_tok l /\ bound tb l = 25 /\
  List.map (fun t => (lit t, hide t)) (fst (PP.run 25 true tb l)) =
  [(bytes "B"%string, true); (bytes "1"%string, false); (bytes "y"%string, true); (bytes "A"%string, true); (bytes "y"%string, true); (bytes "1"%string, false); ([], false)].
Proof.
  cbv zeta. split; [|split; [|split; [|split]]].
  - intros n m. cbn [macroget].
    destruct (str_eqb (bytes "A"%string) n) eqn:E1.
    + intros H. inversion H; subst. apply str_eqb_eq in E1. repeat split; auto.
    + destruct (str_eqb (bytes "B"%string) n) eqn:E2; [|discriminate].
      intros H. inversion H; subst. apply str_eqb_eq in E2. repeat split; auto.
  - intros n m. cbn [macroget].
    destruct (str_eqb (bytes "A"%string) n); [intros H; inversion H; subst; repeat constructor; discriminate|].
    destruct (str_eqb (bytes "B"%string) n); [intros H; inversion H; subst; repeat constructor; discriminate|discriminate].
  - repeat constructor; discriminate.
  - vm_compute. reflexivity.
  - vm_compute. reflexivity.
Qed.

(* Non-vacuity of the stringize theorem: an argument with a string literal, white space and a new-line. *)
Example C12_stringize_nonvacuous :
  let l := [mkTok KString (bytes """a\n"""%string) false false; mkTok KNewline [] false false; tI "b"%string false; tNL] in
  Forall wf_tok l /\ MacroSpec.spelling l = bytes """\""a\\n\"" b"""%string.
Proof.
  cbv zeta. split.
  - constructor. { unfold wf_tok; vm_compute. split; [discriminate|intros E; discriminate E]. }
    constructor. { unfold wf_tok; vm_compute. reflexivity. }
    constructor. { unfold wf_tok; vm_compute. split; [discriminate|intros E; discriminate E]. }
    constructor. { unfold wf_tok; vm_compute. reflexivity. }
    constructor.
  - vm_compute. reflexivity.
Qed.
