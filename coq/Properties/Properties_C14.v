(* C14 - character and string literals denote the standard-mandated values.
   Only statements, each closed by `exact`, with Print Assumptions beneath; Examples for non-vacuity. *)
From Coq Require Import NArith ZArith List Bool Lia.
From Cproc Require Import Spec.Unicode Spec.CLiteral Model.Utf Model.Literal.
From Cproc Require Import Proofs.UtfCheck Proofs.UtfProofs Proofs.LiteralProofs Proofs.LiteralSafe.
Import ListNotations.
Open Scope N_scope.

(* ---- utf.c ------------------------------------------------------------------------------- *)
(* For every Unicode scalar value (finite domain: below 0x110000, swept exhaustively) utf8enc
   produces exactly the RFC 3629 shortest form and utf8dec maps it back, reporting its length. *)
Theorem C14_utf8enc_spec : forall c, scalar c -> utf8enc c = Enc (utf8 c).
Proof. exact utf8enc_spec. Qed.
Print Assumptions C14_utf8enc_spec.

Theorem C14_utf8_roundtrip : forall c, scalar c ->
  exists bs, utf8enc c = Enc bs /\ N.of_nat (length bs) = utf8_len c /\ utf8dec bs 4 = Dec c (utf8_len c).
Proof. exact utf8_roundtrip_model. Qed.
Print Assumptions C14_utf8_roundtrip.

(* Whatever byte string and length it is given, utf8dec accepts only the shortest-form UTF-8
   encoding of a scalar value (no overlong forms, no surrogates, nothing above 0x10FFFF, every
   continuation byte checked) and reports exactly the bytes of that encoding. *)
Theorem C14_utf8dec_valid_only : forall s n c l,
  Forall (fun b => b < 256) s -> utf8dec s n = Dec c l ->
  scalar c /\ l = utf8_len c /\ firstn (N.to_nat l) s = utf8 c /\ (1 <= n -> l <= n).
Proof. exact utf8dec_valid_only. Qed.
Print Assumptions C14_utf8dec_valid_only.

Theorem C14_utf8dec_accepts_rfc3629_only : forall s n c l,
  Forall (fun b => b < 256) s -> utf8dec s n = Dec c l -> rfc3629_char (firstn (N.to_nat l) s) = true.
Proof. exact utf8dec_accepts_wellformed_only. Qed.
Print Assumptions C14_utf8dec_accepts_rfc3629_only.

Theorem C14_utf8dec_rejects_truncated : forall c k, scalar c -> (0 < k < length (utf8 c))%nat ->
  (forall b r, is_cont b = false -> utf8dec (firstn k (utf8 c) ++ b :: r) 4 = Invalid) /\
  utf8dec (firstn k (utf8 c)) (N.of_nat k) = Invalid /\
  utf8dec (firstn k (utf8 c)) 4 = OutOfBounds.
Proof. exact utf8dec_rejects_truncated. Qed.
Print Assumptions C14_utf8dec_rejects_truncated.

(* utf8dec never reads beyond a byte that is not a continuation byte (so never beyond the NUL
   that ends a token's text) *)
Theorem C14_utf8dec_in_bounds : forall a p b r n, is_cont b = false -> utf8dec (a :: p ++ b :: r) n <> OutOfBounds.
Proof. exact utf8dec_in_bounds. Qed.
Print Assumptions C14_utf8dec_in_bounds.

Theorem C14_utf16_roundtrip : forall c, scalar c ->
  exists us, utf16enc c = Enc us /\ Forall (fun u => u < 65536) us /\ utf16_decode us = Some c.
Proof. exact utf16_roundtrip. Qed.
Print Assumptions C14_utf16_roundtrip.

Theorem C14_utf16enc_spec : forall c, scalar c -> utf16enc c = Enc (utf16 c).
Proof. exact utf16enc_spec. Qed.
Print Assumptions C14_utf16enc_spec.

(* ---- assert(0) in the encoders is unreachable from literals --------------------------------- *)
Theorem C14_no_assert_scalar : forall c, scalar c -> utf8enc c <> AssertFail /\ utf16enc c <> AssertFail.
Proof. exact enc_no_assert. Qed.
Print Assumptions C14_no_assert_scalar.

Theorem C14_assert_iff_nonscalar : forall c, c < M32 -> ~ scalar c -> utf8enc c = AssertFail /\ utf16enc c = AssertFail.
Proof. exact enc_assert_nonscalar. Qed.
Print Assumptions C14_assert_iff_nonscalar.

(* for ANY token bytes: what decodechar hands to encodechar8/16/32 is a scalar value or takes the
   plain-store path *)
Theorem C14_no_assert_pipeline : forall w s chr ho r, width_ok w -> Forall (fun b => b < 256) s ->
  decodechar s = DOk chr ho r -> encoder w chr ho <> AssertFail.
Proof. exact encoders_no_assert. Qed.
Print Assumptions C14_no_assert_pipeline.

(* ---- escapes, strings, character constants -------------------------------------------------- *)
(* decodechar on the spelling of any well-formed item followed by anything that cannot extend it
   (maximal munch): the value C11 6.4.4.4 gives it, reduced mod 2^32 (uint_least32_t), and the rest *)
Theorem C14_escape_value : forall q it next, item_wf q it -> no_extend it next ->
  decodechar (render it ++ next) = DOk (item_value it mod M32) (is_escape_num it) next.
Proof. exact escape_value. Qed.
Print Assumptions C14_escape_value.

(* any sequence of adjacent string literal tokens with compatible prefixes, any well-formed items,
   every numeric escape within the range of the element type, on any target: element type, code
   units and element count are those of C11 6.4.5 *)
Theorem C14_string_elements_spec : forall tg parts k,
  merge_kinds K0 (map fst parts) = Some k ->
  let t := kind_type tg k in
  let w := ctype_size t in
  string_wf w parts ->
  exists alloc,
    stringconcat tg (map render_string parts) false
    = SOk t (string_elements w parts) (N.of_nat (length (string_elements w parts))) alloc.
Proof. exact string_elements_spec. Qed.
Print Assumptions C14_string_elements_spec.

Theorem C14_string_prefix_mismatch_rejected : forall tg parts f,
  merge_kinds K0 (map fst parts) = None ->
  stringconcat tg (map render_string parts) f = SErr EPrefix.
Proof. exact string_prefix_mismatch_rejected. Qed.
Print Assumptions C14_string_prefix_mismatch_rejected.

Theorem C14_plain_char_value : forall tg it z, item_wf 39 it -> no_extend it [39] ->
  plain_char_spec tg it = Some z ->
  charconst tg (render_const K0 it) = COk TInt (u64_of_Z z).
Proof. exact plain_char_value. Qed.
Print Assumptions C14_plain_char_value.

(* prefixed constants on every target whose wchar_t is a 32-bit integer type: L'\xffffffff' is -1
   where wchar_t is int (fixed in /repo: 3b588ec) *)
Theorem C14_wide_char_value : forall tg k it z, target_ok tg -> k <> K0 -> item_wf 39 it -> no_extend it [39] ->
  wide_char_spec tg k it = Some z ->
  charconst tg (render_const k it) = COk (const_type tg k) (u64_of_Z z).
Proof. exact wide_char_value. Qed.
Print Assumptions C14_wide_char_value.

(* a source character that does not fit a u8 / u constant is rejected, and every accepted
   single-character constant has a value of its type (fixed in /repo: 3b588ec) *)
Theorem C14_char_const_unrepresentable_rejected : forall tg k c, k = Ku \/ k = K8 ->
  item_wf 39 (IChar c) -> 2 ^ (8 * ctype_size (const_type tg k)) <= c ->
  charconst tg (render_const k (IChar c)) = CErr ERepr.
Proof. exact char_const_unrepresentable_rejected. Qed.
Print Assumptions C14_char_const_unrepresentable_rejected.

Theorem C14_char_const_fits : forall tg k c t v, target_ok tg -> item_wf 39 (IChar c) ->
  charconst tg (render_const k (IChar c)) = COk t v -> v < 2 ^ (8 * ctype_size t).
Proof. exact char_const_fits. Qed.
Print Assumptions C14_char_const_fits.

(* ---- known finding: out-of-range escapes are accepted and truncated (6.4.4.4p9) -------------- *)
(* full-strength statement "what is accepted has all escapes in range" is false of the code ... *)
Theorem C14_escape_in_range_refuted : ~ escape_in_range_statement.
Proof. exact escape_in_range_refuted. Qed.
Print Assumptions C14_escape_in_range_refuted.

Theorem C14_char_escape_in_range_refuted :
  exists tg it v, item_wf 39 it /\ no_extend it [39] /\ ~ in_range 1 it /\
                  charconst tg (render_const K0 it) = COk TInt v.
Proof. exact char_escape_in_range_refuted. Qed.
Print Assumptions C14_char_escape_in_range_refuted.
(* ... the partial statement (in-range escapes are never altered) is C14_string_elements_spec,
   C14_plain_char_value and C14_wide_char_value above. *)

(* ---- the whole pipeline on whatever the scanner lets through ----------------------------------- *)
(* scan.c (escape/charconst/stringlit, after the NUL-byte fix): an accepted literal token is
   prefix, quote, a body of the grammar wf_body (ordinary bytes other than quote, backslash,
   newline, NUL; simple escapes; 1-3 octal digits with maximal munch; \x + hex digits with
   maximal munch), closing quote; and the input is token ++ rest *)
Theorem C14_scan_literal_shape : forall inp t rest, bytes inp -> scan_literal inp = Some (t, rest) ->
  (lit_shape 34 t \/ lit_shape 39 t) /\ inp = t ++ rest.
Proof. exact scan_literal_shape. Qed.
Print Assumptions C14_scan_literal_shape.

(* on any sequence of such string tokens, any target, forceutf8 or not: no assert in decodechar or
   the encoders fails, nothing is read past a token's terminating NUL, the loops end (no
   EAssert/EOver/EFuel outcome); the only errors are the two diagnostics; and on success the
   number of elements written is at most the number allocated from strlen() *)
Theorem C14_stringconcat_safe : forall tg toks f, Forall tok_ok toks ->
  match stringconcat tg (map mk_string toks) f with
  | SErr e => e = EPrefix \/ e = EUtf8
  | SOk t el size alloc => size = N.of_nat (length el) /\ (total_len toks + 1 < M64 -> size <= alloc)
  end.
Proof. exact stringconcat_safe. Qed.
Print Assumptions C14_stringconcat_safe.

Theorem C14_charconst_safe : forall tg pre body, In pre prefixes -> wf_body 39 body -> bytes body ->
  match charconst tg (mk_const (pre, body)) with
  | COk _ _ => True
  | CErr e => e = EUtf8 \/ e = EMulti \/ e = ERepr
  end.
Proof. exact charconst_safe. Qed.
Print Assumptions C14_charconst_safe.

(* ---- targ.c agrees with the psABIs ----------------------------------------------------------- *)
Theorem C14_targets_abi :
  targ_x86_64_sysv = x86_64_sysv /\ targ_aarch64 = aarch64 /\ targ_riscv64 = riscv64.
Proof. exact (conj eq_refl (conj eq_refl eq_refl)). Qed.
Print Assumptions C14_targets_abi.

(* ---- non-vacuity ------------------------------------------------------------------------------ *)
(* U+20AC, U+1F600 are scalar; a surrogate is not *)
Example C14_nonvacuous_scalar : scalar 0x20AC /\ scalar 0x1F600 /\ ~ scalar 0xD800 /\
  utf8 0x1F600 = [0xF0; 0x9F; 0x98; 0x80] /\ utf16 0x1F600 = [0xD83D; 0xDE00] /\
  utf8dec [0xC0; 0x80] 4 = Invalid /\ utf8dec [0xED; 0xA0; 0x80] 4 = Invalid /\
  utf8dec [0xF4; 0x90; 0x80; 0x80] 4 = Invalid /\ utf8dec [0xE2; 0x82; 0x22] 4 = Invalid.
Proof. unfold scalar. repeat split; try reflexivity; lia. Qed.

(* u"a" "\xe9" u"<U+1F600>\101"  on aarch64: hypotheses of C14_string_elements_spec hold and the
   conclusion is the expected UTF-16 array *)
Example C14_nonvacuous_string :
  let parts := [(Ku, [IChar 97]); (K0, [IHex [101; 57]]); (Ku, [IChar 0x1F600; IOct [49; 48; 49]])] in
  merge_kinds K0 (map fst parts) = Some Ku /\ string_wf 2 parts /\
  string_elements 2 parts = [97; 0xE9; 0xD83D; 0xDE00; 65; 0] /\
  stringconcat targ_aarch64 (map render_string parts) false = SOk TUShort [97; 0xE9; 0xD83D; 0xDE00; 65; 0] 6 14.
Proof.
  cbv zeta. split; [reflexivity|]. split; [|split; reflexivity].
  unfold string_wf, scalar, in_range.
  repeat constructor; simpl; try discriminate; try lia; intros; vm_compute; reflexivity.
Qed.

(* '\377' is -1 on x86_64-sysv (char signed) and 255 on aarch64 *)
Example C14_nonvacuous_char :
  plain_char_spec x86_64_sysv (IOct [51; 55; 55]) = Some (-1)%Z /\
  charconst targ_x86_64_sysv (render_const K0 (IOct [51; 55; 55])) = COk TInt (u64_of_Z (-1)) /\
  charconst targ_aarch64 (render_const K0 (IOct [51; 55; 55])) = COk TInt 255 /\
  target_ok targ_x86_64_sysv /\ target_ok targ_aarch64 /\ target_ok targ_riscv64 /\
  wide_char_spec riscv64 KL (IHex [102; 102; 102; 102; 102; 102; 102; 102]) = Some (-1)%Z /\
  charconst targ_riscv64 (render_const KL (IHex [102; 102; 102; 102; 102; 102; 102; 102])) = COk TInt (u64_of_Z (-1)) /\
  charconst targ_aarch64 (render_const KL (IHex [102; 102; 102; 102; 102; 102; 102; 102])) = COk TUInt 0xffffffff /\
  charconst targ_x86_64_sysv (render_const Ku (IChar 0x1F600)) = CErr ERepr.
Proof. unfold target_ok. repeat split; try reflexivity; auto. Qed.

(* the scanner accepts  u8"a\x41g\101"  followed by ';' and the token meets tok_ok *)
Example C14_nonvacuous_scan :
  let inp := [117; 56; 34; 97; 92; 120; 52; 49; 103; 92; 49; 48; 49; 34; 59] in
  bytes inp /\ scan_literal inp = Some (mk_string ([117; 56], [97; 92; 120; 52; 49; 103; 92; 49; 48; 49]), [59]) /\
  tok_ok ([117; 56], [97; 92; 120; 52; 49; 103; 92; 49; 48; 49]) /\
  stringconcat targ_riscv64 [mk_string ([117; 56], [97; 92; 120; 52; 49; 103; 92; 49; 48; 49])] false = SOk TUChar [97; 65; 103; 65; 0] 5 11.
Proof.
  cbv zeta. split; [repeat constructor|]. split; [reflexivity|]. split; [|reflexivity].
  unfold tok_ok, prefixes. cbn [fst snd]. split; [simpl; auto|]. split; [|repeat constructor].
  apply wfb_byte; try discriminate.
  apply (wfb_hex 34 [52; 49] [103; 92; 49; 48; 49]); [simpl; lia|repeat constructor|reflexivity|].
  apply wfb_byte; try discriminate.
  apply (wfb_oct 34 [49; 48; 49] []); [simpl; lia|repeat constructor|simpl; lia|constructor].
Qed.
