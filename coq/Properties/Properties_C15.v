(* C15 - a switch transfers control to exactly the matching case.
   Only statements, each closed by `exact`, with Print Assumptions beneath. *)
From Coq Require Import ZArith NArith List Bool.
From Cproc Require Import Model.Tree Model.CaseSearch Proofs.TreeProofs Proofs.CaseSearchProofs.
Import ListNotations.

(* tree.c: for EVERY sequence of treeinsert calls starting from the empty tree, no null child is
   dereferenced, and the tree is a strict binary search tree, AVL-balanced, with every stored height
   field equal to the real height (so stopping the rebalancing loop at the first balance() that
   returns 0 is sound); its keys are exactly the inserted keys. *)
Theorem C15_avl_inv : forall ks : list N,
  exists t, insert_all ks Leaf = Some t /\ bst t /\ balanced t /\ heights_ok t /\
            (forall x, In x (elements t) <-> In x ks).
Proof. exact avl_inv. Qed.
Print Assumptions C15_avl_inv.

(* one treeinsert on any tree satisfying the invariant: the `new` flag is false exactly when the key
   was present (then the tree is returned untouched), the key set grows by exactly the key *)
Theorem C15_insert_elements_new_flag : forall k t,
  tree_inv t ->
  exists t' go nw, insert k t = Some (t', go, nw) /\ tree_inv t' /\
    nw = negb (memb k t) /\
    (forall x, In x (elements t') <-> x = k \/ In x (elements t)) /\
    (nw = false -> t' = t).
Proof. exact insert_step. Qed.
Print Assumptions C15_insert_elements_new_flag.

(* a balanced tree of height h has at least fib(h+2)-1 nodes ... *)
Theorem C15_height_log : forall t,
  balanced t -> (fib (Z.to_nat (rheight t) + 2) - 1 <= size t)%N.
Proof. exact height_log. Qed.
Print Assumptions C15_height_log.

(* ... hence with fewer than 2^64 nodes treeinsert writes at most 92 < MAXH = 96 slots of a[] *)
Theorem C15_path_fits : forall k t,
  balanced t -> (size t < 2 ^ 64)%N -> (path_len k t <= 92 /\ 92 < MAXH)%Z.
Proof. exact path_fits. Qed.
Print Assumptions C15_path_fits.

Theorem C15_stored_height_bound : forall t,
  balanced t -> heights_ok t -> (size t < 2 ^ 64)%N -> (0 <= height t <= 91)%Z.
Proof. exact stored_height_bound. Qed.
Print Assumptions C15_stored_height_bound.

(* qbe.c switchcase: the key is canonical (a fixed point of the conversion, below 2^64), it is the
   64-bit pattern of the constant converted to the controlling type per C11 6.3.1.3, and two constants
   get the same key exactly when they are equal after that conversion (so treeinsert's `new` flag
   detects precisely the duplicate case values) *)
Theorem C15_convert_canonical : forall size sgn,
  (1 <= size <= 8)%N ->
  (forall i, canonical size sgn (convert size sgn i)) /\
  (forall i, (i < two64)%N -> (convert size sgn i < two64)%N) /\
  (forall c, convert size sgn (repr64 c) = repr64 (toT (8 * Z.of_N size) sgn c)) /\
  (forall c1 c2, convert size sgn (repr64 c1) = convert size sgn (repr64 c2) <->
                 toT (8 * Z.of_N size) sgn c1 = toT (8 * Z.of_N size) sgn c2).
Proof. exact convert_canonical. Qed.
Print Assumptions C15_convert_canonical.

(* qbe.c casesearch: on a search tree with canonical keys the emitted ceq/cult ladder (class w reads
   the low 32 bits only) reaches the body of the key equal to the converted value, else default *)
Theorem C15_casesearch_correct : forall size sgn t v,
  size = 4%N \/ size = 8%N ->
  bst t -> allt (fun k => canonical size sgn k /\ (k < two64)%N) t -> (v < two64)%N ->
  search (cls_of_size size) t v =
    if memb (convert size sgn v) t then Some (convert size sgn v) else None.
Proof. exact casesearch_correct. Qed.
Print Assumptions C15_casesearch_correct.

(* the number of comparisons executed for any value is logarithmic in the number of cases *)
Theorem C15_ladder_depth_log : forall c t v,
  balanced t -> (fib (Z.to_nat (search_depth c t v) + 2) - 1 <= size t)%N.
Proof. exact ladder_depth_log. Qed.
Print Assumptions C15_ladder_depth_log.

(* the whole switch statement: case constants cs (mathematical values, source order), promoted
   controlling type of `size` bytes, run-time value V represented by the register content v *)
Theorem C15_switch_correct : forall size sgn (cs : list Z),
  size = 4%N \/ size = 8%N ->
  let w := (8 * Z.of_N size)%Z in
  let conv := map (toT w sgn) cs in
  match switchcases size sgn (map repr64 cs) Leaf with
  | Ok t =>
      NoDup conv /\ tree_inv t /\
      forall (V : Z) (v : N),
        toT w sgn V = V -> (v < two64)%N ->
        (if (size =? 4)%N then (v mod 2 ^ 32 = repr64 V mod 2 ^ 32)%N else v = repr64 V) ->
        (In V conv -> search (cls_of_size size) t v = Some (repr64 V)) /\
        (~ In V conv -> search (cls_of_size size) t v = None)
  | Dup => ~ NoDup conv
  | Crash => False
  end.
Proof. exact switch_correct. Qed.
Print Assumptions C15_switch_correct.

(* Non-vacuity.  Ascending 1..7: single rotations and an early stop of the rebalancing loop;
   [5;3;4]: a double rotation; a duplicate returns the tree untouched with new = false. *)
Example C15_rotations_single :
  insert_all [1;2;3;4;5;6;7]%N Leaf =
  Some (Node 4 3 (Node 2 2 (Node 1 1 Leaf Leaf) (Node 3 1 Leaf Leaf))
                 (Node 6 2 (Node 5 1 Leaf Leaf) (Node 7 1 Leaf Leaf))) /\
  insert 3%N (Node 1 2 Leaf (Node 2 1 Leaf Leaf)) =
    Some (Node 2 2 (Node 1 1 Leaf Leaf) (Node 3 1 Leaf Leaf), false, true) /\
  insert 4%N (Node 2 2 (Node 1 1 Leaf Leaf) (Node 3 1 Leaf Leaf)) =
    Some (Node 2 3 (Node 1 1 Leaf Leaf) (Node 3 2 Leaf (Node 4 1 Leaf Leaf)), true, true) /\
  insert 1%N (Node 4 3 (Node 2 2 Leaf (Node 3 1 Leaf Leaf)) (Node 6 2 (Node 5 1 Leaf Leaf) (Node 7 1 Leaf Leaf))) =
    Some (Node 4 3 (Node 2 2 (Node 1 1 Leaf Leaf) (Node 3 1 Leaf Leaf)) (Node 6 2 (Node 5 1 Leaf Leaf) (Node 7 1 Leaf Leaf)), false, true).
Proof. exact rotations_single. Qed.

Example C15_rotation_double :
  insert_all [5;3;4]%N Leaf = Some (Node 4 2 (Node 3 1 Leaf Leaf) (Node 5 1 Leaf Leaf)) /\
  insert_all [3;5;4]%N Leaf = Some (Node 4 2 (Node 3 1 Leaf Leaf) (Node 5 1 Leaf Leaf)) /\
  insert 4%N (Node 5 2 (Node 3 1 Leaf Leaf) Leaf) = Some (Node 4 2 (Node 3 1 Leaf Leaf) (Node 5 1 Leaf Leaf), false, true) /\
  insert 5%N (Node 4 2 (Node 3 1 Leaf Leaf) (Node 5 1 Leaf Leaf)) = Some (Node 4 2 (Node 3 1 Leaf Leaf) (Node 5 1 Leaf Leaf), false, false).
Proof. exact rotation_double. Qed.

(* the crash value of the model is reachable only outside the invariant *)
Example C15_crash_reachable_without_invariant :
  insert 9%N (Node 5 7 Leaf (Node 8 1 Leaf Leaf)) <> None /\
  balance (Node 5 1 Leaf (Node 8 5 Leaf Leaf)) = Some (Node 8 2 (Node 5 1 Leaf Leaf) Leaf, 1%Z) /\
  balance (Node 5 1 (Node 1 (-1) Leaf Leaf) (Node 8 5 Leaf (Node 9 (-3) Leaf Leaf))) = None.
Proof. exact crash_reachable_without_invariant. Qed.

(* an `int` switch: `case 3: case -2: case 0x100000001:` (the last is 1 after conversion); adding
   `case 0xfffffffe:` duplicates -2; `case -1: case 0xffffffffu:` collide on unsigned but not on long;
   probes equal modulo 2^32 reach the same case in class w *)
Example C15_switch_int_example :
  switchcases 4 true (map repr64 [3; -2; 4294967297]%Z) Leaf =
    Ok (Node 3 2 (Node 1 1 Leaf Leaf) (Node 18446744073709551614 1 Leaf Leaf)) /\
  switchcases 4 true (map repr64 [3; -2; 4294967297; 4294967294]%Z) Leaf = Dup /\
  switchcases 4 false (map repr64 [-1; 4294967295]%Z) Leaf = Dup /\
  switchcases 8 true (map repr64 [-1; 4294967295]%Z) Leaf =
    Ok (Node 18446744073709551615 2 (Node 4294967295 1 Leaf Leaf) Leaf) /\
  let t := Node 3 2 (Node 1 1 Leaf Leaf) (Node 18446744073709551614 1 Leaf Leaf) in
  map (search W t) [1; 3; 4294967294; 18446744073709551614; 2; 4294967297]%N =
    [Some 1; Some 3; Some 18446744073709551614; Some 18446744073709551614; None; Some 1]%N.
Proof. exact switch_int_example. Qed.

(* the canonical-keys hypothesis of C15_casesearch_correct is needed: with the unconverted keys 2 and
   2^32+1 (what switchcase stored before the conversion was added) value 1 falls to default *)
Example C15_casesearch_needs_canonical :
  let t := Node 2 2 Leaf (Node (2 ^ 32 + 1) 1 Leaf Leaf) in
  bst t /\ search W t 1 = None /\ search W t (2 ^ 32 + 1) = None /\ memb (2 ^ 32 + 1)%N t = true.
Proof. exact casesearch_needs_canonical. Qed.
