(* C16 - names always resolve to the declaration C scoping selects.
   Only statements, each closed by `exact`, with Print Assumptions beneath. *)
From Coq Require Import List NArith Arith Bool Lia.
From Cproc Require Import Model.Map Model.Scope Proofs.MapProofs Proofs.ScopeProofs.
Import ListNotations.

(* For every history of table operations and EVERY hash function (so: however hashes collide),
   with any power-of-two initial capacity >= 4, the open-addressing table is a finite map:
   all loops terminate within their fuel, the invariant holds and every lookup returns the
   value of the abstract map. *)
Theorem C16_map_refines :
  forall (key : Type) (key_eqb : key -> key -> bool),
    (forall a b, key_eqb a b = true <-> a = b) ->
  forall (h : key -> N) (c : nat) (ops : list (op key)),
    pow2cap c ->
    exists m, run key key_eqb h c ops = Some m /\ Inv key h m /\
              forall k, mapget key key_eqb h m k = Some (spec_run key key_eqb ops k).
Proof. exact map_refines. Qed.
Print Assumptions C16_map_refines.

Theorem C16_probe_terminates :
  forall (key : Type) (key_eqb : key -> key -> bool),
    (forall a b, key_eqb a b = true <-> a = b) ->
  forall (h : key -> N) (m : map key) (k : key),
    Inv key h m -> keyindex key key_eqb h (slots m) (cap m) k <> OutOfFuel.
Proof. exact probe_terminates. Qed.
Print Assumptions C16_probe_terminates.

Theorem C16_load_inv :
  forall (key : Type) (key_eqb : key -> key -> bool),
    (forall a b, key_eqb a b = true <-> a = b) ->
  forall (h : key -> N) (c : nat) (ops : list (op key)) (m : map key),
    pow2cap c -> run key key_eqb h c ops = Some m ->
    2 * len m <= cap m + 2 /\ len m < cap m /\ len m = count key (slots m) /\ pow2cap (cap m).
Proof. exact load_inv. Qed.
Print Assumptions C16_load_inv.

(* Scope chain: for every history of mkscope/delscope/put operations, a lookup yields the
   binding of the innermost scope that binds the name; tags and ordinary identifiers never
   interfere (the specification updates only one component); deleting a scope restores the
   outer view (the specification pops the frame). *)
Theorem C16_scope_innermost :
  forall (key : Type) (key_eqb : key -> key -> bool),
    (forall a b, key_eqb a b = true <-> a = b) ->
  forall (h : key -> N) (ops : list (sop key)),
    match spec_srun key key_eqb ops with
    | Some ss => exists s, srun key key_eqb h ops = Some s /\
                 forall k rc, scopegetdecl key key_eqb h s k rc = Some (spec_get key fst ss k rc) /\
                              scopegettag key key_eqb h s k rc = Some (spec_get key snd ss k rc)
    | None => srun key key_eqb h ops = None
    end.
Proof. exact scope_innermost. Qed.
Print Assumptions C16_scope_innermost.

(* The instance the compiler uses: byte strings hashed with FNV-1a in 64-bit arithmetic. *)
Lemma bytes_eqb_spec a b : bytes_eqb a b = true <-> a = b.
Proof.
  revert b; induction a as [|x a IH]; intros [|y b]; simpl; split; try congruence; try discriminate.
  - rewrite andb_true_iff, N.eqb_eq, IH. intros [-> ->]. reflexivity.
  - intros H. inversion H; subst. rewrite andb_true_iff, N.eqb_eq, IH. auto.
Qed.

Theorem C16_map_refines_fnv1a :
  forall (c : nat) (ops : list (op (list N))), pow2cap c ->
    exists m, run _ bytes_eqb fnv1a c ops = Some m /\
              forall k, mapget _ bytes_eqb fnv1a m k = Some (spec_run _ bytes_eqb ops k).
Proof.
  intros c ops Hp. destruct (map_refines _ bytes_eqb bytes_eqb_spec fnv1a c ops Hp) as (m & A & _ & B).
  exists m. split; assumption.
Qed.
Print Assumptions C16_map_refines_fnv1a.

(* Non-vacuity: a concrete history on a capacity-4 table with a constant hash (every key collides,
   probes wrap around the table end, two growths) meets the hypotheses and exercises the invariant. *)
Example C16_nonvacuous :
  pow2cap 4 /\
  let ops := [OpPut [1%N] 11%N; OpPut [2%N] 12%N; OpPut [3%N] 13%N; OpTouch [4%N]; OpPut [2%N] 22%N;
              OpPut [5%N] 15%N; OpPut [1%N] 0%N] in
  match run _ bytes_eqb (fun _ => 3%N) 4 ops with
  | Some m => cap m = 16 /\ len m = 5 /\
              List.map (fun k => mapget _ bytes_eqb (fun _ => 3%N) m [k]) [1;2;3;4;5;6]%N
              = [Some 0; Some 22; Some 13; Some 0; Some 15; Some 0]%N
  | None => False
  end.
Proof. split; [exists 2; split; [reflexivity|lia]|]. vm_compute. auto. Qed.
