(* C17 - the driver runs exactly the documented stages with the documented arguments.
   Only statements, each closed by `exact`, with Print Assumptions beneath; Examples at the end.

   Driver.plan     : model of driver.c (main's option loop, buildobj naming, spawnphase/buildexe argv assembly)
   DriverSpec.plan : cproc(1) read as tables + declarative functions of the item list (= plan_q documented)
   DriverSpec.plan_q asbuilt : the same with the three known deviations switched on
                     (D24 one-character operand refused, D20 -emit-qbe writes <base>.qbe, header handed to ld) *)
From Coq Require Import List String Ascii NArith ZArith Bool Arith Lia Sorting.Sorted.
From Cproc Require Import Lib.DriverTypes Model.Driver Spec.DriverSpec Proofs.DriverProofs.
Import ListNotations.
Open Scope string_scope.
Open Scope list_scope.

(* For every configuration and every command line: unless the C code reads arg[1] of an empty-string operand
   (outcome Undefined), the driver refuses exactly the command lines the as-built manual refuses (same
   diagnostic), and otherwise starts exactly the pipelines, argument vectors, output names and linker command
   the as-built manual prescribes. *)
Theorem C17_plan_asbuilt :
  forall cfg argv, Driver.plan cfg argv <> Undefined -> Driver.plan cfg argv = DriverSpec.plan_q asbuilt cfg argv.
Proof. exact plan_asbuilt. Qed.
Print Assumptions C17_plan_asbuilt.

(* ... hence equality with the manual itself wherever the three switches make no difference. *)
Theorem C17_plan_spec_partial :
  forall cfg argv, Driver.plan cfg argv <> Undefined ->
    DriverSpec.plan_q asbuilt cfg argv = DriverSpec.plan cfg argv ->
    Driver.plan cfg argv = DriverSpec.plan cfg argv.
Proof. exact plan_spec_partial. Qed.
Print Assumptions C17_plan_spec_partial.

(* The option loop never runs out of fuel (it terminates on every command line) ... *)
Theorem C17_plan_terminates : forall cfg argv, Driver.plan cfg argv <> OutOfFuel.
Proof. exact plan_no_fuel. Qed.
Print Assumptions C17_plan_terminates.

(* ... and its only undefined read needs an empty-string argument. *)
Theorem C17_plan_undefined_only_empty_operand : forall cfg argv, Driver.plan cfg argv = Undefined -> In "" argv.
Proof. exact plan_undefined. Qed.
Print Assumptions C17_plan_undefined_only_empty_operand.

(* stages by file type and mode, -o on the last stage only, the input name on the first only *)
Theorem C17_plan_pipelines :
  forall cfg argv v ps lk, Driver.plan cfg argv = Run v ps lk ->
  exists archs items,
    arch_for (target cfg) = Some archs /\ lex asbuilt NONE argv = inr items /\
    forall p, In p ps ->
      exists name t k, In (IInput name t) items /\ is_built items t = true /\
                       p_dest p = dest_for asbuilt items name k /\
                       map fst (p_cmds p) = pipeline_stages items t /\
                       p_cmds p = stage_cmds cfg archs items (pipeline_stages items t) true name (p_dest p).
Proof. exact plan_pipelines. Qed.
Print Assumptions C17_plan_pipelines.

(* routing: every tool gets its configured command, the target flag, then the options addressed to it
   (tool_args = base ++ fwd g items, fwd = the forwarded items in command-line order) *)
Theorem C17_route_order :
  forall cfg argv v ps lk, Driver.plan cfg argv = Run v ps lk ->
  exists archs items,
    arch_for (target cfg) = Some archs /\ lex asbuilt NONE argv = inr items /\
    (forall p g ws, In p ps -> In (g, ws) (p_cmds p) ->
       exists tail, ws = lits (tool_args cfg archs items g) ++ tail) /\
    (forall ws, lk = Some ws -> exists tail, ws = lits (tool_args cfg archs items LINK) ++ tail).
Proof. exact route_order. Qed.
Print Assumptions C17_route_order.

Theorem C17_stages_contiguous :
  forall items t,
    StronglySorted (fun a b => stage_idx a < stage_idx b) (pipeline_stages items t) /\
    Forall (fun g => stage_idx g <= stage_idx (mode items) /\ g <> LINK) (pipeline_stages items t).
Proof. exact pipeline_stages_sorted. Qed.
Print Assumptions C17_stages_contiguous.

(* ------------------------------------------------------------------ the full-strength statement is false *)
(* D20: -emit-qbe a.c writes a.qbe, the manual says standard output *)
Theorem C17_plan_spec_refuted_emit_qbe :
  exists cfg argv, Driver.plan cfg argv <> Undefined /\ Driver.plan cfg argv <> DriverSpec.plan cfg argv.
Proof. exact spec_refuted_emit_qbe. Qed.

(* D24: a file called x is refused *)
Theorem C17_plan_spec_refuted_one_char_name :
  exists cfg argv, Driver.plan cfg argv = Usage UStdinNeedsX /\ exists v ps lk, DriverSpec.plan cfg argv = Run v ps lk.
Proof. exact spec_refuted_one_char_name. Qed.

(* a header among the inputs of a link is handed to the linker *)
Theorem C17_plan_spec_refuted_header_linked :
  exists cfg argv, Driver.plan cfg argv <> Undefined /\ Driver.plan cfg argv <> DriverSpec.plan cfg argv.
Proof. exact spec_refuted_header_linked. Qed.

(* ------------------------------------------------------------------ non-vacuity *)
Example C17_nonvacuous_link :
  let argv := ["-DX"; "dir/a.c"; "-Wl,--gc-sections,-z"; "-x"; "assembler"; "b.txt"; "-x"; "none"; "-l"; "m"; "c.o";
               "-o"; "prog"; "-Wa,-k"] in
  Driver.plan cfg0 argv <> Undefined /\
  DriverSpec.plan_q asbuilt cfg0 argv = DriverSpec.plan cfg0 argv /\
  Driver.plan cfg0 argv =
  Run false
    [{| p_cmds := [(PREPROCESS, [Lit "cpp"; Lit "-U"; Lit "__GNUC__"; Lit "-D"; Lit "X"; Lit "dir/a.c"]);
                   (COMPILE, [Lit "/bin/cproc-qbe"; Lit "-t"; Lit "aarch64"]);
                   (CODEGEN, [Lit "qbe"; Lit "-t"; Lit "arm64"]);
                   (ASSEMBLE, [Lit "as"; Lit "-k"; Lit "-o"; Temp 0])];
        p_dest := DFile (Temp 0) |};
     {| p_cmds := [(ASSEMBLE, [Lit "as"; Lit "-k"; Lit "-o"; Temp 1; Lit "b.txt"])];
        p_dest := DFile (Temp 1) |}]
    (Some [Lit "ld"; Lit "-L"; Lit "/lib"; Lit "--gc-sections"; Lit "-z"; Lit "-o"; Lit "prog"; Lit "-l"; Lit ":crt1.o";
           Temp 0; Temp 1; Lit "-l"; Lit "m"; Lit "c.o"; Lit "-l"; Lit "c"]).
Proof. cbv zeta. split; [vm_compute; discriminate|]. split; vm_compute; reflexivity. Qed.

Example C17_nonvacuous_refusals :
  Driver.plan cfg0 ["-c"; "a.c"; "b.c"; "-o"; "x.o"] = Usage UMultiOutput /\
  Driver.plan cfg0 ["-c"; "a.c"; "-o"; "-"] = Usage UObjStdout /\
  Driver.plan cfg0 ["-S"; "-x"; "c"; "-"; "-o"; "-"] =
    Run false [{| p_cmds := [(PREPROCESS, [Lit "cpp"; Lit "-U"; Lit "__GNUC__"]);
                             (COMPILE, [Lit "/bin/cproc-qbe"; Lit "-t"; Lit "aarch64"]);
                             (CODEGEN, [Lit "qbe"; Lit "-t"; Lit "arm64"])];
                  p_dest := DStdout |}] None /\
  Driver.plan cfg0 ["a.c"; "-include"] = Usage UPlain /\
  Driver.plan cfg0 ["-D"; "X"; "-c"; "-include"] = Usage UPlain /\
  Driver.plan cfg0 ["-cfoo"; "a.c"] = Usage UPlain /\
  Driver.plan cfg0 ["-x"; "pascal"; "a.c"] = Usage (UUnknownLang "pascal") /\
  Driver.plan cfg0 ["-c"; ""] = Undefined.
Proof. repeat split; vm_compute; reflexivity. Qed.
