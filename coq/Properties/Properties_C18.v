(* C18 - a failing stage makes the whole driver invocation fail cleanly.
   Only statements, each closed by `exact`, with Print Assumptions beneath; Examples at the end.

   LEVEL: proof over a model of the operating system (partial).  DriverProc.run is the driver's reaction to an
   environment that decides which spawns succeed, which pids are handed out and in which order wait() returns
   which (pid, status) - the schedule.  The kernel facts used are hypotheses, collected in sane_pipeline
   (distinct non-zero pids, wait() never returns 0 and returns a child once) and fair_pipeline (a child that was
   started is eventually returned by wait(): it finishes or it was sent SIGTERM and does not ignore it). *)
From Coq Require Import List String Bool Arith Lia.
From Cproc Require Import Lib.DriverTypes Model.Driver Model.DriverProc Spec.DriverProcSpec Proofs.DriverProofs Proofs.DriverProcProofs.
Import ListNotations.
Open Scope list_scope.

(* For every list of pipelines (any number of inputs, any stages), every environment (every failure point, every
   failure mode, every schedule): if some pipeline fails - a tool cannot be started, or wait() reports a status
   other than exit 0 for one of its children - the driver exits 1, does not block, never starts the linker, has
   reaped every child it started, signals only its own children, and leaves neither a temporary object nor the
   output of the failing pipeline. *)
Theorem C18_fail_clean :
  forall e v pls link,
  all_pipelines (sane_pipeline e) 0 pls -> all_pipelines (fair_pipeline e) 0 pls ->
  ~ all_pipelines (pipeline_ok e) 0 pls ->
  let tr := run e (Run v pls link) in
  exit_code tr = Some 1 /\ is_stuck tr = false /\ link_started tr = false /\
  incl (spawned_pids tr) (waited_pids tr) /\ incl (killed_pids tr) (spawned_pids tr) /\
  exists j pl, nth_error pls j = Some pl /\ ~ pipeline_ok e j pl /\
    forall w, In w (may_exist tr []) -> is_temp w = false /\ p_dest pl <> DFile w.
Proof. exact fail_clean. Qed.
Print Assumptions C18_fail_clean.

Theorem C18_success_clean :
  forall e v pls link,
  all_pipelines (sane_pipeline e) 0 pls -> all_pipelines (fair_pipeline e) 0 pls ->
  all_pipelines (pipeline_ok e) 0 pls -> (link <> None -> link_ok e) -> wf_plan pls link ->
  let tr := run e (Run v pls link) in
  exit_code tr = Some 0 /\ is_stuck tr = false /\
  link_started tr = (match link with Some _ => true | None => false end) /\
  incl (spawned_pids tr) (waited_pids tr) /\ killed_pids tr = [] /\
  (forall w, In w (may_exist tr []) -> is_temp w = false) /\
  (forall pl s, In pl pls -> p_dest pl = DFile (Lit s) -> In (Lit s) (may_exist tr [])).
Proof. exact success_clean. Qed.
Print Assumptions C18_success_clean.

Theorem C18_link_fail_clean :
  forall e v pls argv,
  all_pipelines (sane_pipeline e) 0 pls -> all_pipelines (fair_pipeline e) 0 pls ->
  all_pipelines (pipeline_ok e) 0 pls -> ~ link_ok e ->
  let tr := run e (Run v pls (Some argv)) in
  exit_code tr = Some 1 /\ is_stuck tr = false /\
  incl (spawned_pids tr) (waited_pids tr) /\ killed_pids tr = [] /\
  (forall w, In w (may_exist tr []) -> is_temp w = false).
Proof. exact link_fail_clean. Qed.
Print Assumptions C18_link_fail_clean.

(* buildobj's reaping loop: with a fair schedule it ends with every child reaped (however the schedule interleaves
   unknown processes), SIGTERM goes at most once to each child and only to children of this pipeline, and after
   the first failure every child was either reaped before any signal was sent or is among those signalled. *)
Theorem C18_wait_loop_terminates :
  forall sched t n success,
  Inv t n -> ~ In 0 (map fst sched) -> NoDup (map fst sched) ->
  (forall p, In p (live t) -> In p (map fst sched)) ->
  match wait_loop sched t n success with
  | (ev, s', t', stuck) =>
      stuck = false /\ live t' = [] /\ incl (live t) (waited_pids ev) /\
      incl (killed_pids ev) (live t) /\ NoDup (killed_pids ev) /\
      (s' = false -> success = true ->
         forall q, In q (live t) ->
           In q (killed_pids ev) \/ exists ev1 st ev2, ev = ev1 ++ EWait q st :: ev2 /\ killed_pids ev1 = [])
  end.
Proof. exact wait_loop_terminates. Qed.
Print Assumptions C18_wait_loop_terminates.

(* the plans computed by main (C17 model) satisfy the structural hypothesis of sane_pipeline *)
Theorem C18_plan_stages_nodup :
  forall cfg argv v ps lk, Driver.plan cfg argv = Run v ps lk -> forall p, In p ps -> NoDup (stages_of_pipeline p).
Proof. exact plan_stages_nodup. Qed.
Print Assumptions C18_plan_stages_nodup.

(* ------------------------------------------------------------------ non-vacuity *)
Open Scope string_scope.
Definition env1 : env :=
  {| spawn_ok := fun _ _ => true;
     pid_of := fun _ g => match g with PREPROCESS => 11 | COMPILE => 12 | CODEGEN => 13 | ASSEMBLE => 14 | LINK => 15 end;
     waits := fun k => match k with
                       | 0 => [(12, Exited 0); (99, Exited 3); (13, Exited 1); (14, Exited 0); (11, Signaled 15)]
                       | _ => []
                       end;
     link_spawn_ok := true; link_status := Exited 0 |}.

Ltac nodup := repeat (apply NoDup_cons; [simpl; intuition (try discriminate; try lia)|]); apply NoDup_nil.

(* cproc a.c; the code generator exits 1 after the compiler proper has finished, an unknown child is reaped in
   between: hypotheses of C18_fail_clean hold, and the trace is the expected one *)
Example C18_nonvacuous_fail :
  match Driver.plan cfg0 ["a.c"] with
  | Run v pls link =>
      all_pipelines (sane_pipeline env1) 0 pls /\ all_pipelines (fair_pipeline env1) 0 pls /\
      ~ all_pipelines (pipeline_ok env1) 0 pls /\
      map (fun ev => match ev with ESpawn k g p _ => ESpawn k g p [] | ESpawnLink _ => ESpawnLink [] | x => x end)
          (run env1 (Run v pls link)) =
      [EMkstemp (Temp 0); ESpawn 0 PREPROCESS 11 []; ESpawn 0 COMPILE 12 []; ESpawn 0 CODEGEN 13 []; ESpawn 0 ASSEMBLE 14 [];
       ECreate (Temp 0); EWait 12 (Exited 0); EWait 99 (Exited 3); EWait 13 (Exited 1); EKill 11; EKill 14;
       EWait 14 (Exited 0); EWait 11 (Signaled 15); EUnlink (Temp 0); EUnlink (Temp 0); EExit 1]
  | _ => False
  end.
Proof.
  vm_compute Driver.plan. split; [|split; [|split]].
  - split; [|exact I]. unfold sane_pipeline. simpl.
    split; [nodup|]. split; [intros g _; destruct g; discriminate|]. split; [nodup|]. split; [intuition lia|nodup].
  - split; [|exact I]. intros g Hg. simpl in Hg. simpl.
    destruct Hg as [<-|[<-|[<-|[<-|[]]]]]; simpl; tauto.
  - intros [[_ H] _]. specialize (H CODEGEN (Exited 1)). simpl in H.
    assert (false = true) by (apply H; tauto). discriminate.
  - vm_compute. reflexivity.
Qed.

Example C18_nonvacuous_success :
  match Driver.plan cfg0 ["-c"; "a.s"] with
  | Run v pls link =>
      let e := {| spawn_ok := fun _ _ => true; pid_of := fun _ _ => 7; waits := fun _ => [(7, Exited 0)];
                  link_spawn_ok := true; link_status := Exited 0 |} in
      all_pipelines (sane_pipeline e) 0 pls /\ all_pipelines (fair_pipeline e) 0 pls /\
      all_pipelines (pipeline_ok e) 0 pls /\ wf_plan pls link /\
      exit_code (run e (Run v pls link)) = Some 0 /\ may_exist (run e (Run v pls link)) [] = [Lit "a.o"]
  | _ => False
  end.
Proof.
  vm_compute Driver.plan. cbv zeta.
  split. { split; [|exact I]. unfold sane_pipeline. simpl.
           split; [nodup|]. split; [intros g _; discriminate|]. split; [nodup|]. split; [intuition lia|nodup]. }
  split. { split; [|exact I]. intros g [<-|[]]. simpl. tauto. }
  split. { split; [|exact I]. split; [intros g _; reflexivity|]. intros g st _ [H|[]]. inversion H. reflexivity. }
  split. { intros _. reflexivity. }
  split; vm_compute; reflexivity.
Qed.
