(* C19 - the compiler proper is memory-safe, terminating and exits only 0, 1 or 2.
   PARTIAL: what is proved here are the termination and bound lemmas of the modelled algorithms
   (each loop of the model is structurally recursive or fuelled with a proved sufficient-fuel lemma);
   heap memory safety of the C program is not modelled (sanitizer-assisted search, see props/c19.py). *)
From Coq Require Import List NArith Arith Lia.
From Cproc Require Import Model.Map Proofs.MapProofs Model.Zero Proofs.ZeroProofs.
From Cproc Require Properties.Properties_C04 Properties.Properties_C14 Properties.Properties_C15 Properties.Properties_C03
     Properties.Properties_C13 Properties.Properties_C12 Properties.Properties_C08.
Import ListNotations.

(* keyindex's probe loop ends within cap steps on every table any history can produce (any hash). *)
Theorem C19_probe_terminates :
  forall (key : Type) (key_eqb : key -> key -> bool),
    (forall a b, key_eqb a b = true <-> a = b) ->
  forall (h : key -> N) (c : nat) (ops : list (op key)) (k : key), pow2cap c ->
    exists m, run key key_eqb h c ops = Some m /\ keyindex key key_eqb h (slots m) (cap m) k <> OutOfFuel.
Proof.
  intros key key_eqb Hs h c ops k Hp.
  destruct (map_refines key key_eqb Hs h c ops Hp) as (m & Hr & HI & _).
  exists m. split; [exact Hr|]. apply probe_terminates; assumption.
Qed.
Print Assumptions C19_probe_terminates.

(* qbe.c:zero(): for every power-of-two alignment (also > 8, the case that used to index the store table out of
   bounds) and every range, the loop ends within (end - offset) + 8 iterations, every store is 1, 2, 4 or 8 bytes
   wide (index into the 9-entry opcode table in bounds) and naturally aligned, the stores tile the range from
   `offset` without gap or overlap, cover it, and stop before end + min(align, 8). *)
Theorem C19_zero_terminates_in_bounds :
  forall align offset e : N, (exists k, align = 2 ^ k)%N ->
  exists st final, zero (N.to_nat (e - offset) + 8) align offset e = ZDone st final /\
    tiles st offset final /\ Forall store_ok st /\
    ((offset < e)%N -> (e <= final < e + capalign align)%N) /\ ((e <= offset)%N -> st = []).
Proof. exact zero_spec. Qed.
Print Assumptions C19_zero_terminates_in_bounds.

Example C19_zero_nonvacuous :
  zero 40 16 1 21 = ZDone [(1, 1); (2, 2); (4, 4); (8, 8); (16, 8)]%N 24%N /\ (exists k, 16 = 2 ^ k)%N.
Proof. split; [vm_compute; reflexivity|exists 4%N; reflexivity]. Qed.

(* ---- termination / bound / no-trap lemmas proved under other properties, collected here because C19 relies on them
        (each statement is exactly the one of the cited theorem; see that file for the reading) ---- *)

(* eval.c: constant folding never executes a host division that traps (every expression tree) *)
Theorem C19_folding_never_traps : ltac:(let t := type of Properties_C04.C04_no_trap in exact t).
Proof. exact Properties_C04.C04_no_trap. Qed.
Print Assumptions C19_folding_never_traps.

(* eval.c: every shift count used by the folder is in [0, 64) *)
Theorem C19_fold_shift_count_bound : ltac:(let t := type of Properties_C04.C04_shift_count_bound in exact t).
Proof. exact Properties_C04.C04_shift_count_bound. Qed.
Print Assumptions C19_fold_shift_count_bound.

(* tree.c: the path array a[MAXH] of treeinsert never overflows for fewer than 2^64 nodes *)
Theorem C19_tree_path_fits : ltac:(let t := type of Properties_C15.C15_path_fits in exact t).
Proof. exact Properties_C15.C15_path_fits. Qed.
Print Assumptions C19_tree_path_fits.

(* utf.c: utf8dec never reads past a literal's closing quote; the encoders' assert(0) is unreachable from literals;
   stringconcat writes no more elements than its strlen-based buffer holds *)
Theorem C19_utf8dec_in_bounds : ltac:(let t := type of Properties_C14.C14_utf8dec_in_bounds in exact t).
Proof. exact Properties_C14.C14_utf8dec_in_bounds. Qed.
Print Assumptions C19_utf8dec_in_bounds.

Theorem C19_literal_encoders_no_assert : ltac:(let t := type of Properties_C14.C14_no_assert_pipeline in exact t).
Proof. exact Properties_C14.C14_no_assert_pipeline. Qed.
Print Assumptions C19_literal_encoders_no_assert.

Theorem C19_stringconcat_safe : ltac:(let t := type of Properties_C14.C14_stringconcat_safe in exact t).
Proof. exact Properties_C14.C14_stringconcat_safe. Qed.
Print Assumptions C19_stringconcat_safe.

(* qbe.c: emitfunc terminates on every block list the builder can produce (no block labelled twice) *)
Theorem C19_emitfunc_terminates : ltac:(let t := type of Properties_C03.C03_builder_inv in exact t).
Proof. exact Properties_C03.C03_builder_inv. Qed.
Print Assumptions C19_emitfunc_terminates.

(* scan.c: scan() returns a token (or a diagnosed error) on every scanner state and every input with fuel
   length+2, i.e. the scanner loop always makes progress and never runs off the end of the text *)
Theorem C19_scanner_terminates : ltac:(let t := type of Properties_C13.C13_scan_refines_lex in exact t).
Proof. exact Properties_C13.C13_scan_refines_lex. Qed.
Print Assumptions C19_scanner_terminates.

(* pp.c: object-like macro replacement terminates on every table and every text (self-reference included),
   within the explicit bound `bound tb l`, and a painted token is never expanded again *)
Theorem C19_objlike_expansion_terminates : ltac:(let t := type of Properties_C12.C12_objlike_refines in exact t).
Proof. exact Properties_C12.C12_objlike_refines. Qed.
Print Assumptions C19_objlike_expansion_terminates.

Theorem C19_painted_never_expanded : ltac:(let t := type of Properties_C12.C12_painted_never_expanded in exact t).
Proof. exact Properties_C12.C12_painted_never_expanded. Qed.
Print Assumptions C19_painted_never_expanded.

(* qbe.c: the member walk of emittype terminates (fuel = number of members + 1 is always enough) *)
Theorem C19_emittype_walk_terminates : ltac:(let t := type of Properties_C08.C08_walk_fuel_enough in exact t).
Proof. exact Properties_C08.C08_walk_fuel_enough. Qed.
Print Assumptions C19_emittype_walk_terminates.

Theorem C19_emittype_body_total : ltac:(let t := type of Properties_C08.C08_body_never_fuel_error in exact t).
Proof. exact Properties_C08.C08_body_never_fuel_error. Qed.
Print Assumptions C19_emittype_body_total.
