(* C19 - the compiler proper is memory-safe, terminating and exits only 0, 1 or 2.
   PARTIAL: what is proved here are the termination and bound lemmas of the modelled algorithms
   (each loop of the model is structurally recursive or fuelled with a proved sufficient-fuel lemma);
   heap memory safety of the C program is not modelled (sanitizer-assisted search, see props/c19.py). *)
From Coq Require Import List NArith Arith Lia.
From Cproc Require Import Model.Map Proofs.MapProofs Model.Zero Proofs.ZeroProofs.
Import ListNotations.

(* keyindex's probe loop ends within cap steps on every table any history can produce (any hash). *)
Theorem C19_probe_terminates :
  forall (key : Type) (key_eqb : key -> key -> bool),
    (forall a b, key_eqb a b = true <-> a = b) ->
  forall (h : key -> N) (c : nat) (ops : list (op key)) (k : key), pow2cap c ->
    exists m, run key key_eqb h c ops = Some m /\ keyindex key key_eqb h (slots m) (cap m) k <> OutOfFuel.
Proof.
  intros key key_eqb Hs h c ops k Hp.
  destruct (map_refines key key_eqb Hs h c ops Hp) as (m & Hr & HI & _).
  exists m. split; [exact Hr|]. apply probe_terminates; assumption.
Qed.
Print Assumptions C19_probe_terminates.

(* qbe.c:zero(): for every power-of-two alignment (also > 8, the case that used to index the store table out of
   bounds) and every range, the loop ends within (end - offset) + 8 iterations, every store is 1, 2, 4 or 8 bytes
   wide (index into the 9-entry opcode table in bounds) and naturally aligned, the stores tile the range from
   `offset` without gap or overlap, cover it, and stop before end + min(align, 8). *)
Theorem C19_zero_terminates_in_bounds :
  forall align offset e : N, (exists k, align = 2 ^ k)%N ->
  exists st final, zero (N.to_nat (e - offset) + 8) align offset e = ZDone st final /\
    tiles st offset final /\ Forall store_ok st /\
    ((offset < e)%N -> (e <= final < e + capalign align)%N) /\ ((e <= offset)%N -> st = []).
Proof. exact zero_spec. Qed.
Print Assumptions C19_zero_terminates_in_bounds.

Example C19_zero_nonvacuous :
  zero 40 16 1 21 = ZDone [(1, 1); (2, 2); (4, 4); (8, 8); (16, 8)]%N 24%N /\ (exists k, 16 = 2 ^ k)%N.
Proof. split; [vm_compute; reflexivity|exists 4%N; reflexivity]. Qed.
