(* C20 - output is a pure function of the input text and the target option.
   The lists in Gen/PurityGen.v are regenerated from /repo's source on every run, so this
   theorem is re-proved against what the code says now. *)
From Coq Require Import List String Bool.
From Cproc Require Import Spec.Purity Gen.PurityGen.
Import ListNotations.
Local Open Scope string_scope.

(* No imported libc entry point is environment-, time-, pid-, locale- or randomness-dependent; no format
   string prints an address; only the listed functions walk a hash table's slots. *)
Theorem C20_no_environment_source :
  (forall e, In e externs -> ~ In e forbidden) /\
  (forall f, In f formats -> has_pct_p f = false) /\
  (forall s, In s map_walkers -> In s allowed_map_walkers).
Proof. apply pure_sources_spec. vm_compute. reflexivity. Qed.
Print Assumptions C20_no_environment_source.

(* the decision procedure is not vacuous: it rejects a getenv import, a %p format and a foreign table walk *)
Example C20_nonvacuous :
  pure_sources ["malloc"; "getenv"] [] [] = false /\
  pure_sources ["malloc"] ["%s: %p"] [] = false /\
  pure_sources ["malloc"] ["%s"] ["decl.c:emittentativedefns"] = false /\
  pure_sources ["malloc"; "strtod"] ["%s:%zu"] ["map.c:mapfree"] = true.
Proof. vm_compute. repeat split. Qed.
