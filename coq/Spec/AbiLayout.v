(* C06 - specification: LP64 System-V style object layout (x86-64 psABI 3.1.2, RISC-V psABI,
   AAPCS64 5.9 / 10.1.8), C11 6.7.2.1 constraints, C23 6.7.2.2 (N3029/N3030) enumerations as
   documented in doc/c23.md.  Mathematical integers, no machine arithmetic.  NO proofs here.

   A record is laid out by walking the members with a current position counted in BITS.
   The datatypes (tinfo, item, member) are shared with the model; nothing else is. *)
From Coq Require Import ZArith List Bool.
From Cproc Require Import Model.Layout.
Import ListNotations.
Open Scope Z_scope.

Definition roundup (x n : Z) : Z := ((x + n - 1) / n) * n.
Definition bytes (pos : Z) : Z := (pos + 7) / 8.

(* rule sets: on AArch64 (AAPCS64) unnamed and zero-width bit-fields contribute the alignment
   of their declared type to the record; on x86-64 and RISC-V only named members do *)
Record rules := mkR { r_unnamed_align : bool }.
Definition rules_sysv := mkR false.      (* x86_64-sysv, riscv64 *)
Definition rules_aapcs64 := mkR true.    (* aarch64 *)

Record sstate := mkS {
  s_pos : Z;             (* struct: first free bit; union: size in bits of the largest member *)
  s_align : Z;
  s_flex : bool;
  s_members : list member
}.

Definition sinit : sstate := mkS 0 1 false [].

(* C11 6.7.2.1 p3/p4/p18, 6.7.5 p2-p4 (constraints), plus what cproc does not support
   (bit-fields in packed records) *)
Definition common_ok (is_struct : bool) (st : sstate) (t : tinfo) : bool :=
  negb (is_struct && s_flex st)                    (* flexible array member must be last *)
  && negb (t_incomplete t && negb (t_array t))
  && negb (t_flexible t && is_struct)
  && negb (t_func t) && negb (t_vm t) && (0 <? t_align t).

Definition place_plain (is_struct pack : bool) (st : sstate) (t : tinfo) (named : bool) (alignas : Z) : option sstate :=
  if negb (common_ok is_struct st t) then None else
  if negb ((alignas =? 0) || (t_align t <=? alignas)) then None else      (* 6.7.5p4 *)
  let eff := if alignas =? 0 then (if pack then 1 else t_align t) else alignas in
  let off := if is_struct then roundup (bytes (s_pos st)) eff else 0 in
  let pos' := if is_struct then 8 * (off + t_size t) else Z.max (s_pos st) (8 * t_size t) in
  Some (mkS pos' (Z.max (s_align st) eff) (s_flex st || t_incomplete t || t_flexible t)
            (s_members st ++ [mkM named (t_size t) off 0 0])).

(* first bit of a bit-field of width w whose declared type has U bits, when the next free bit is pos:
   at pos unless the field would cross a U-aligned boundary; width 0 closes the current unit *)
Definition spec_start (pos U w : Z) : Z :=
  if w =? 0 then roundup pos U
  else if pos / U =? (pos + w - 1) / U then pos else roundup pos U.

Definition place_bitfield (r : rules) (is_struct pack : bool) (st : sstate) (t : tinfo) (named : bool) (w : Z) : option sstate :=
  if negb (common_ok is_struct st t) then None else
  if negb (t_int t) || pack || ((w =? 0) && named) || (w <? 0) || (8 * t_size t <? w) then None else
  let U := 8 * t_size t in
  let align' := if named || r_unnamed_align r then Z.max (s_align st) (t_align t) else s_align st in
  let flex' := s_flex st || t_incomplete t || t_flexible t in
  if is_struct then
    let pos := s_pos st in
    let start := spec_start pos U w in
    let ms := if named then [mkM true (t_size t) (t_size t * (start / U)) (start mod U) (U - w - start mod U)] else [] in
    Some (mkS (start + w) align' flex' (s_members st ++ ms))
  else
    let ms := if named then [mkM true (t_size t) 0 0 (U - w)] else [] in
    Some (mkS (Z.max (s_pos st) w) align' flex' (s_members st ++ ms)).

Definition place (r : rules) (is_struct pack : bool) (st : sstate) (it : item) : option sstate :=
  match it with
  | INamed t a None => place_plain is_struct pack st t true a
  | IAnon t a => place_plain is_struct pack st t false a
  | INamed t a (Some w) => if a =? 0 then place_bitfield r is_struct pack st t true w else None   (* 6.7.5p2 *)
  | IUnnamedBf t w => place_bitfield r is_struct pack st t false w
  end.

Fixpoint places (r : rules) (is_struct pack : bool) (st : sstate) (its : list item) : option sstate :=
  match its with
  | [] => Some st
  | it :: rest => match place r is_struct pack st it with
                  | Some st' => places r is_struct pack st' rest
                  | None => None
                  end
  end.

(* the size of a record is always a multiple of its alignment (also when packed) *)
Definition spec_finish (st : sstate) : option (tinfo * list member) :=
  match s_members st with
  | [] => None          (* 6.7.2.1p8: no named members - undefined; cproc rejects *)
  | _ => Some (mkT (roundup (bytes (s_pos st)) (s_align st)) (s_align st) false false false (s_flex st) false false,
               s_members st)
  end.

Definition spec_layout (r : rules) (is_struct pack : bool) (its : list item) : option (tinfo * list member) :=
  match places r is_struct pack sinit its with
  | Some st => spec_finish st
  | None => None
  end.

(* ------------------------------------------------------------------ arrays (6.7.6.2, 6.5.3.4) *)
Definition spec_array_size (elem_size n : Z) : Z := elem_size * n.

(* ------------------------------------------------------------------ enumerations *)
(* mathematical value of a constant stored as 64 bits with the signedness of its type *)
Definition mval (sgn : bool) (u : Z) : Z := if sgn && (P63 <=? u) then u - W64 else u.
Definition imin (t : itype) : Z := if i_signed t then - 2 ^ (8 * i_size t - 1) else 0.
Definition imax (t : itype) : Z := if i_signed t then 2 ^ (8 * i_size t - 1) - 1 else 2 ^ (8 * i_size t) - 1.
Definition in_range (t : itype) (v : Z) : bool := (imin t <=? v) && (v <=? imax t).

(* C23 6.7.2.2p12-13 with the LP64 choice made by gcc and clang: lo/hi = least and greatest
   enumerator value (0 included).  All values fit int: enumerators are int, the enum is
   unsigned int when there is no negative value, else int.  Otherwise the first of
   (unsigned) int, long, long long - signed when there is a negative value - holding every value,
   and the enumerators have the enumerated type. *)
Definition spec_enum_base (lo hi : Z) : option (itype * bool) :=      (* (type, enumerators are int) *)
  if (-2147483648 <=? lo) && (hi <=? 2147483647) then Some ((if lo <? 0 then tint else tuint), true)
  else match first_fit (fun t => in_range t lo && in_range t hi) (ladder (lo <? 0)) with
       | Some t => Some (t, false)
       | None => None
       end.

Definition cval (c : Z * itype) : Z := mval (i_signed (snd c)) (fst c).
Definition lo_of (cs : list (Z * itype)) : Z := fold_right Z.min 0 (map cval cs).
Definition hi_of (cs : list (Z * itype)) : Z := fold_right Z.max 0 (map cval cs).

(* values: an initializer gives the value; otherwise the previous value plus one (first: 0) *)
Fixpoint spec_enum_values (prev : Z) (es : list (option (Z * itype))) : list Z :=
  match es with
  | [] => []
  | Some (u, ty) :: r => let v := mval (i_signed ty) u in v :: spec_enum_values v r
  | None :: r => (prev + 1) :: spec_enum_values (prev + 1) r
  end.

(* the whole enum specifier: underlying type, "enumerators are int", mathematical values.
   None: a constraint is violated (value outside the fixed type / no type holds all values /
   an implicit value not representable with the signedness of its predecessor is left to
   the per-enumerator rule and is not decided here beyond the 64-bit range). *)
Definition spec_enum (fixed : option itype) (es : list (option (Z * itype))) : option (itype * bool * list Z) :=
  let vs := spec_enum_values (-1) es in
  let lo := fold_right Z.min 0 vs in
  let hi := fold_right Z.max 0 vs in
  match fixed with
  | Some b => if forallb (in_range b) vs then Some (b, false, vs) else None
  | None => match spec_enum_base lo hi with
            | Some (t, allint) => Some (t, allint, vs)
            | None => None
            end
  end.

(* ------------------------------------------------------------------ offsetof (7.19p3) through anonymous members *)
Fixpoint fields (t : cty) (base : Z) {struct t} : list (Z * Z * (Z * Z) * cty) :=
  match t with
  | CRecord ms =>
    (fix go (l : list (option Z * Z * (Z * Z) * cty)) : list (Z * Z * (Z * Z) * cty) :=
       match l with
       | [] => []
       | (Some n, off, bits, mt) :: l' => (n, base + off, bits, mt) :: go l'
       | (None, off, bits, mt) :: l' => fields mt (base + off) ++ go l'
       end) ms
  | _ => []
  end.

Fixpoint lookup (name : Z) (l : list (Z * Z * (Z * Z) * cty)) : option (Z * (Z * Z) * cty) :=
  match l with
  | [] => None
  | (n, off, bits, mt) :: r => if n =? name then Some (off, bits, mt) else lookup name r
  end.
