(* Spec/CArith.v - what C11 (6.3.1, 6.5, 6.6) gives for integer constant expressions, on mathematical
   integers.  `None` = the operation is undefined for these operands (no requirement on the folder,
   and in a context that needs a constant expression a diagnostic is the expected outcome).
   Implementation-defined choices are those common to the three target ABIs and to gcc/clang/QBE:
   two's complement, conversion to a signed type wraps modulo 2^N, >> of a negative value is arithmetic. *)
From Coq Require Import ZArith Bool List.
Import ListNotations.
Local Open Scope Z_scope.

(* integer types: size in bytes, signedness *)
Record ity := mk_ity { isize : Z; isigned : bool }.
Definition width (t : ity) : Z := 8 * isize t.
Definition wf_ity (t : ity) : Prop := 1 <= isize t <= 8.

Definition tmin (t : ity) : Z := if isigned t then - 2 ^ (width t - 1) else 0.
Definition tmax (t : ity) : Z := if isigned t then 2 ^ (width t - 1) - 1 else 2 ^ width t - 1.
Definition in_range (t : ity) (v : Z) : Prop := tmin t <= v <= tmax t.
Definition in_rangeb (t : ity) (v : Z) : bool := (tmin t <=? v) && (v <=? tmax t).

(* the standard integer types of the LP64 targets; plain char's signedness is the target's *)
Definition t_bool := mk_ity 1 false.
Definition t_char (signedchar : bool) := mk_ity 1 signedchar.
Definition t_schar := mk_ity 1 true.
Definition t_uchar := mk_ity 1 false.
Definition t_short := mk_ity 2 true.
Definition t_ushort := mk_ity 2 false.
Definition t_int := mk_ity 4 true.
Definition t_uint := mk_ity 4 false.
Definition t_long := mk_ity 8 true.
Definition t_ulong := mk_ity 8 false.
Definition t_llong := mk_ity 8 true.
Definition t_ullong := mk_ity 8 false.
Definition c_int_types (signedchar : bool) : list ity :=
  [t_bool; t_char signedchar; t_schar; t_uchar; t_short; t_ushort; t_int; t_uint; t_long; t_ulong; t_llong; t_ullong].

Definition b2z (b : bool) : Z := if b then 1 else 0.

(* result of an arithmetic operator whose mathematical value is v, in type t:
   unsigned arithmetic is modulo 2^N (6.2.5p9); signed overflow is undefined (6.5p5) *)
Definition arith_result (t : ity) (v : Z) : option Z :=
  if isigned t then (if in_rangeb t v then Some v else None)
  else Some (v mod 2 ^ width t).

Inductive binop := Mul | Div | Mod | Add | Sub | Shl | Shr | Band | Bor | Xor | CLt | CGt | CLe | CGe | CEq | CNe.
Inductive unop := Neg | Plus | Bnot | Lnot.

Definition is_cmp (op : binop) : bool :=
  match op with CLt | CGt | CLe | CGe | CEq | CNe => true | _ => false end.

(* type of the result when both operands have (converted / promoted left) type t *)
Definition binop_type (op : binop) (t : ity) : ity := if is_cmp op then t_int else t.
Definition unop_type (op : unop) (t : ity) : ity := match op with Lnot => t_int | _ => t end.

(* l, r: values of the operands; t: the common type after the usual arithmetic conversions
   (for shifts: the promoted type of the left operand; r is the value of the right operand,
   whatever its type) *)
Definition binop_spec (op : binop) (t : ity) (l r : Z) : option Z :=
  match op with
  | Mul => arith_result t (l * r)
  | Add => arith_result t (l + r)
  | Sub => arith_result t (l - r)
  | Div => if r =? 0 then None else arith_result t (Z.quot l r)               (* 6.5.5p5,6 *)
  | Mod => if r =? 0 then None
           else if in_rangeb t (Z.quot l r) then Some (Z.rem l r) else None   (* 6.5.5p6 *)
  | Shl => if (0 <=? r) && (r <? width t) then                                (* 6.5.7p3,4 *)
             if isigned t then
               (if (0 <=? l) && (l * 2 ^ r <=? tmax t) then Some (l * 2 ^ r) else None)
             else Some ((l * 2 ^ r) mod 2 ^ width t)
           else None
  | Shr => if (0 <=? r) && (r <? width t) then Some (l / 2 ^ r) else None     (* 6.5.7p5; floor = arithmetic shift *)
  | Band => Some (Z.land l r)
  | Bor => Some (Z.lor l r)
  | Xor => Some (Z.lxor l r)
  | CLt => Some (b2z (l <? r))
  | CGt => Some (b2z (r <? l))
  | CLe => Some (b2z (l <=? r))
  | CGe => Some (b2z (r <=? l))
  | CEq => Some (b2z (l =? r))
  | CNe => Some (b2z (negb (l =? r)))
  end.

Definition unop_spec (op : unop) (t : ity) (l : Z) : option Z :=
  match op with
  | Neg => arith_result t (- l)
  | Plus => Some l
  | Bnot => Some (if isigned t then - l - 1 else 2 ^ width t - 1 - l)        (* 6.5.3.3p4 *)
  | Lnot => Some (b2z (l =? 0))
  end.

(* conversion of the value v to integer type `to` (6.3.1.3); _Bool is separate (6.3.1.2) *)
Definition conv_spec (to : ity) (v : Z) : Z :=
  if isigned to then
    (let w := v mod 2 ^ width to in if w <? 2 ^ (width to - 1) then w else w - 2 ^ width to)
  else v mod 2 ^ width to.
Definition conv_bool_spec (v : Z) : Z := b2z (negb (v =? 0)).

(* && and || : int 0/1; the right operand is not evaluated when the left decides (6.5.13, 6.5.14) *)
Definition land_spec (l r : Z) : Z := b2z (negb (l =? 0) && negb (r =? 0)).
Definition lor_spec (l r : Z) : Z := b2z (negb (l =? 0) || negb (r =? 0)).

(* c ? a : b  with both branches already converted to the result type *)
Definition cond_spec {A} (c : Z) (a b : A) : A := if c =? 0 then b else a.
