(* Spec/CArithExpr.v - the value C11 assigns to a whole integer constant expression (6.6), as a function
   on the typed trees the parser builds (the `expr` type of Model/Eval.v is used as the syntax only).
   `sem e = Some v`: e is a well-typed integer constant expression whose evaluation is defined and yields
   the mathematical value v (in the type `type_of e`).  `None`: not such an expression (not constant,
   floating operands, undefined behaviour, or not typed the way the usual arithmetic conversions type it). *)
From Coq Require Import ZArith Bool List.
From Cproc Require Import Spec.CArith Model.Eval.
Local Open Scope Z_scope.

Definition wf_ityb (k : ity) : bool := (1 <=? isize k) && (isize k <=? 8).

(* value denoted by a canonical 64-bit carrier at an integer type *)
Definition cval (k : ity) (c : Z) : Z := if isigned k then i64 c else c.

Definition spec_op (op : bop) : option binop :=
  match op with
  | OMul => Some Mul | ODiv => Some Div | OMod => Some Mod | OAdd => Some Add | OSub => Some Sub
  | OShl => Some Shl | OShr => Some Shr | OBand => Some Band | OBor => Some Bor | OXor => Some Xor
  | OLess => Some CLt | OGreater => Some CGt | OLeq => Some CLe | OGeq => Some CGe
  | OEql => Some CEq | ONeq => Some CNe
  | OLor | OLand => None
  end.
Definition is_shift_op (op : bop) : bool := match op with OShl | OShr => true | _ => false end.

Definition sem_leaf (t : ty) (c : Z) : option Z :=
  match t with
  | TInt k => if wf_ityb k && (0 <=? c) && (c <? M64) && in_rangeb k (cval k c) then Some (cval k c) else None
  | TBool => if (c =? 0) || (c =? 1) then Some c else None
  | _ => None
  end.

Fixpoint sem (e : expr) : option Z :=
  match e with
  | EConst t c => sem_leaf t c
  | EEnum t c => sem_leaf t c
  | ENeg t b =>
      match t with
      | TInt k => if wf_ityb k && ty_eqb (type_of b) t then
                    match sem b with Some v => unop_spec Neg k v | None => None end
                  else None
      | _ => None
      end
  | ECast t b =>
      match sem b with
      | Some v =>
          match t with
          | TInt k => if wf_ityb k then Some (conv_spec k v) else None
          | TBool => Some (conv_bool_spec v)
          | _ => None
          end
      | None => None
      end
  | EBin t op l r =>
      match op with
      | OLand =>
          if ty_eqb t (TInt t_int) then
            match sem l with
            | Some vl => if vl =? 0 then Some 0
                         else match sem r with Some vr => Some (land_spec vl vr) | None => None end
            | None => None
            end
          else None
      | OLor =>
          if ty_eqb t (TInt t_int) then
            match sem l with
            | Some vl => if vl =? 0 then match sem r with Some vr => Some (lor_spec vl vr) | None => None end
                         else Some 1
            | None => None
            end
          else None
      | _ =>
          match spec_op op, type_of l, type_of r with
          | Some sop, TInt k, TInt kr =>
              if wf_ityb k && wf_ityb kr && (is_shift_op op || ity_eqb kr k) && ty_eqb t (TInt (binop_type sop k)) then
                match sem l, sem r with
                | Some vl, Some vr => binop_spec sop k vl vr
                | _, _ => None
                end
              else None
          | _, _, _ => None
          end
      end
  | EVar _ _ | EAddr _ _ | ECond _ _ _ _ => None
  end.

(* typing side condition of the no-trap theorem: `/` and `%` have arithmetic operands (checked by
   expr.c:mkbinaryexpr before a tree is built) *)
Fixpoint div_typed (e : expr) : bool :=
  match e with
  | EConst _ _ | EEnum _ _ | EVar _ _ | EAddr _ _ => true
  | ENeg _ b | ECast _ b => div_typed b
  | EBin _ op l r =>
      (match op with ODiv | OMod => is_int (type_of l) || is_float (type_of l) | _ => true end)
      && div_typed l && div_typed r
  | ECond _ c a b => div_typed c && div_typed a && div_typed b
  end.

(* a floating constant with suffix f has type float, so its value is a float: the decimal value rounded
   to binary32 (6.4.4.2p3-4).  The double rounding through strtod's binary64 result is tolerated here. *)
Definition floatlit_spec (F : fops) (suffix_f : bool) (strtod_bits : Z) : Z :=
  if suffix_f then op_fround32 F strtod_bits else strtod_bits.
