(* Specification side of C14, continued: the spelling of whole string literals and character
   constants (6.4.5, 6.4.4.4) and what they denote.  Uses only Spec/Unicode.v. *)
From Coq Require Import NArith ZArith List Bool.
From Cproc Require Import Spec.Unicode.
Import ListNotations.
Open Scope N_scope.

(* encoding-prefix: none, u8, u, U, L *)
Definition prefix_bytes (k : kind) : list N :=
  match k with K0 => [] | K8 => [117; 56] | Ku => [117] | KU => [85] | KL => [76] end.

(* string-literal: encoding-prefix(opt) DQUOTE s-char-sequence(opt) DQUOTE *)
Definition render_string (p : kind * list item) : list N :=
  prefix_bytes (fst p) ++ 34 :: render_items (snd p) ++ [34].

(* character-constant with exactly one c-char: prefix(opt) QUOTE c-char QUOTE *)
Definition render_const (k : kind) (it : item) : list N :=
  prefix_bytes k ++ 39 :: render it ++ [39].

(* A sequence of adjacent string literal tokens (translation phase 6).  Every token is decoded on
   its own (an escape sequence never extends into the next token), the prefixes merge per
   6.4.5p5, the elements are the code units of all items by the element width of the resulting
   type, followed by the terminating zero (6.4.5p6). *)
Definition string_items (parts : list (kind * list item)) : list item := concat (map snd parts).

Definition string_elements (w : N) (parts : list (kind * list item)) : list N :=
  concat (map (item_elements w) (string_items parts)) ++ [0].

Definition string_wf (w : N) (parts : list (kind * list item)) : Prop :=
  Forall (fun p => items_wf 34 (snd p) /\ Forall (in_range w) (snd p)) parts.

(* prefixed character constants: the value is the code point / the escape value, which must be
   representable in the unsigned type corresponding to the constant's type (6.4.4.4p9 for escapes;
   for a source character that needs more than one code unit the value is implementation-defined
   (p11) but the constant still has its type, so a conforming value fits that type).  It is then
   a value *of that type*: where wchar_t is a signed type, L'\xffffffff' is -1 exactly as
   '\xff' is -1 where char is signed (the same conversion, p10/p11 and EXAMPLE 2). *)
Definition ctype_signed (tg : target) (t : ctype) : bool :=
  match t with TInt => true | TChar => signedchar tg | _ => false end.

(* wchar_t is a 32-bit integer type on every supported target *)
Definition target_ok (tg : target) : Prop := wchar tg = TInt \/ wchar tg = TUInt.

Definition wide_char_spec (tg : target) (k : kind) (it : item) : option Z :=
  let t := const_type tg k in
  let bits := 8 * ctype_size t in
  let v := item_value it in
  if v <? 2 ^ bits
  then Some (if ctype_signed tg t && (2 ^ (bits - 1) <=? v) then (Z.of_N v - Z.of_N (2 ^ bits))%Z else Z.of_N v)
  else None.

(* the unsigned long long image of a mathematical integer that fits in 64 bits *)
Definition u64_of_Z (z : Z) : N := Z.to_N (z mod 2 ^ 64).
