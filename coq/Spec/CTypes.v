(* Specification side of C05: what ISO C11 (N1570) and the three LP64 ABIs say about the type of an
   expression.  Nothing here is taken from cproc's source: the syntax of types (basic, ty, alen, prefix,
   binop, unop, operand) is shared with Model/Types.v, every *rule* is written from the standard text.
   The data model is the one common to the x86-64 SysV psABI, AAPCS64 and the RISC-V psABI (LP64):
   char 8, short 16, int 32, long 64, long long 64 bits, two's complement, no padding bits. *)
From Coq Require Import ZArith List Bool.
From Cproc Require Import Model.Types.
Import ListNotations.
Open Scope Z_scope.

(* ------------------------------------------------------------------ ABI parameters *)
Record abi := mkabi { char_signed : bool; wchar_t : basic }.

Definition abi_x86_64  := mkabi true  BInt.    (* SysV AMD64 psABI, figure 3.1; wchar_t is int *)
Definition abi_aarch64 := mkabi false BUInt.   (* AAPCS64 10.1.2: char unsigned, wchar_t unsigned int *)
Definition abi_riscv64 := mkabi false BInt.    (* RISC-V psABI: char unsigned, wchar_t int *)
Definition abis : list abi := [abi_x86_64; abi_aarch64; abi_riscv64].

Definition bits (b : basic) : Z :=
  match b with
  | BBool | BChar | BSChar | BUChar => 8
  | BShort | BUShort => 16
  | BInt | BUInt => 32
  | BLong | BULong | BLLong | BULLong => 64
  | BFloat => 32 | BDouble => 64 | BLDouble => 128
  end.

Definition is_integer (b : basic) : bool :=
  match b with BFloat | BDouble | BLDouble => false | _ => true end.
Definition is_floating (b : basic) : bool := negb (is_integer b).

Definition is_signed (a : abi) (b : basic) : bool :=
  match b with
  | BChar => char_signed a
  | BSChar | BShort | BInt | BLong | BLLong => true
  | _ => false
  end.

(* 6.3.1.1p1 conversion rank (only the order matters) *)
Definition c_rank (b : basic) : Z :=
  match b with
  | BBool => 0
  | BChar | BSChar | BUChar => 1
  | BShort | BUShort => 2
  | BInt | BUInt => 3
  | BLong | BULong => 4
  | BLLong | BULLong => 5
  | _ => -1
  end.

(* 6.2.5p6: the unsigned type corresponding to a signed integer type *)
Definition corresponding_unsigned (b : basic) : basic :=
  match b with
  | BSChar | BChar => BUChar | BShort => BUShort | BInt => BUInt | BLong => BULong | BLLong => BULLong
  | _ => b
  end.

(* 6.2.6.2 / 5.2.4.2.1: value ranges.  A bit-field of width w has w value bits (unsigned) or w-1 value
   bits and a sign bit (signed); _Bool holds 0 and 1. *)
Definition range (a : abi) (b : basic) (w : option Z) : Z * Z :=
  let n := match w with Some n => n | None => bits b end in
  match b, w with
  | BBool, _ => (0, 1)
  | _, _ => if is_signed a b then (- 2 ^ (n - 1), 2 ^ (n - 1) - 1) else (0, 2 ^ n - 1)
  end.
Definition lo a b := fst (range a b None).
Definition hi a b := snd (range a b None).

(* "can represent all values of" *)
Definition represents (big small : Z * Z) : bool := (fst big <=? fst small) && (snd small <=? snd big).

(* 6.3.1.1p2 integer promotions.  The standard words it for objects of rank <= int and for bit-fields
   of type _Bool, int, signed int, unsigned int.  Bit-fields of other declared types are
   implementation-defined (6.7.2.1p5); the reading fixed here is the one of clang: a bit-field not
   wider than int promotes like the standard ones, a wider one keeps its declared type. *)
Definition int_promote (a : abi) (b : basic) (w : option Z) : basic :=
  if is_integer b
     && ((c_rank b <=? c_rank BInt) || match w with Some n => n <=? bits BInt | None => false end) then
    if represents (range a BInt None) (range a b w) then BInt else BUInt
  else b.

(* 6.5.2.2p6 default argument promotions *)
Definition default_promote (a : abi) (b : basic) (w : option Z) : basic :=
  match b with BFloat => BDouble | _ => int_promote a b w end.

(* 6.3.1.8 usual arithmetic conversions (real types; cproc has no complex types) *)
Definition uac (a : abi) (b1 : basic) (w1 : option Z) (b2 : basic) (w2 : option Z) : basic :=
  if basic_eqb b1 BLDouble || basic_eqb b2 BLDouble then BLDouble
  else if basic_eqb b1 BDouble || basic_eqb b2 BDouble then BDouble
  else if basic_eqb b1 BFloat || basic_eqb b2 BFloat then BFloat
  else
    let p1 := int_promote a b1 w1 in
    let p2 := int_promote a b2 w2 in
    if basic_eqb p1 p2 then p1                                              (* same type *)
    else if Bool.eqb (is_signed a p1) (is_signed a p2) then
      if c_rank p1 <? c_rank p2 then p2 else p1                             (* both signed / both unsigned *)
    else
      let u := if is_signed a p1 then p2 else p1 in
      let s := if is_signed a p1 then p1 else p2 in
      if c_rank s <=? c_rank u then u                                       (* unsigned has rank >= *)
      else if represents (range a s None) (range a u None) then s           (* signed represents all *)
      else corresponding_unsigned s.                                        (* otherwise *)

(* ------------------------------------------------------------------ 6.4.4.1 integer constants *)
Inductive isuffix := SNone | SU | SL | SUL | SLL | SULL.

(* the table of 6.4.4.1p5 *)
Definition literal_candidates (decimal : bool) (s : isuffix) : list basic :=
  match s, decimal with
  | SNone, true  => [BInt; BLong; BLLong]
  | SNone, false => [BInt; BUInt; BLong; BULong; BLLong; BULLong]
  | SU, _        => [BUInt; BULong; BULLong]
  | SL, true     => [BLong; BLLong]
  | SL, false    => [BLong; BULong; BLLong; BULLong]
  | SUL, _       => [BULong; BULLong]
  | SLL, true    => [BLLong]
  | SLL, false   => [BLLong; BULLong]
  | SULL, _      => [BULLong]
  end.

Definition literal_type (a : abi) (v : Z) (decimal : bool) (s : isuffix) : option basic :=
  find (fun b => (lo a b <=? v) && (v <=? hi a b)) (literal_candidates decimal s).

(* the spellings of 6.4.4.1p1: u|U, l|L, ll|LL, in either order *)
Definition c_u := [[117]; [85]].
Definition c_l := [[108]; [76]].
Definition c_ll := [[108; 108]; [76; 76]].
Definition cat2 (xs ys : list (list Z)) : list (list Z) :=
  flat_map (fun x => map (fun y => x ++ y) ys) xs.
Definition suffix_spellings (s : isuffix) : list (list Z) :=
  match s with
  | SNone => [[]]
  | SU => c_u
  | SL => c_l
  | SUL => cat2 c_u c_l ++ cat2 c_l c_u
  | SLL => c_ll
  | SULL => cat2 c_u c_ll ++ cat2 c_ll c_u
  end.
Definition all_isuffixes := [SNone; SU; SL; SUL; SLL; SULL].

(* 6.4.4.2p4 floating constants: no suffix double, f/F float, l/L long double *)
Definition float_suffixes : list (list Z * basic) :=
  [([], BDouble); ([102], BFloat); ([70], BFloat); ([108], BLDouble); ([76], BLDouble)].

(* 6.4.4.4p10-11 character constants: int; wchar_t; char16_t and char32_t are uint_least16_t and
   uint_least32_t (7.28), i.e. unsigned short and unsigned int in the three ABIs.  u8 character
   constants exist only since C23 (type unsigned char there). *)
Definition charconst_spec (a : abi) (p : prefix) : basic :=
  match p with
  | PNone => BInt | PL => wchar_t a | Pu => BUShort | PU => BUInt | Pu8 => BUChar
  end.

(* 6.4.5p6 string literals: array of char (also for u8 in C11), wchar_t, char16_t, char32_t, with as
   many elements as the literal has code units including the terminator *)
Definition string_elem_spec (a : abi) (p : prefix) : basic :=
  match p with
  | PNone | Pu8 => BChar | PL => wchar_t a | Pu => BUShort | PU => BUInt
  end.
Definition strlit_spec (a : abi) (p : prefix) (n : Z) : ty := TArr (TBasic (string_elem_spec a p)) 0 (AConst n).

(* 6.5.3.4p5 / 7.19: size_t and ptrdiff_t of the LP64 ABIs *)
Definition size_t : basic := BULong.
Definition ptrdiff_t : basic := BLong.

(* ------------------------------------------------------------------ 6.2.7 compatible types *)
(* On the modelled fragment: same TU (struct/union/enum types are compatible only with themselves,
   6.2.7p1), prototypes only.  ANoConst is a length that is not an integer constant expression
   (6.7.6.2p6: then the two array types are compatible whatever the other length is). *)
Definition atomic (t : ty) : Prop :=
  match t with
  | TVoid | TBasic _ | TEnum _ _ | TStruct _ | TUnion _ | TNullptr => True
  | _ => False
  end.

Definition len_compatible (a b : alen) : Prop :=
  match a, b with AConst n, AConst m => n = m | _, _ => True end.

Inductive Compatible : ty -> ty -> Prop :=
  | C_same t : atomic t -> Compatible t t                                          (* 6.2.7p1 *)
  | C_enum_l i b : Compatible (TEnum i b) (TBasic b)                               (* 6.7.2.2p4 *)
  | C_enum_r i b : Compatible (TBasic b) (TEnum i b)
  | C_ptr b1 b2 q : Compatible b1 b2 -> Compatible (TPtr b1 q) (TPtr b2 q)         (* 6.7.6.1p2, 6.7.3p10 *)
  | C_arr b1 b2 q l1 l2 : Compatible b1 b2 -> len_compatible l1 l2 ->
                          Compatible (TArr b1 q l1) (TArr b2 q l2)                 (* 6.7.6.2p6 *)
  | C_func r1 r2 q ps1 ps2 v : Compatible r1 r2 -> Forall2 Compatible ps1 ps2 ->
                          Compatible (TFunc r1 q ps1 v) (TFunc r2 q ps2 v).        (* 6.7.6.3p15 *)

(* ------------------------------------------------------------------ operators on arithmetic operands *)
(* 6.5.5 - 6.5.14: result type of `l op r` for arithmetic operands (b, bit-field width); None: constraint
   violation *)
Definition binop_spec (a : abi) (op : binop) (l : basic * option Z) (r : basic * option Z) : option basic :=
  let '(b1, w1) := l in
  let '(b2, w2) := r in
  match op with
  | OMul | ODiv | OAdd | OSub => Some (uac a b1 w1 b2 w2)                               (* 6.5.5p3, 6.5.6p4 *)
  | OMod | OBand | OXor | OBor =>
      if is_integer b1 && is_integer b2 then Some (uac a b1 w1 b2 w2) else None         (* 6.5.5p2, 6.5.10-12p2 *)
  | OShl | OShr =>
      if is_integer b1 && is_integer b2 then Some (int_promote a b1 w1) else None       (* 6.5.7p3 *)
  | OLess | OGreater | OLeq | OGeq | OEql | ONeq | OLand | OLor => Some BInt            (* 6.5.8p6, 6.5.9p3, 6.5.13p3 *)
  end.

(* 6.5.3.3: unary + - ~ ! *)
Definition unop_spec (a : abi) (op : unop) (e : basic * option Z) : option basic :=
  let '(b, w) := e in
  match op with
  | UPlus | UMinus => Some (int_promote a b w)       (* promoted type; floating types unchanged *)
  | UBnot => if is_integer b then Some (int_promote a b w) else None
  | ULnot => Some BInt
  end.

(* 6.5.15p5: both operands arithmetic: the usual arithmetic conversions *)
Definition cond_arith_spec (a : abi) (l r : basic * option Z) : basic :=
  uac a (fst l) (snd l) (fst r) (snd r).

(* 6.7.2.2p4: the type compatible with an enumerated type can represent all its enumerators *)
Definition enum_base_ok (a : abi) (b : basic) (minmag maxv : Z) : Prop :=
  is_integer b = true /\ lo a b <= - minmag /\ maxv <= hi a b.
