(* C10 - specifications: what C11 requires of the constraint checkers that are modelled,
   written from the text of the standard, independently of the compiler's code.
   Also the data types of the census of diagnostic sites. *)
From Coq Require Import String List NArith ZArith Bool Arith Lia.
Import ListNotations.

(* ------------------------------------------------------------------ census of diagnostic sites *)
Inductive skind := Kerror | Kfatal | Ktokencheck | Kexpect | Kassert.

Record site := mk_site {
  s_file : string;      (* source file *)
  s_func : string;      (* enclosing function *)
  s_kind : skind;
  s_text : string;      (* format string / expected token and message / asserted condition *)
  s_count : nat         (* textual occurrences inside the function *)
}.

Record cat_entry := mk_cat {
  c_site : site;
  c_templates : nat;    (* number of violating templates of the committed catalogue *)
  c_justified : bool    (* or a justification class: internal / io / forwarder / duplicate *)
}.

Definition skind_eqb (a b : skind) : bool :=
  match a, b with
  | Kerror, Kerror | Kfatal, Kfatal | Ktokencheck, Ktokencheck | Kexpect, Kexpect | Kassert, Kassert => true
  | _, _ => false
  end.

Definition site_eqb (a b : site) : bool :=
  String.eqb (s_file a) (s_file b) && String.eqb (s_func a) (s_func b) && skind_eqb (s_kind a) (s_kind b)
  && String.eqb (s_text a) (s_text b) && Nat.eqb (s_count a) (s_count b).

(* a site of the source is covered when the catalogue has an entry for exactly this site (same
   number of occurrences) with at least one template or a justification *)
Definition covered (cat : list cat_entry) (s : site) : bool :=
  existsb (fun c => site_eqb (c_site c) s && (Nat.ltb 0 (c_templates c) || c_justified c)) cat.

(* a catalogue entry is anchored when its site exists in the source *)
Definition anchored (ss : list site) (c : cat_entry) : bool :=
  existsb (fun s => site_eqb (c_site c) s) ss.

(* ------------------------------------------------------------------ (a) type specifiers, C11 6.7.2p2 *)
Inductive tskw :=
  | TSvoid | TSchar | TSshort | TSint | TSlong | TSfloat | TSdouble | TSsigned | TSunsigned | TSbool | TScomplex
  | TSother.   (* a struct/union specifier, an enum specifier or a typedef name: one item of the list in 6.7.2p2 *)

Definition tskw_eqb (a b : tskw) : bool :=
  match a, b with
  | TSvoid, TSvoid | TSchar, TSchar | TSshort, TSshort | TSint, TSint | TSlong, TSlong | TSfloat, TSfloat
  | TSdouble, TSdouble | TSsigned, TSsigned | TSunsigned, TSunsigned | TSbool, TSbool | TScomplex, TScomplex
  | TSother, TSother => true
  | _, _ => false
  end.

Definition all_tskw : list tskw :=
  [TSvoid; TSchar; TSshort; TSint; TSlong; TSfloat; TSdouble; TSsigned; TSunsigned; TSbool; TScomplex; TSother].

(* the types the multisets denote *)
Inductive ctype :=
  | Cvoid | Cchar | Cschar | Cuchar | Cshort | Cushort | Cint | Cuint | Clong | Culong | Cllong | Cullong
  | Cfloat | Cdouble | Cldouble | Cbool | Cother.

Definition ctype_eqb (a b : ctype) : bool :=
  match a, b with
  | Cvoid, Cvoid | Cchar, Cchar | Cschar, Cschar | Cuchar, Cuchar | Cshort, Cshort | Cushort, Cushort
  | Cint, Cint | Cuint, Cuint | Clong, Clong | Culong, Culong | Cllong, Cllong | Cullong, Cullong
  | Cfloat, Cfloat | Cdouble, Cdouble | Cldouble, Cldouble | Cbool, Cbool | Cother, Cother => true
  | _, _ => false
  end.

(* 6.7.2p2, one line per bullet ("each list of type specifiers shall be one of the following
   multisets ... the type specifiers may occur in any order").  The three _Complex bullets are
   left out: _Complex is documented as unsupported, every list containing it must be rejected. *)
Definition c11_typespec_rows : list (list tskw * ctype) := [
  ([TSvoid], Cvoid);
  ([TSchar], Cchar);
  ([TSsigned; TSchar], Cschar);
  ([TSunsigned; TSchar], Cuchar);
  ([TSshort], Cshort); ([TSsigned; TSshort], Cshort); ([TSshort; TSint], Cshort); ([TSsigned; TSshort; TSint], Cshort);
  ([TSunsigned; TSshort], Cushort); ([TSunsigned; TSshort; TSint], Cushort);
  ([TSint], Cint); ([TSsigned], Cint); ([TSsigned; TSint], Cint);
  ([TSunsigned], Cuint); ([TSunsigned; TSint], Cuint);
  ([TSlong], Clong); ([TSsigned; TSlong], Clong); ([TSlong; TSint], Clong); ([TSsigned; TSlong; TSint], Clong);
  ([TSunsigned; TSlong], Culong); ([TSunsigned; TSlong; TSint], Culong);
  ([TSlong; TSlong], Cllong); ([TSsigned; TSlong; TSlong], Cllong); ([TSlong; TSlong; TSint], Cllong);
  ([TSsigned; TSlong; TSlong; TSint], Cllong);
  ([TSunsigned; TSlong; TSlong], Cullong); ([TSunsigned; TSlong; TSlong; TSint], Cullong);
  ([TSfloat], Cfloat);
  ([TSdouble], Cdouble);
  ([TSlong; TSdouble], Cldouble);
  ([TSbool], Cbool);
  ([TSother], Cother)
].

Definition ts_count (k : tskw) (l : list tskw) : nat := length (filter (tskw_eqb k) l).

(* same multiset *)
Definition ts_perm (a b : list tskw) : bool := forallb (fun k => Nat.eqb (ts_count k a) (ts_count k b)) all_tskw.
(* sub-multiset *)
Definition ts_sub (a b : list tskw) : bool := forallb (fun k => Nat.leb (ts_count k a) (ts_count k b)) all_tskw.

(* the type a specifier list denotes; None = constraint violation (or the unsupported _Complex) *)
Definition c11_typespec (l : list tskw) : option ctype :=
  match find (fun r => ts_perm l (fst r)) c11_typespec_rows with
  | Some r => Some (snd r)
  | None => None
  end.

(* ------------------------------------------------------------------ (b) storage-class specifiers, C11 6.7.1p2 *)
Inductive sckw := SCtypedef | SCextern | SCstatic | SCthread | SCauto | SCregister.

Definition sckw_eqb (a b : sckw) : bool :=
  match a, b with
  | SCtypedef, SCtypedef | SCextern, SCextern | SCstatic, SCstatic | SCthread, SCthread | SCauto, SCauto
  | SCregister, SCregister => true
  | _, _ => false
  end.

Definition all_sckw : list sckw := [SCtypedef; SCextern; SCstatic; SCthread; SCauto; SCregister].

Definition sc_count (k : sckw) (l : list sckw) : nat := length (filter (sckw_eqb k) l).

(* "At most one storage-class specifier may be given in the declaration specifiers in a
   declaration, except that _Thread_local may appear with static or extern." *)
Definition c11_storage_ok (l : list sckw) : bool :=
  match l with
  | [] | [_] => true
  | [a; b] => (sckw_eqb a SCthread && (sckw_eqb b SCstatic || sckw_eqb b SCextern))
              || (sckw_eqb b SCthread && (sckw_eqb a SCstatic || sckw_eqb a SCextern))
  | _ => false
  end.

(* where a declaration stands; what it declares is known after the declarator *)
Inductive dctx := AtFile | AtBlock | AtParam.
Inductive dkind := DObject | DFunction | DTypedef.

(* 6.7.1p3 (block scope _Thread_local needs static or extern), 6.9p2 (no auto/register in an external
   declaration), 6.7.1p7 (block scope function: no explicit storage class other than extern),
   6.7.6.3p2 (parameter: only register) - for a combination that already satisfies 6.7.1p2 *)
Definition has (k : sckw) (l : list sckw) : bool := existsb (sckw_eqb k) l.
Definition c11_storage_ctx_ok (c : dctx) (k : dkind) (l : list sckw) : bool :=
  match c with
  | AtFile => negb (has SCauto l) && negb (has SCregister l)
  | AtBlock => (negb (has SCthread l) || has SCstatic l || has SCextern l)
               && match k with DFunction => match l with [] | [SCextern] => true | _ => false end | _ => true end
  | AtParam => match l with [] | [SCregister] => true | _ => false end
  end.

(* ------------------------------------------------------------------ (c) bit-fields, C11 6.7.2.1p4-5, 6.7.5p2 *)
Inductive bftype :=
  | BFbool                 (* _Bool: an object of the type is 1 bit wide (6.2.6.2, 6.7.2.1p4 footnote) *)
  | BFint (bytes : N)      (* an integer type of that size; int and unsigned are required, the others
                              are the implementation-defined types 6.7.2.1p5 allows *)
  | BFnonint.              (* any other type *)

Definition bf_type_width (t : bftype) : N :=
  match t with BFbool => 1 | BFint b => 8 * b | BFnonint => 0 end.

Record bitfield := mk_bf {
  bf_type : bftype;
  bf_width : N;            (* value of the width expression (non-negative: 6.7.2.1p4, checked by the constant-expression parser) *)
  bf_named : bool;         (* has a declarator *)
  bf_alignas : bool;       (* an alignment specifier is present *)
  bf_packed : bool         (* member of a struct with the GNU attribute packed: documented as unsupported *)
}.

Definition c11_bitfield_ok (b : bitfield) : Prop :=
  bf_type b <> BFnonint /\
  (bf_width b <= bf_type_width (bf_type b))%N /\
  (bf_width b = 0%N -> bf_named b = false) /\
  bf_alignas b = false /\
  bf_packed b = false.

(* ------------------------------------------------------------------ (d) alignment specifiers, C11 6.7.5p2-4, 6.2.8p4 *)
Definition is_pow2 (n : N) : Prop := exists k : N, n = (2 ^ k)%N.

(* every value is zero or a valid alignment (a power of two, 6.2.8p4); the strictest one, if any is
   non-zero, is not less strict than the alignment the type requires (6.7.5p4) *)
Definition c11_alignas_ok (values : list N) (type_align : N) : Prop :=
  (forall v, In v values -> v = 0%N \/ is_pow2 v) /\
  let m := fold_right N.max 0%N values in (m = 0%N \/ (type_align <= m)%N).

(* 6.7.5p2: no alignment specifier in the declaration of a typedef, a bit-field, a function, a parameter
   (an object declared register is not checked by the compiler: see notes, "no such check exists") *)
Inductive aligned_decl := ADobject | ADmember | ADtypedef | ADfunction | ADbitfield | ADparam | ADtypename.
Definition c11_alignas_allowed (d : aligned_decl) : bool :=
  match d with ADobject | ADmember => true | _ => false end.

(* ------------------------------------------------------------------ (e) array declarators, C11 6.7.6.2p1 *)
Record arraydecl := mk_arr {
  ar_len_isint : bool;          (* the size expression has integer type *)
  ar_len : Z;                   (* its value when constant *)
  ar_elem_incomplete : bool;
  ar_elem_function : bool;
  ar_elem_size : N              (* bytes, > 0 for a complete object type *)
}.

(* "the expression shall have an integer type. If the expression is a constant expression, it shall
   have a value greater than zero. The element type shall not be an incomplete or function type." *)
Definition c11_array_ok (a : arraydecl) : Prop :=
  ar_len_isint a = true /\ (0 < ar_len a)%Z /\ ar_elem_incomplete a = false /\ ar_elem_function a = false.

(* what the compiler implements: zero-length arrays are accepted as an extension, and the object
   must fit the 64-bit size type *)
Definition ext_array_ok (a : arraydecl) : Prop :=
  ar_len_isint a = true /\ (0 <= ar_len a)%Z /\ ar_elem_incomplete a = false /\ ar_elem_function a = false /\
  (ar_len a * Z.of_N (ar_elem_size a) < 2 ^ 64)%Z.

(* ------------------------------------------------------------------ (f) macro invocation arity, C11 6.10.3p4 *)
(* the tokens between the parentheses of an invocation, as far as the argument structure sees them *)
Inductive atok := AComma | ALParen | ARParen | AOther.

(* split at the top-level commas up to the matching right parenthesis: number of top-level commas and
   whether anything at all stands between the parentheses; None when the parenthesis never closes *)
Fixpoint top_commas (depth : nat) (ts : list atok) (commas : nat) (seen : bool) : option (nat * bool) :=
  match ts with
  | [] => None
  | t :: r =>
    match t, depth with
    | ARParen, O => Some (commas, seen)
    | ARParen, S d => top_commas d r commas true
    | ALParen, _ => top_commas (S depth) r commas true
    | AComma, O => top_commas depth r (S commas) true
    | _, _ => top_commas depth r commas true
    end
  end.

(* "If the identifier-list in the macro definition does not end with an ellipsis, the number of arguments
   (including those arguments consisting of no preprocessing tokens) in an invocation of a function-like macro
   shall equal the number of parameters in the macro definition. Otherwise, there shall be more arguments in
   the invocation than there are parameters in the macro definition (excluding the ...)."
   named = number of named parameters; an invocation M() of a macro without parameters has no argument. *)
Definition c11_arity_ok (named : nat) (variadic : bool) (ts : list atok) : bool :=
  match top_commas 0 ts 0 false with
  | None => false
  | Some (commas, seen) =>
    let nargs := S commas in
    if variadic then Nat.ltb named nargs
    else match named with
         | O => negb seen
         | _ => Nat.eqb nargs named
         end
  end.
