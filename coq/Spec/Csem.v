(* Spec/Csem.v - what the C abstract machine prescribes for the scalar core, on mathematical integers.
   Built on Spec/CArith.v (operators and conversions of C11 6.3.1, 6.5 with explicit undefinedness).
     - the scalar types of the LP64 targets as the back end distinguishes them;
     - conversions incl. _Bool and pointers (pointers convert like unsigned long on all three targets);
     - bit-field reads and writes on the storage unit (6.7.2.1p11, little-endian allocation of the three ABIs);
     - aggregate assignment as a byte copy;
     - big-step evaluation of side-effect-free expressions of the typed core AST (`None` = undefined);
     - the representation invariant [repr] relating C values to IL register contents. *)
From Coq Require Import ZArith List Bool.
From Cproc Require Import Lib.Wrap Spec.CArith.
Import ListNotations.
Local Open Scope Z_scope.

(* ------------------------------------------------------------------ scalar types *)
Inductive isz := I1 | I2 | I4 | I8.
Definition zsize (s : isz) : Z := match s with I1 => 1 | I2 => 2 | I4 => 4 | I8 => 8 end.

(* SInt: the integer types (enums through their base); SBool: _Bool; SPtr: pointers and nullptr_t *)
Inductive sty := SInt (s : isz) (sg : bool) | SBool | SPtr | SFlt | SDbl.

Definition ssize (t : sty) : Z :=
  match t with SInt s _ => zsize s | SBool => 1 | SPtr => 8 | SFlt => 4 | SDbl => 8 end.
Definition ssigned (t : sty) : bool := match t with SInt _ sg => sg | _ => false end.
Definition sfloat (t : sty) : bool := match t with SFlt | SDbl => true | _ => false end.
Definition sbits (t : sty) : Z := 8 * ssize t.

Definition ity_of (t : sty) : ity := mk_ity (ssize t) (ssigned t).

(* the values of a type: _Bool has only 0 and 1 *)
Definition c_in_range (t : sty) (v : Z) : Prop :=
  match t with SBool => v = 0 \/ v = 1 | _ => in_range (ity_of t) v end.

(* 6.3.1.2 / 6.3.1.3 (conversion to a signed type wraps, the implementation-defined choice of gcc/clang);
   pointer <-> integer: the address as an unsigned 64-bit number *)
Definition c_convert (dst : sty) (v : Z) : Z :=
  match dst with SBool => conv_bool_spec v | _ => conv_spec (ity_of dst) v end.

(* value of an integer constant whose stored 64-bit pattern is n *)
Definition c_const (t : sty) (n : Z) : Z := conv_spec (ity_of t) n.

(* ------------------------------------------------------------------ representation invariant *)
(* A C value v of type t is represented by register contents x when the low 8*size bits agree.  The bits
   above are arbitrary: a narrowing integer conversion emits no instruction. *)
Definition repr (t : sty) (v x : Z) : Prop := wrap (sbits t) x = wrap (sbits t) v.

(* ------------------------------------------------------------------ bit-fields *)
(* a member of [w] bits at bit offset [before] of a storage unit of [size] bytes, after = 8*size-before-w *)
Definition bf_width (size before after : Z) : Z := 8 * size - before - after.

(* value of the member for a unit holding u (0 <= u < 2^(8 size)) *)
Definition bf_get (sg : bool) (size before after u : Z) : Z :=
  let w := bf_width size before after in
  let raw := (u / 2 ^ before) mod 2 ^ w in
  if sg then sext w raw else raw.

(* what the member holds after v was assigned to it: v converted to the w-bit type *)
Definition bf_value (sg : bool) (size before after v : Z) : Z :=
  let w := bf_width size before after in
  if sg then sext w v else v mod 2 ^ w.

(* ------------------------------------------------------------------ side-effect-free expressions *)
(* The post-expr.c forms: every implicit conversion is an explicit PCast, both operands of an arithmetic
   or comparison operator have the common type [t], shift operands are promoted separately, pointer
   arithmetic is already `p + (unsigned long)i * size`, `~x` is `x ^ -1`, `!x` is `x == 0`. *)
Inductive pexpr :=
| PConst (t : sty) (n : Z)
| PTemp (t : sty) (x : positive)
| PCast (t : sty) (e : pexpr)
| PBin (o : binop) (t : sty) (l r : pexpr)
| PNeg (t : sty) (e : pexpr).

Definition ptype (e : pexpr) : sty :=
  match e with
  | PConst t _ | PTemp t _ | PCast t _ | PNeg t _ => t
  | PBin o t _ _ => if is_cmp o then SInt I4 true else t
  end.

Definition is_shift (o : binop) : bool := match o with Shl | Shr => true | _ => false end.
Definition promoted (t : sty) : bool :=
  match t with SInt I4 _ | SInt I8 _ => true | _ => false end.
Definition intlike (t : sty) : bool := negb (sfloat t).
Definition sty_eqb (a b : sty) : bool :=
  match a, b with
  | SInt I1 x, SInt I1 y | SInt I2 x, SInt I2 y | SInt I4 x, SInt I4 y | SInt I8 x, SInt I8 y => Bool.eqb x y
  | SBool, SBool | SPtr, SPtr | SFlt, SFlt | SDbl, SDbl => true
  | _, _ => false end.

(* what expr.c guarantees about the trees it builds (C05's property) *)
Fixpoint wt (e : pexpr) : bool :=
  match e with
  | PConst t n => match t with SBool => (n =? 0) || (n =? 1) | _ => intlike t end
  | PTemp t _ => intlike t
  | PCast t e1 => intlike t && intlike (ptype e1) && wt e1
  | PNeg t e1 => promoted t && sty_eqb (ptype e1) t && wt e1
  | PBin o t l r =>
      promoted t && sty_eqb (ptype l) t && wt l && wt r &&
      (if is_shift o then promoted (ptype r) else sty_eqb (ptype r) t)
  end.

Definition obind {A B} (x : option A) (f : A -> option B) : option B :=
  match x with Some a => f a | None => None end.

(* rho: the values of the leaves *)
Fixpoint eval (rho : positive -> option Z) (e : pexpr) : option Z :=
  match e with
  | PConst t n => Some (c_const t n)
  | PTemp _ x => rho x
  | PCast t e1 => obind (eval rho e1) (fun v => Some (c_convert t v))
  | PNeg t e1 => obind (eval rho e1) (fun v => arith_result (ity_of t) (- v))
  | PBin o t l r => obind (eval rho l) (fun a => obind (eval rho r) (fun b => binop_spec o (ity_of t) a b))
  end.
