(* C18 - vocabulary of the theorems about Model/DriverProc.v: what is assumed of the operating system
   (sane, fair) and what it means for a pipeline / the link step to succeed.  Definitions only. *)
From Coq Require Import List String Bool Arith.
From Cproc Require Import Lib.DriverTypes Model.DriverProc.
Import ListNotations.
Open Scope list_scope.

Definition stages_of_pipeline (pl : pipeline) : list stage := map fst (p_cmds pl).

(* the stages whose spawn is attempted and succeeds: the prefix before the first spawn failure *)
Fixpoint spawned_stages (e : env) (k : nat) (l : list stage) : list stage :=
  match l with
  | [] => []
  | g :: r => if spawn_ok e k g then g :: spawned_stages e k r else []
  end.

(* Kernel facts the theorems rely on, for the pipeline that runs k-th:
   - every stage occurs once in a pipeline (also a theorem about Driver.plan: C17_stages_contiguous);
   - children have non-zero, pairwise distinct pids;
   - wait() never returns 0 and returns every terminated child once. *)
Definition sane_pipeline (e : env) (k : nat) (pl : pipeline) : Prop :=
  NoDup (stages_of_pipeline pl) /\
  (forall g, In g (stages_of_pipeline pl) -> pid_of e k g <> 0) /\
  NoDup (map (pid_of e k) (stages_of_pipeline pl)) /\
  ~ In 0 (map fst (waits e k)) /\
  NoDup (map fst (waits e k)).

(* Fairness: a child that was started is eventually returned by wait() - because it finishes by itself,
   or because it was sent SIGTERM (assumption on the tools: they do not ignore SIGTERM). *)
Definition fair_pipeline (e : env) (k : nat) (pl : pipeline) : Prop :=
  forall g, In g (spawned_stages e k (stages_of_pipeline pl)) -> In (pid_of e k g) (map fst (waits e k)).

Fixpoint all_pipelines (P : nat -> pipeline -> Prop) (k : nat) (pls : list pipeline) : Prop :=
  match pls with
  | [] => True
  | pl :: r => P k pl /\ all_pipelines P (S k) r
  end.

(* every tool of the pipeline could be started and every status reported for one of its children is success *)
Definition pipeline_ok (e : env) (k : nat) (pl : pipeline) : Prop :=
  (forall g, In g (stages_of_pipeline pl) -> spawn_ok e k g = true) /\
  (forall g st, In g (stages_of_pipeline pl) -> In (pid_of e k g, st) (waits e k) -> succeeded st = true).

Definition link_ok (e : env) : Prop := link_spawn_ok e = true /\ succeeded (link_status e) = true.

Definition temps_of (pls : list pipeline) : list word :=
  flat_map (fun pl => match p_dest pl with DFile (Temp j) => [Temp j] | _ => [] end) pls.

Definition is_temp (w : word) : bool := match w with Temp _ => true | Lit _ => false end.
