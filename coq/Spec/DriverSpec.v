(* C17 - what cproc(1) (plus the usage string and the driver's own diagnostics) says the driver does,
   written independently of driver.c's control flow:

     1. the command line is read into a list of ITEMS by looking every word up in option tables;
     2. everything else is a declarative function of that list: the mode is the last mode flag, the output
        the last -o, a tool's extra arguments are the forwarded items addressed to it in command-line order,
        an input's stages are looked up from its type and cut at the mode's last stage, outputs are named
        by the documented rules, the refusals are conditions on the item list.

   Three places where driver.c is known to deviate from the documentation are switches of [quirks]
   ([documented] = all off = the manual; [asbuilt] = all on).  No proofs in this file. *)
From Coq Require Import List String Ascii NArith ZArith Bool Arith.
From Cproc Require Import Lib.DriverTypes.
Import ListNotations.
Open Scope string_scope.
Open Scope list_scope.

Record quirks := {
  q_onechar : bool;     (* D24: an input operand of one character is taken for "-" (standard input) *)
  q_qbefile : bool;     (* D20: -emit-qbe without -o writes <base>.qbe instead of standard output *)
  q_hdrlink : bool }.   (* an input that does not reach the link stage (a header) is handed to the linker anyway *)
Definition documented := {| q_onechar := false; q_qbefile := false; q_hdrlink := false |}.
Definition asbuilt := {| q_onechar := true; q_qbefile := true; q_hdrlink := true |}.

(* ------------------------------------------------------------------ tables *)
(* file types by suffix ("known file extensions"); anything else goes to the linker as it is *)
Definition suffix_table : list (string * filetype) :=
  [("c", C); ("h", CHDR); ("i", CPPOUT); ("qbe", QBE); ("s", ASM); ("S", ASMPP)].

(* -x format names *)
Definition lang_table : list (string * filetype) :=
  [("none", NONE); ("c", C); ("c-header", CHDR); ("cpp-output", CPPOUT); ("qbe", QBE);
   ("assembler", ASM); ("assembler-with-cpp", ASMPP)].

(* the stages an input of each type goes through when linking *)
Definition stages_for (t : filetype) : list stage :=
  match t with
  | C      => [PREPROCESS; COMPILE; CODEGEN; ASSEMBLE; LINK]
  | CPPOUT => [COMPILE; CODEGEN; ASSEMBLE; LINK]
  | QBE    => [CODEGEN; ASSEMBLE; LINK]
  | ASM    => [ASSEMBLE; LINK]
  | ASMPP  => [PREPROCESS; ASSEMBLE; LINK]
  | CHDR   => [PREPROCESS]
  | OBJ    => [LINK]
  | NONE   => []
  end.

Inductive item :=
| IInput (name : string) (t : filetype)
| ILib (name : string)
| IMode (lst : stage)              (* -E/-M/-MM: PREPROCESS, -emit-qbe: COMPILE, -S: CODEGEN, -c: ASSEMBLE *)
| IOut (o : string)
| IFwd (g : stage) (ws : list string)
| INoStdlib
| IVerbose
| INop.

(* words that are an option by themselves *)
Definition word_table : list (string * list item) :=
  [("-nostdlib", [INoStdlib]);
   ("-nostdinc", [IFwd PREPROCESS ["-nostdinc"]]);
   ("-static", [IFwd LINK ["-static"]]);
   ("-emit-qbe", [IMode COMPILE]);
   ("-pipe", [INop]);
   ("-pedantic", [INop]);
   ("-pthread", [IFwd LINK ["-l"; "pthread"]]);
   ("-M", [IFwd PREPROCESS ["-M"]; IMode PREPROCESS]);
   ("-MM", [IFwd PREPROCESS ["-MM"]; IMode PREPROCESS]);
   ("-MD", [IFwd PREPROCESS ["-MD"]]);
   ("-MMD", [IFwd PREPROCESS ["-MMD"]])].

(* words followed by one operand word, both handed to the preprocessor *)
Definition pair_table : list string := ["-include"; "-idirafter"; "-isystem"; "-iquote"; "-MT"; "-MF"].

(* one-letter options *)
Inductive letter_kind :=
| KStrict (i : item)                 (* the letter alone; anything attached is refused *)
| KLax (i : item)                    (* whatever is attached is ignored *)
| KFwd (g : stage)                   (* operand attached or in the next word; tool gets "-<letter>" operand *)
| KLib | KOut | KLang                (* operand attached or in the next word *)
| KW | KM.
Definition letter_table : list (ascii * letter_kind) :=
  [("c"%char, KStrict (IMode ASSEMBLE)); ("E"%char, KStrict (IMode PREPROCESS)); ("S"%char, KStrict (IMode CODEGEN));
   ("s"%char, KStrict (IFwd LINK ["-s"])); ("v"%char, KStrict IVerbose);
   ("g"%char, KLax INop); ("O"%char, KLax INop); ("P"%char, KLax (IFwd PREPROCESS ["-P"]));
   ("D"%char, KFwd PREPROCESS); ("U"%char, KFwd PREPROCESS); ("I"%char, KFwd PREPROCESS); ("L"%char, KFwd LINK);
   ("l"%char, KLib); ("o"%char, KOut); ("x"%char, KLang); ("W"%char, KW); ("M"%char, KM)].

Fixpoint assoc {A} (k : string) (l : list (string * A)) : option A :=
  match l with
  | [] => None
  | (k', v) :: r => if k =? k' then Some v else assoc k r
  end.
Fixpoint assocc {A} (k : ascii) (l : list (ascii * A)) : option A :=
  match l with
  | [] => None
  | (k', v) :: r => if Ascii.eqb k k' then Some v else assocc k r
  end.
Definition mem (k : string) (l : list string) : bool := existsb (String.eqb k) l.

(* ------------------------------------------------------------------ reading the command line *)
Definition suffix (name : string) : option string :=
  match strrchr name "."%char with Some i => Some (drop (S i) name) | None => None end.

Definition type_by_suffix (name : string) : filetype :=
  match suffix name with
  | Some e => match assoc e suffix_table with Some t => t | None => OBJ end
  | None => OBJ
  end.

(* an operand: with -x in force it has that type; otherwise "-" (standard input) is refused and
   everything else is typed by its suffix *)
Definition operand (q : quirks) (lang : filetype) (name : string) : umsg + item :=
  match lang with
  | NONE =>
      if (name =? "-") || (q_onechar q && Nat.eqb (String.length name) 1) then inl UStdinNeedsX
      else inr (IInput name (type_by_suffix name))
  | t => inr (IInput name t)
  end.

Definition is_option (a : string) : bool :=
  match a with
  | String c (String _ _) => Ascii.eqb c "-"
  | _ => false
  end.

Definition w_items (a : string) : umsg + list item :=
  (* a = "-W..." *)
  match a with
  | String _ (String _ (String t (String c3 body))) =>
      if negb (Ascii.eqb c3 ",") then inr [INop]
      else if Ascii.eqb t "p" then inr [IFwd PREPROCESS (split_comma body)]
      else if Ascii.eqb t "a" then inr [IFwd ASSEMBLE (split_comma body)]
      else if Ascii.eqb t "l" then inr [IFwd LINK (split_comma body)]
      else inl UPlain
  | _ => inr [INop]
  end.

Definition cons_items (is : list item) (r : umsg + list item) : umsg + list item :=
  match r with inl m => inl m | inr l => inr (is ++ l) end.

Fixpoint lex (q : quirks) (lang : filetype) (argv : list string) : umsg + list item :=
  match argv with
  | [] => inr []
  | a :: rest =>
    if negb (is_option a) then
      match operand q lang a with
      | inl m => inl m
      | inr i => cons_items [i] (lex q lang rest)
      end
    else
    match assoc a word_table with
    | Some is => cons_items is (lex q lang rest)
    | None =>
    if mem a pair_table then
      match rest with
      | [] => inl UPlain
      | b :: rest' => cons_items [IFwd PREPROCESS [a; b]] (lex q lang rest')
      end
    else if hasprefix a "-std=" then cons_items [IFwd PREPROCESS [a]] (lex q lang rest)
    else
      let c := cidx a 1 in
      let attached := drop 2 a in
      match assocc c letter_table with
      | Some (KStrict i) => if attached =? "" then cons_items [i] (lex q lang rest) else inl UPlain
      | Some (KLax i) => cons_items [i] (lex q lang rest)
      | Some (KFwd g) =>
          if negb (attached =? "") then cons_items [IFwd g [String "-" (String c ""); attached]] (lex q lang rest)
          else match rest with
               | [] => inl UPlain
               | b :: rest' => cons_items [IFwd g [String "-" (String c ""); b]] (lex q lang rest')
               end
      | Some KLib =>
          if negb (attached =? "") then cons_items [ILib attached] (lex q lang rest)
          else match rest with
               | [] => inl UPlain
               | b :: rest' => cons_items [ILib b] (lex q lang rest')
               end
      | Some KOut =>
          if negb (attached =? "") then cons_items [IOut attached] (lex q lang rest)
          else match rest with
               | [] => inl UPlain
               | b :: rest' => cons_items [IOut b] (lex q lang rest')
               end
      | Some KLang =>
          if negb (attached =? "") then
            match assoc attached lang_table with
            | Some t => lex q t rest
            | None => inl (UUnknownLang attached)
            end
          else match rest with
               | [] => inl UPlain
               | b :: rest' =>
                   match assoc b lang_table with
                   | Some t => lex q t rest'
                   | None => inl (UUnknownLang b)
                   end
               end
      | Some KW =>
          match w_items a with
          | inl m => inl m
          | inr is => cons_items is (lex q lang rest)
          end
      | Some KM => inl UPlain
      | None => inl (UUnknownOpt a)
      end
    end
  end.

(* ------------------------------------------------------------------ reading the item list *)
Fixpoint mode_of (items : list item) (d : stage) : stage :=
  match items with
  | [] => d
  | IMode m :: r => mode_of r m
  | _ :: r => mode_of r d
  end.
Fixpoint out_of (items : list item) (d : option string) : option string :=
  match items with
  | [] => d
  | IOut o :: r => out_of r (Some o)
  | _ :: r => out_of r d
  end.
Definition fwd (g : stage) (items : list item) : list string :=
  flat_map (fun i => match i with IFwd h ws => if stage_eqb h g then ws else [] | _ => [] end) items.
Definition is_operand (i : item) : bool := match i with IInput _ _ | ILib _ => true | _ => false end.
Definition operands (items : list item) : list item := filter is_operand items.
Definition flag_nostdlib (items : list item) : bool := existsb (fun i => match i with INoStdlib => true | _ => false end) items.
Definition flag_verbose (items : list item) : bool := existsb (fun i => match i with IVerbose => true | _ => false end) items.

Definition in_stages (g : stage) (l : list stage) : bool := existsb (stage_eqb g) l.
Definition before_or_at (g m : stage) : bool := Nat.leb (stage_idx g) (stage_idx m).

(* directory and suffix removed, new suffix added *)
Definition replace_suffix (name ext : string) : string :=
  let b := match strrchr name "/"%char with Some i => drop (S i) name | None => name end in
  let stem := match strrchr b "."%char with Some i => take i b | None => b end in
  (stem ++ "." ++ ext)%string.

(* where a pipeline that is not followed by linking writes, when there is no -o *)
Definition default_dest (q : quirks) (mode : stage) (name : string) : dest :=
  match mode with
  | ASSEMBLE => DFile (Lit (replace_suffix name "o"))
  | CODEGEN => DFile (Lit (replace_suffix name "s"))
  | COMPILE => if q_qbefile q then DFile (Lit (replace_suffix name "qbe")) else DStdout
  | _ => DStdout
  end.

Definition arch_table : list (string * (string * string)) :=
  [("x86_64-", ("x86_64-sysv", "amd64_sysv")); ("amd64-", ("x86_64-sysv", "amd64_sysv"));
   ("aarch64-", ("aarch64", "arm64")); ("riscv64-", ("riscv64", "rv64"))].
Definition arch_for (t : string) : option (string * string) :=
  match filter (fun e => hasprefix t (fst e)) arch_table with
  | e :: _ => Some (snd e)
  | [] => None
  end.

Section Plan.
  Variable q : quirks.
  Variable cfg : config.
  Variable archs : string * string.
  Variable items : list item.

  Definition mode := mode_of items LINK.
  Definition out := out_of items None.

  (* a tool's arguments before -o / the input: its configured command, the target flag, the user's options *)
  Definition tool_args (g : stage) : list string :=
    match g with
    | PREPROCESS => preprocesscmd cfg
    | COMPILE => compilecmd cfg ++ ["-t"; fst archs]
    | CODEGEN => codegencmd cfg ++ ["-t"; snd archs]
    | ASSEMBLE => assemblecmd cfg
    | LINK => linkcmd cfg
    end ++ fwd g items.

  Definition takes_part (t : filetype) : bool := in_stages mode (stages_for t).
  Definition is_built (t : filetype) : bool := takes_part t && negb (filetype_eqb t OBJ).

  Definition pipeline_stages (t : filetype) : list stage :=
    filter (fun g => before_or_at g mode && negb (stage_eqb g LINK)) (stages_for t).

  Fixpoint stage_cmds (l : list stage) (first : bool) (name : string) (d : dest) : list (stage * list word) :=
    match l with
    | [] => []
    | g :: r =>
        (g, lits (tool_args g)
            ++ (match r, d with [], DFile w => [Lit "-o"; w] | _, _ => [] end)
            ++ (if first && negb (name =? "-") then [Lit name] else []))
        :: stage_cmds r false name d
    end.

  Definition dest_for (name : string) (ntemps : nat) : dest :=
    if stage_eqb mode LINK then DFile (Temp ntemps)
    else match out with
         | Some o => if o =? "-" then DStdout else DFile (Lit o)
         | None => default_dest q mode name
         end.

  (* pipelines, and the linker's view of the operands, in command-line order *)
  Fixpoint walk (ops : list item) (ntemps : nat) : list pipeline * list word :=
    match ops with
    | [] => ([], [])
    | IInput name t :: r =>
        if is_built t then
          let d := dest_for name ntemps in
          let nt := if stage_eqb mode LINK then S ntemps else ntemps in
          let '(ps, ws) := walk r nt in
          ({| p_cmds := stage_cmds (pipeline_stages t) true name d; p_dest := d |} :: ps,
           match d with DFile w => w :: ws | DStdout => Lit name :: ws end)
        else
          let '(ps, ws) := walk r ntemps in
          (ps, if takes_part t || q_hdrlink q then Lit name :: ws else ws)
    | ILib name :: r =>
        let '(ps, ws) := walk r ntemps in (ps, Lit "-l" :: Lit name :: ws)
    | _ :: r => walk r ntemps
    end.

  Definition refusal : option umsg :=
    match operands items with
    | [] => Some UPlain
    | _ :: more =>
        match out with
        | Some o =>
            if o =? "-" then (if in_stages mode [ASSEMBLE; LINK] then Some UObjStdout else None)
            else if negb (stage_eqb mode LINK) && negb (match more with [] => true | _ => false end)
                 then Some UMultiOutput else None
        | None => None
        end
    end.

  Definition plan_items : outcome :=
    match refusal with
    | Some m => Usage m
    | None =>
        let '(ps, ws) := walk (operands items) 0 in
        Run (flag_verbose items) ps
            (if stage_eqb mode LINK then
               Some (lits (tool_args LINK)
                     ++ [Lit "-o"; Lit (match out with Some o => o | None => "a.out" end)]
                     ++ (if flag_nostdlib items then [] else lits (startfiles cfg))
                     ++ ws
                     ++ (if flag_nostdlib items then [] else lits (endfiles cfg)))
             else None)
    end.
End Plan.

Definition plan_q (q : quirks) (cfg : config) (argv : list string) : outcome :=
  match arch_for (target cfg) with
  | None => Fatal
  | Some archs =>
      match lex q NONE argv with
      | inl m => Usage m
      | inr items => plan_items q cfg archs items
      end
  end.

(* the manual *)
Definition plan := plan_q documented.
