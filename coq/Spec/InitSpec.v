(* C07 - specification: what image an initialised object must contain (C11 6.7.9 on a little-endian ABI).

   An initializer applied to a type yields a list of LEAF WRITES in source order: each is a bit range of the
   object and a payload (integer/floating value, string literal, address constant, run-time value).
   The image is the all-zero object of the type's size overlaid with the leaf writes in that order:
   a later write overrides an earlier one bit by bit (6.7.9p19), everything never written is zero (p21, p10),
   a string literal is truncated or zero-extended to its array (p14, p21).

   Part 1 (image) is the specification of everything downstream of the initializer list
   (initadd / emitdata / funcinit).  Part 2 (elab) is the specification of the parser for initializers
   without designators in which every aggregate and union has its own braces (the structural reading
   of 6.7.9p17-p20); designators and brace elision are specified by the Python reference in
   props/c07.py, validated against gcc. *)
From Coq Require Import List NArith Bool.
From Cproc Require Import Lib.InitBits Model.Init.   (* Model.Init only for the DATA types: ctype table, sexpr, bitfield *)
Import ListNotations.
Local Open Scope N_scope.

(* ------------------------------------------------------------------------------ part 1: the image *)
Inductive payload :=
| PInt (v : N)                      (* a value; the low `width` bits are stored (two's complement / IEEE bits) *)
| PStr (w : N) (data : list N)      (* string literal: element width in bytes, elements incl. terminator *)
| PAddr (sym off : N)               (* address constant &sym + off *)
| POpaque (id : N).                 (* a run-time value *)

Record leaf := mkleaf { l_pos : N; l_width : N; l_val : payload }.    (* bit position, width in bits *)

(* the elements of a string literal laid out consecutively, element i at bits [8*w*i, 8*w*(i+1)) *)
Fixpoint strnum (w : N) (data : list N) : N :=
  match data with
  | [] => 0
  | c :: r => c mod 2 ^ (8 * w) + 2 ^ (8 * w) * strnum w r
  end.

Definition payload_num (en : env) (p : payload) : N :=
  match p with
  | PInt v => v
  | PStr w data => strnum w data
  | PAddr sym off => (symaddr en sym + off) mod 2 ^ 64
  | POpaque id => opaque en id
  end.

(* setbits truncates the payload to the leaf's width; the payload's number has zeros above its last
   element: truncation and zero-extension of strings come for free *)
Definition write (en : env) (img : N) (lf : leaf) : N :=
  setbits img (l_pos lf) (l_width lf) (payload_num en (l_val lf)).

Definition overlay (en : env) (leaves : list leaf) : N := fold_left (write en) leaves 0.

(* the image of an object of `size` bytes *)
Definition image (en : env) (size : N) (leaves : list leaf) : N := overlay en leaves mod 2 ^ (8 * size).

(* --------------------------------------------- part 2: brace-complete, designator-free initializers *)
Inductive sinit := SE (e : sexpr) | SL (items : list sinit).

(* the value a scalar of type t receives from expression e (6.7.9p11: as by simple assignment) *)
Definition sconv (t : ctype) (e : sexpr) : option payload :=
  match e with
  | XInt v f32 f64 =>
    if t_ptr t then (if v =? 0 then Some (PInt 0) else None)
    else if t_bool t then Some (PInt (if v =? 0 then 0 else 1))
    else if t_flt t then Some (PInt (if t_size t =? 4 then f32 else f64))
    else if t_int t then Some (PInt v)
    else None
  | XFlt f32 f64 toint =>
    if t_ptr t then None
    else if t_bool t then Some (PInt (if f64 mod 2 ^ 63 =? 0 then 0 else 1))
    else if t_flt t then Some (PInt (if t_size t =? 4 then f32 else f64))
    else if t_int t then Some (PInt toint)
    else None
  | XStr _ _ _ _ sym => if t_ptr t then Some (PAddr sym 0) else None
  | XAddr sym off => if t_ptr t then Some (PAddr sym off) else None
  | XAgg _ _ _ _ => None
  | XVar id => Some (POpaque id)
  end.

Definition scalar_leaf (t : ctype) (off : N) (b : bitfield) (e : sexpr) : option (list leaf) :=
  match sconv t e with
  | Some p => Some [mkleaf (8 * off + bf_before b) (8 * t_size t - bf_before b - bf_after b) p]
  | None => None
  end.

(* a string literal may initialise an array of character type / of the literal's element type *)
Definition string_ok (B : ctype) (ischar : bool) (compat : N) : bool :=
  t_int B && ((t_char B && ischar) || (t_compat B =? compat)).

Section Elab.
Variable tbl : list ctype.
Let T (i : nat) : ctype := nth i tbl tdummy.

(* leaves of initializer `i` for the sub-object of (complete) type `t` at byte offset `off` (bit-field `b`) *)
Fixpoint elab (fuel : nat) (t : nat) (off : N) (b : bitfield) (i : sinit) : option (list leaf) :=
  match fuel with
  | O => None
  | S f =>
    match t_kind (T t) with
    | KScalar =>
      match i with
      | SE e | SL [SE e] => scalar_leaf (T t) off b e
      | SL [] => Some []
      | _ => None
      end
    | KArray =>
      let B := t_base (T t) in
      let esz := t_size (T B) in
      let size := t_size (T t) in
      match i with
      | SE (XStr w ischar compat data _) | SL [SE (XStr w ischar compat data _)] =>
        if string_ok (T B) ischar compat then Some [mkleaf (8 * off) (8 * size) (PStr w data)]
        else match i with
             | SL [it] => if 0 <? size then elab f B off nobits it else None
             | _ => None
             end
      | SE _ => None
      | SL items =>
        if size <? N.of_nat (length items) * esz then None
        else
          (fix go (items : list sinit) (k : N) : option (list leaf) :=
             match items with
             | [] => Some []
             | it :: r =>
               match elab f B (off + k * esz) nobits it, go r (k + 1) with
               | Some a, Some c => Some (a ++ c)
               | _, _ => None
               end
             end) items 0
      end
    | KStruct =>
      match i with
      | SE (XAgg compat _ _ id) =>
        if compat =? t_compat (T t) then Some [mkleaf (8 * off) (8 * t_size (T t)) (POpaque id)] else None
      | SE _ => None
      | SL items =>
        (fix go (items : list sinit) (ms : list member) : option (list leaf) :=
           match items, ms with
           | [], _ => Some []
           | _ :: _, [] => None
           | it :: r, m :: ms' =>
             match elab f (m_type m) (off + m_off m) (m_bits m) it, go r ms' with
             | Some a, Some c => Some (a ++ c)
             | _, _ => None
             end
           end) items (t_members (T t))
      end
    | KUnion =>
      match i with
      | SE (XAgg compat _ _ id) =>
        if compat =? t_compat (T t) then Some [mkleaf (8 * off) (8 * t_size (T t)) (POpaque id)] else None
      | SE _ => None
      | SL [] => Some []
      | SL [it] =>
        match t_members (T t) with
        | m :: _ => elab f (m_type m) (off + m_off m) (m_bits m) it
        | [] => None
        end
      | SL _ => None
      end
    end
  end.

End Elab.

(* ------------------------------------------- part 3: an entry of the compiler's init list as a leaf write *)
Definition payload_of (e : expr) : payload :=
  match e with
  | EConst _ _ u => PInt u
  | EString w data => PStr w data
  | EAddr sym off => PAddr sym off
  | EOpaque _ _ _ id => POpaque id
  end.

Definition leaf_of (i : init) : leaf := mkleaf (bstart i) (bend i - bstart i) (payload_of (i_expr i)).

(* the image denoted by an init list: its entries written in LIST order *)
Definition denote (en : env) (l : list init) : N := overlay en (map leaf_of l).
