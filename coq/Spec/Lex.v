(* Specification of tokenisation, C11 5.1.1.2 (phases 1-3) and 6.4.

   Part 1 (declarative): phase 2, the punctuator list, "longest prefix", the pp-number grammar of 6.4.8,
   identifiers, encoding prefixes.
   Part 2 (functional): a reference lexer over the *logical* character list (after phase 2).  It knows nothing
   about splices, locations, look-ahead, push-back or buffers; Proofs/ScanLex.v shows that it satisfies
   Part 1 and Proofs/ScanSim.v that the scanner model refines it.

   Every character carries an annotation (its physical position, Spec/LineSpec.v) which the lexer only
   passes through: a token starts where its first character is. *)
From Coq Require Import List NArith ZArith Bool String Ascii.
From Cproc Require Import Gen.Keywords.
Import ListNotations.
Open Scope N_scope.

Definition pos := (Z * Z)%type.           (* physical (line, column), both 1-based *)
Definition achar := (N * pos)%type.

(* a plain character list with dummy annotations *)
Definition blank (cs : list N) : list achar := List.map (fun c => (c, (0, 0)%Z)) cs.

(* ------------------------------------------------------------------ Part 1: declarative *)

(* 5.1.1.2 phase 2: each backslash immediately followed by a new-line is deleted (one left-to-right pass) *)
Fixpoint phase2 (cs : list N) : list N :=
  match cs with
  | [] => []
  | a :: r =>
    match r with
    | b :: r' => if (a =? 92) && (b =? 10) then phase2 r' else a :: phase2 r
    | [] => [a]
    end
  end.

Fixpoint phase2a (cs : list achar) : list achar :=
  match cs with
  | [] => []
  | a :: r =>
    match r with
    | b :: r' => if (fst a =? 92) && (fst b =? 10) then phase2a r' else a :: phase2a r
    | [] => [a]
    end
  end.

Definition bytes (s : string) : list N := List.map N_of_ascii (list_ascii_of_string s).

(* 6.4.6 punctuators; digraphs are unsupported by design (README); `::` is C23 *)
Definition puncts : list (list N * kind) :=
  [ (bytes "[", TLBRACK); (bytes "]", TRBRACK); (bytes "(", TLPAREN); (bytes ")", TRPAREN);
    (bytes "{", TLBRACE); (bytes "}", TRBRACE); (bytes ".", TPERIOD); (bytes "->", TARROW);
    (bytes "++", TINC); (bytes "--", TDEC); (bytes "&", TBAND); (bytes "*", TMUL); (bytes "+", TADD);
    (bytes "-", TSUB); (bytes "~", TBNOT); (bytes "!", TLNOT); (bytes "/", TDIV); (bytes "%", TMOD);
    (bytes "<<", TSHL); (bytes ">>", TSHR); (bytes "<", TLESS); (bytes ">", TGREATER); (bytes "<=", TLEQ);
    (bytes ">=", TGEQ); (bytes "==", TEQL); (bytes "!=", TNEQ); (bytes "^", TXOR); (bytes "|", TBOR);
    (bytes "&&", TLAND); (bytes "||", TLOR); (bytes "?", TQUESTION); (bytes ":", TCOLON);
    (bytes "::", TCOLONCOLON); (bytes ";", TSEMICOLON); (bytes "...", TELLIPSIS); (bytes "=", TASSIGN);
    (bytes "*=", TMULASSIGN); (bytes "/=", TDIVASSIGN); (bytes "%=", TMODASSIGN); (bytes "+=", TADDASSIGN);
    (bytes "-=", TSUBASSIGN); (bytes "<<=", TSHLASSIGN); (bytes ">>=", TSHRASSIGN); (bytes "&=", TBANDASSIGN);
    (bytes "^=", TXORASSIGN); (bytes "|=", TBORASSIGN); (bytes ",", TCOMMA); (bytes "#", THASH);
    (bytes "##", THASHHASH) ].

Definition is_prefix (p cs : list N) : Prop := exists r, cs = p ++ r.

(* (p, k) is THE longest punctuator that is a prefix of cs *)
Definition longest_punct (cs : list N) (p : list N) (k : kind) : Prop :=
  In (p, k) puncts /\ is_prefix p cs /\
  forall q k', In (q, k') puncts -> is_prefix q cs -> (List.length q <= List.length p)%nat.

(* pre is the longest prefix of cs satisfying P *)
Definition longest_prefix (P : list N -> Prop) (cs pre : list N) : Prop :=
  P pre /\ is_prefix pre cs /\ forall pre', P pre' -> is_prefix pre' cs -> (List.length pre' <= List.length pre)%nat.

(* 6.4.2.1 (no universal character names, no extended characters: unsupported by design) *)
Definition digit (c : N) : bool := (48 <=? c) && (c <=? 57).
Definition nondigit (c : N) : bool := ((65 <=? c) && (c <=? 90)) || ((97 <=? c) && (c <=? 122)) || (c =? 95).
Definition idchar (c : N) : bool := nondigit c || digit c.

Definition identifier (l : list N) : Prop :=
  match l with
  | c :: r => nondigit c = true /\ Forall (fun x => idchar x = true) r
  | [] => False
  end.

(* 6.4.8 preprocessing numbers *)
Definition expchar (c : N) : bool := (c =? 101) || (c =? 69) || (c =? 112) || (c =? 80).   (* e E p P *)
Definition signchar (c : N) : bool := (c =? 43) || (c =? 45).                               (* + - *)

Inductive ppnumber : list N -> Prop :=
| pp_digit : forall d, digit d = true -> ppnumber [d]
| pp_dot_digit : forall d, digit d = true -> ppnumber [46; d]
| pp_digit_more : forall n d, ppnumber n -> digit d = true -> ppnumber (n ++ [d])
| pp_nondigit : forall n c, ppnumber n -> nondigit c = true -> ppnumber (n ++ [c])
| pp_exp_sign : forall n e s, ppnumber n -> expchar e = true -> signchar s = true -> ppnumber (n ++ [e; s])
| pp_dot : forall n, ppnumber n -> ppnumber (n ++ [46]).

(* 6.4.4.4 / 6.4.5 encoding prefixes: L u U u8 *)
Definition enc_prefix (l : list N) : bool :=
  match l with
  | [76] | [85] | [117] | [117; 56] => true
  | _ => false
  end.

(* 6.4p3 white space other than new-line: space, HT, FF, VT *)
Definition wschar (c : N) : bool := (c =? 32) || (c =? 9) || (c =? 12) || (c =? 11).

(* ------------------------------------------------------------------ Part 2: reference lexer *)

Inductive lerr := ErrHexEscape | ErrEscape | ErrNullIn (q : N) | ErrNewlineIn (q : N) | ErrEOFIn (q : N) | ErrEOFInComment.

Definition cons1 {B} (c : N) (p : list N * B) : list N * B := (c :: fst p, snd p).

Fixpoint l_span (f : N -> bool) (cs : list achar) : list N * list achar :=
  match cs with
  | a :: r => if f (fst a) then cons1 (fst a) (l_span f r) else ([], cs)
  | [] => ([], [])
  end.

(* the tail of a pp-number: everything 6.4.8 lets follow its first digit *)
Fixpoint l_num (allowsign : bool) (cs : list achar) : list N * list achar :=
  match cs with
  | [] => ([], [])
  | a :: r =>
    let c := fst a in
    if expchar c then cons1 c (l_num true r)
    else if signchar c then (if allowsign then cons1 c (l_num false r) else ([], cs))
    else if (c =? 95) || (c =? 46) then cons1 c (l_num false r)
    else if idchar c then cons1 c (l_num false r)
    else ([], cs)
  end.

Definition hexdigit (c : N) : bool := digit c || ((65 <=? c) && (c <=? 70)) || ((97 <=? c) && (c <=? 102)).
Definition octdigit (c : N) : bool := (48 <=? c) && (c <=? 55).
(* 6.4.4.4 simple-escape-sequence characters *)
Definition simple_esc (c : N) : bool :=
  (c =? 39) || (c =? 34) || (c =? 63) || (c =? 92) || (c =? 97) || (c =? 98) || (c =? 102) ||
  (c =? 110) || (c =? 114) || (c =? 116) || (c =? 118).

(* cs = what follows the backslash *)
Definition l_escape (cs : list achar) : (list N * list achar) + lerr :=
  match cs with
  | [] => inr ErrEscape
  | a :: r =>
    let c := fst a in
    if c =? 120 then
      match r with
      | b :: _ => if hexdigit (fst b) then inl (cons1 c (l_span hexdigit r)) else inr ErrHexEscape
      | [] => inr ErrHexEscape
      end
    else if octdigit c then
      match r with
      | b :: r' =>
        if octdigit (fst b) then
          match r' with
          | d :: r'' => if octdigit (fst d) then inl ([c; fst b; fst d], r'') else inl ([c; fst b], r')
          | [] => inl ([c; fst b], r')
          end
        else inl ([c], r)
      | [] => inl ([c], r)
      end
    else if simple_esc c then inl ([c], r)
    else inr ErrEscape
  end.

Inductive qres := QOk (lit : list N) (rest : list achar) | QErr (e : lerr) | QFuel.
Definition qcons (l : list N) (r : qres) : qres :=
  match r with QOk lit rest => QOk (l ++ lit) rest | _ => r end.

(* cs = what follows the opening quote q; the result includes the closing quote *)
Fixpoint l_quoted (fuel : nat) (q : N) (cs : list achar) : qres :=
  match fuel with
  | O => QFuel
  | S n =>
    match cs with
    | [] => QErr (ErrEOFIn q)
    | a :: r =>
      let c := fst a in
      if c =? 92 then
        match l_escape r with
        | inl (e, r') => qcons (c :: e) (l_quoted n q r')
        | inr e => QErr e
        end
      else if c =? q then QOk [c] r
      else if c =? 0 then QErr (ErrNullIn q)      (* NUL is not a source character; the implementation rejects it *)
      else if c =? 10 then QErr (ErrNewlineIn q)
      else qcons [c] (l_quoted n q r)
    end
  end.

Fixpoint l_upto_nl (cs : list achar) : list achar :=          (* a // comment ends before the new-line *)
  match cs with
  | a :: r => if fst a =? 10 then cs else l_upto_nl r
  | [] => []
  end.

Fixpoint l_block (cs : list achar) : option (list achar) :=   (* cs follows the opening of a block comment; result follows its end *)
  match cs with
  | [] => None
  | a :: r =>
    match r with
    | [] => None
    | b :: r' => if (fst a =? 42) && (fst b =? 47) then Some r' else l_block r
    end
  end.

Definition p_op2 (r : list achar) (t1 t2 : kind) : kind * list achar :=
  match r with
  | b :: r' => if fst b =? 61 then (t2, r') else (t1, r)
  | [] => (t1, r)
  end.
Definition p_op3 (c : N) (r : list achar) (t1 t2 t3 : kind) : kind * list achar :=
  match r with
  | b :: r' => if fst b =? 61 then (t2, r') else if fst b =? c then (t3, r') else (t1, r)
  | [] => (t1, r)
  end.
Definition p_op4 (c : N) (r : list achar) (t1 t2 t3 t4 : kind) : kind * list achar :=
  match r with
  | b :: r' =>
    if fst b =? 61 then (t2, r')
    else if fst b =? c then
      match r' with
      | d :: r'' => if fst d =? 61 then (t4, r'') else (t3, r')
      | [] => (t3, r')
      end
    else (t1, r)
  | [] => (t1, r)
  end.

Inductive lres :=
| LTok (k : kind) (lit : option (list N)) (space : bool) (start rest : list achar)
| LErr (e : lerr)
| LFuel.

Definition l_quote (fuel : nat) (q : N) (k : kind) (pre : list N) (sp : bool) (start r : list achar) : lres :=
  match l_quoted fuel q r with
  | QOk lit rest => LTok k (Some (pre ++ lit)) sp start rest
  | QErr e => LErr e
  | QFuel => LFuel
  end.

Definition l_ident (pre : list N) (sp : bool) (start cs : list achar) : lres :=
  let p := l_span idchar cs in LTok TIDENT (Some (pre ++ fst p)) sp start (snd p).

Definition hd_is (cs : list achar) (k : N) : bool :=
  match cs with a :: _ => fst a =? k | [] => false end.
Definition hd_test (f : N -> bool) (cs : list achar) : bool :=
  match cs with a :: _ => f (fst a) | [] => false end.

(* one token: skip white space and comments (setting `space`), then the longest token *)
Fixpoint l_scankind (fuel : nat) (sp : bool) (cs : list achar) : lres :=
  match fuel with
  | O => LFuel
  | S n =>
    match cs with
    | [] => LTok TEOF None sp [] []
    | a :: r =>
      let c := fst a in
      let tok (p : kind * list achar) := LTok (fst p) None sp cs (snd p) in
      let one (k : kind) := LTok k None sp cs r in
      if wschar c then l_scankind n true r
      else if c =? 33 then tok (p_op2 r TLNOT TNEQ)
      else if c =? 34 then l_quote n 34 TSTRINGLIT [c] sp cs r
      else if c =? 35 then (if hd_is r 35 then LTok THASHHASH None sp cs (tl r) else one THASH)
      else if c =? 37 then tok (p_op2 r TMOD TMODASSIGN)
      else if c =? 38 then tok (p_op3 c r TBAND TBANDASSIGN TLAND)
      else if c =? 39 then l_quote n 39 TCHARCONST [c] sp cs r
      else if c =? 42 then tok (p_op2 r TMUL TMULASSIGN)
      else if c =? 43 then tok (p_op3 c r TADD TADDASSIGN TINC)
      else if c =? 45 then
        match p_op3 c r TSUB TSUBASSIGN TDEC with
        | (TSUB, r1) => if hd_is r1 62 then LTok TARROW None sp cs (tl r1) else LTok TSUB None sp cs r1
        | p => tok p
        end
      else if c =? 47 then
        match p_op2 r TDIV TDIVASSIGN with
        | (TDIV, r1) =>
          if hd_is r1 47 then l_scankind n true (l_upto_nl r1)
          else if hd_is r1 42 then
            match l_block (tl r1) with
            | Some rest => l_scankind n true rest
            | None => LErr ErrEOFInComment
            end
          else LTok TDIV None sp cs r1
        | p => tok p
        end
      else if c =? 60 then tok (p_op4 c r TLESS TLEQ TSHL TSHLASSIGN)
      else if c =? 61 then tok (p_op2 r TASSIGN TEQL)
      else if c =? 62 then tok (p_op4 c r TGREATER TGEQ TSHR TSHRASSIGN)
      else if c =? 94 then tok (p_op2 r TXOR TXORASSIGN)
      else if c =? 124 then tok (p_op3 c r TBOR TBORASSIGN TLOR)
      else if c =? 10 then one TNEWLINE
      else if c =? 91 then one TLBRACK
      else if c =? 93 then one TRBRACK
      else if c =? 40 then one TLPAREN
      else if c =? 41 then one TRPAREN
      else if c =? 123 then one TLBRACE
      else if c =? 125 then one TRBRACE
      else if c =? 46 then
        if hd_test digit r then
          let p := l_num false (tl r) in
          LTok TNUMBER (Some (c :: match r with d :: _ => fst d | [] => 0 end :: fst p)) sp cs (snd p)
        else if hd_is r 46 then
          (if hd_is (tl r) 46 then LTok TELLIPSIS None sp cs (tl (tl r)) else one TPERIOD)
        else one TPERIOD
      else if c =? 126 then one TBNOT
      else if c =? 63 then one TQUESTION
      else if c =? 58 then (if hd_is r 58 then LTok TCOLONCOLON None sp cs (tl r) else one TCOLON)
      else if c =? 59 then one TSEMICOLON
      else if c =? 44 then one TCOMMA
      else if (c =? 76) || (c =? 85) || (c =? 117) then
        (* an encoding prefix binds only to an immediately following quote *)
        let pre := if (c =? 117) && hd_is r 56 then [c; 56] else [c] in
        let r1 := if (c =? 117) && hd_is r 56 then tl r else r in
        if hd_is r1 39 then l_quote n 39 TCHARCONST (pre ++ [39]) sp cs (tl r1)
        else if hd_is r1 34 then l_quote n 34 TSTRINGLIT (pre ++ [34]) sp cs (tl r1)
        else l_ident pre sp cs r1
      else if digit c then
        let p := l_num false r in LTok TNUMBER (Some (c :: fst p)) sp cs (snd p)
      else if nondigit c then l_ident [] sp cs cs
      else LTok TOTHER (Some [c]) sp cs r
    end
  end.

(* the whole token list (without the final TEOF) *)
Record ltoken := mkltoken { lkind : kind; llit : option (list N); lspace : bool; lstart : list achar }.
Inductive lend := LEndEOF | LEndErr (e : lerr) | LEndFuel.

Fixpoint lex_all (fuel scanfuel : nat) (cs : list achar) : list ltoken * lend :=
  match fuel with
  | O => ([], LEndFuel)
  | S n =>
    match l_scankind scanfuel false cs with
    | LTok TEOF _ _ _ _ => ([], LEndEOF)
    | LTok k lit sp start rest =>
      let r := lex_all n scanfuel rest in (mkltoken k lit sp start :: fst r, snd r)
    | LErr e => ([], LEndErr e)
    | LFuel => ([], LEndFuel)
    end
  end.

(* 6.4.1: the keyword spellings (C11, the C23 additions, GNU alternative spellings) are those of the
   regenerated table; as a specification the table is read as an association list *)
Fixpoint list_eqb (a b : list N) : bool :=
  match a, b with
  | [], [] => true
  | x :: a', y :: b' => (x =? y) && list_eqb a' b'
  | _, _ => false
  end.
Fixpoint assoc (tbl : list (list N * kind)) (s : list N) : option kind :=
  match tbl with
  | (n, k) :: r => if list_eqb s n then Some k else assoc r s
  | [] => None
  end.
