(* Specification of source locations (C11 5.1.1.2 phases 1-2, 6.10.4 line control, GNU line markers).

   - every character of the source text has a physical (line, column): columns start at 1, every new-line
     character (also one that is part of a backslash-new-line splice or sits inside a comment) ends a
     physical line;
   - a token is located where its first character is;
   - `#line N`, `#line N "f"` and the marker form `# N "f" flags...` whose terminating new-line is on
     physical line q make physical line q+1+j the presumed line N+j (and f the presumed file);
   - N is a decimal digit sequence, at most 2147483647 (6.10.4p3); anything else: no requirement (the walk stops).

   `expected` yields the presumed location of every token that is not part of a directive and is not a new-line. *)
From Coq Require Import List NArith ZArith Bool.
From Cproc Require Import Gen.Keywords Spec.Lex.
Import ListNotations.
Open Scope N_scope.

Definition nextpos (x : N) (p : pos) : pos :=
  if x =? 10 then (fst p + 1, 1)%Z else (fst p, snd p + 1)%Z.

Fixpoint ann (p : pos) (text : list N) : list achar :=
  match text with
  | [] => []
  | x :: r => (x, p) :: ann (nextpos x p) r
  end.

Definition physical (text : list N) : list achar := ann (1, 1)%Z text.
Definition logical (text : list N) : list achar := phase2a (physical text).

Definition tokpos (t : ltoken) : pos :=
  match lstart t with a :: _ => snd a | [] => (0, 0)%Z end.

(* the value of a digit sequence *)
Fixpoint dec_value (l : list N) (acc : Z) : option Z :=
  match l with
  | [] => Some acc
  | c :: r => if digit c then dec_value r (acc * 10 + Z.of_N (c - 48))%Z else None
  end.

Definition line_number (lit : option (list N)) : option Z :=
  match lit with
  | Some (c :: r) =>
    match dec_value (c :: r) 0%Z with
    | Some v => if (v <=? 2147483647)%Z then Some v else None
    | None => None
    end
  | _ => None
  end.

Fixpoint upto_dquote (s : list N) : list N :=
  match s with
  | c :: r => if c =? 34 then [] else c :: upto_dquote r
  | [] => []
  end.

(* contents of an unprefixed string literal without any backslash (so: without escape sequences) *)
Definition file_plain (lit : option (list N)) : option (list N) :=
  match lit with
  | Some (34 :: r) =>
    let body := upto_dquote r in
    if existsb (fun c => c =? 92) body then None else Some body
  | _ => None
  end.

(* full rule: the s-char-sequence with the simple escapes for backslash and quotes decoded
   (what gcc does; other escapes: no requirement) *)
Fixpoint unescape (s : list N) : option (list N) :=
  match s with
  | [] => Some []
  | c :: r =>
    if c =? 92 then
      match r with
      | d :: r' =>
        if (d =? 92) || (d =? 34) || (d =? 39) || (d =? 63)
        then option_map (cons d) (unescape r') else None
      | [] => None
      end
    else option_map (cons c) (unescape r)
  end.
Definition file_full (lit : option (list N)) : option (list N) :=
  match lit with
  | Some (34 :: r) => unescape (removelast r)
  | _ => None
  end.

Definition s_line : list N := [108; 105; 110; 101].

Inductive mode :=
| MText (bol : bool)                 (* ordinary text; bol: only white space so far on this line *)
| MHash                              (* just after '#' at the beginning of a line *)
| MLineKw                            (* after `# line` *)
| MNum (n : Z) (f : option (list N)) (strok : bool).   (* after the line number; strok: a file name may still follow *)

Definition ploc := (list N * Z * Z)%type.     (* presumed file, line, column *)

Section Walk.
Variable fdec : option (list N) -> option (list N).    (* file name denoted by a string-literal spelling *)

Fixpoint walk (m : mode) (delta : Z) (file : list N) (toks : list ltoken) : list ploc :=
  match toks with
  | [] => []
  | t :: r =>
    match m with
    | MText bol =>
      match bol, lkind t with
      | true, THASH => walk MHash delta file r
      | _, TNEWLINE => walk (MText true) delta file r
      | _, _ => (file, fst (tokpos t) + delta, snd (tokpos t))%Z :: walk (MText false) delta file r
      end
    | MHash =>
      match lkind t with
      | TNEWLINE => walk (MText true) delta file r                         (* null directive *)
      | TNUMBER =>
        match line_number (llit t) with
        | Some n => walk (MNum n None true) delta file r
        | None => []
        end
      | TIDENT =>
        if match llit t with Some l => list_eqb l s_line | None => false end
        then walk MLineKw delta file r else []                             (* other directives: not specified here *)
      | _ => []
      end
    | MLineKw =>
      match lkind t with
      | TNUMBER =>
        match line_number (llit t) with
        | Some n => walk (MNum n None true) delta file r
        | None => []
        end
      | _ => []
      end
    | MNum n f strok =>
      match lkind t with
      | TSTRINGLIT =>
        if strok then
          match fdec (llit t) with
          | Some name => walk (MNum n (Some name) false) delta file r
          | None => []
          end
        else []
      | TNUMBER => walk (MNum n f false) delta file r                      (* marker flags *)
      | TNEWLINE =>
        (* the line after the one holding this new-line is line n *)
        walk (MText true) (n - (fst (tokpos t) + 1))%Z (match f with Some x => x | None => file end) r
      | _ => []
      end
    end
  end.

Definition expected (name text : list N) : list ploc :=
  let cs := logical text in
  let f := S (S (length text)) in
  walk (MText true) 0%Z name (fst (lex_all f f cs)).
End Walk.

(* physical position of every token of the raw token stream (no directive processing) *)
Definition expected_scan (text : list N) : list pos :=
  let f := S (S (length text)) in
  List.map tokpos (fst (lex_all f f (logical text))).
