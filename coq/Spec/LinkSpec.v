(* C09 - what C11 says about ONE identifier given the history of its declarations in a unit.

     6.2.2p3   file scope + static                      -> internal linkage
     6.2.2p4   extern: linkage of the VISIBLE prior declaration if that one has linkage, else external
     6.2.2p5   function without storage class: as if extern; file-scope object without: external
     6.2.2p6   everything else (block-scope objects without extern): no linkage
     6.2.2p7   internal and external linkage for the same identifier in one unit: undefined
     6.7p3     an identifier without linkage is declared at most once per scope
     6.7p4 / 6.2.7p2   object versus function: constraint in the same scope, undefined across scopes
     6.7.1p3   block-scope _Thread_local needs static or extern; _Thread_local in all declarations or none
     6.7.1p7   block-scope function declarations: no storage class other than extern
     6.7.9p5   a block-scope declaration of an identifier with linkage has no initializer
     6.9.2     initializer -> definition; file scope, no initializer, no extern -> tentative definition;
               a unit with tentative definitions only behaves as if it ended with `= 0`
               (read, as gcc and clang do, to cover `_Thread_local` / `static _Thread_local` too)
     6.9p3/p5  at most one external definition
     6.7.4p7   external linkage and every FILE-SCOPE declaration `inline` without `extern`
               -> the definition is an inline definition and provides no external definition

   The state is entity-centred (not declaration-record-centred as in the compiler): one optional
   entity with linkage for the identifier, plus what each open scope binds the identifier to.
   Assembler labels are an extension: the label of the entity's first declaration names the symbol,
   everything doubtful about labels is `Unspec XAsmLabel`.

   No proofs in this file. *)
From Coq Require Import List NArith Bool.
From Cproc Require Import Lib.LinkageBase.
Import ListNotations.

Inductive slink := Internal | External.
Inductive defstate := NoDef | Tentative | Defined.

Definition slink_eqb a b := match a, b with Internal, Internal | External, External => true | _, _ => false end.

Record entity := {
  e_link : slink;
  e_kind : kind;
  e_def : defstate;
  e_allinline : bool;     (* every file-scope declaration so far says `inline` and not `extern` *)
  e_anyinline : bool;     (* some declaration says `inline` *)
  e_thread : bool;
  e_asm : option N;
  e_used : bool
}.

(* what a scope binds the identifier to *)
Inductive vis :=
| VLinked                 (* the entity with linkage *)
| VLocal (thread : bool)  (* a block-scope static object of its own *)
| VAuto.                  (* an automatic object *)

Record sstate := {
  ss_frames : list (option vis);   (* innermost first, file scope last *)
  ss_ent : option entity;
  ss_anon : list bool;             (* block-scope statics defined so far, newest first *)
  ss_refs : list sref              (* newest first *)
}.

Inductive sres := SOk (s : sstate) | SReject | SUnspec (r : reason) | SIll.

Definition init_sstate : sstate := {| ss_frames := [None]; ss_ent := None; ss_anon := []; ss_refs := [] |}.

Definition dspec_kind (d : dspec) : kind := match d with DObj _ _ _ => KObj | DFunc _ _ _ _ => KFunc end.
Definition dspec_asm (d : dspec) : option N := match d with DObj _ a _ => a | DFunc _ _ a _ => a end.
Definition dspec_thread (d : dspec) : bool := match d with DObj sc _ _ => osc_thread sc | DFunc _ _ _ _ => false end.

(* 6.2.2p4: the linkage an `extern`-like declaration takes *)
Definition inherit (s : sstate) : slink :=
  match lookup (ss_frames s), ss_ent s with
  | Some VLinked, Some e => e_link e
  | _, _ => External
  end.

Inductive dlink := DNoLink | DLinked (l : slink).

Definition decl_linkage (s : sstate) (file : bool) (d : dspec) : dlink :=
  match d with
  | DObj sc _ _ =>
    if osc_static sc then (if file then DLinked Internal else DNoLink)      (* p3, p6 *)
    else if osc_extern sc then DLinked (inherit s)                          (* p4 *)
    else if file then DLinked External else DNoLink                         (* p5, p6 *)
  | DFunc sc _ _ _ =>
    if fsc_static sc then DLinked Internal                                  (* p3 *)
    else DLinked (inherit s)                                                (* p5 -> p4 *)
  end.

(* constraints that depend on the specifiers and the scope only *)
Definition specifier_reject (file : bool) (d : dspec) : bool :=
  match d with
  | DObj sc _ _ => negb file && osc_thread_only sc                          (* 6.7.1p3 *)
  | DFunc sc _ asm body =>
    (negb file && fsc_static sc)                                            (* 6.7.1p7 *)
    || (body && (negb file || match asm with Some _ => true | None => false end))   (* no nested definitions; no label on a definition *)
  end.

Definition set_frame (s : sstate) (v : vis) (parents : list (option vis)) (e : option entity) (anon : list bool) : sstate :=
  {| ss_frames := Some v :: parents; ss_ent := e; ss_anon := anon; ss_refs := ss_refs s |}.

Definition with_def (e : entity) (d : defstate) : entity :=
  {| e_link := e_link e; e_kind := e_kind e; e_def := d; e_allinline := e_allinline e; e_anyinline := e_anyinline e;
     e_thread := e_thread e; e_asm := e_asm e; e_used := e_used e |}.
Definition with_inline (e : entity) (alli anyi : bool) : entity :=
  {| e_link := e_link e; e_kind := e_kind e; e_def := e_def e; e_allinline := alli; e_anyinline := anyi;
     e_thread := e_thread e; e_asm := e_asm e; e_used := e_used e |}.
Definition with_used (e : entity) : entity :=
  {| e_link := e_link e; e_kind := e_kind e; e_def := e_def e; e_allinline := e_allinline e; e_anyinline := e_anyinline e;
     e_thread := e_thread e; e_asm := e_asm e; e_used := true |}.

Definition new_entity (l : slink) (d : dspec) : entity :=
  {| e_link := l; e_kind := dspec_kind d; e_def := NoDef; e_allinline := true; e_anyinline := false;
     e_thread := dspec_thread d; e_asm := dspec_asm d; e_used := false |}.

(* 6.9p3 (constraint, internal linkage) / 6.9p5 (undefined, external linkage) *)
Definition redefinition (e : entity) : sres :=
  match e_link e with Internal => SReject | External => SUnspec UExternalRedefinition end.

(* the declaration applied to the (existing or fresh) entity *)
Definition apply_decl (file : bool) (e : entity) (d : dspec) : entity + sres :=
  match d with
  | DObj sc _ init =>
    if init then
      match e_def e with
      | Defined => inr (redefinition e)
      | _ => inl (with_def e Defined)
      end
    else if osc_extern sc then inl e
    else match e_def e with
         | NoDef => inl (with_def e Tentative)                  (* 6.9.2p2 *)
         | _ => inl e
         end
  | DFunc sc inl_ _ body =>
    let e1 := with_inline e (if file then e_allinline e && inl_ && negb (fsc_extern sc) else e_allinline e)
                            (e_anyinline e || inl_) in
    if body then
      match e_def e1 with
      | Defined => inr (redefinition e1)
      | _ => inl (with_def e1 Defined)
      end
    else inl e1
  end.

(* a label may be omitted when the entity has none, or when this scope or file scope already declares the entity *)
Definition label_ok (e : entity) (asm : option N) (same : option vis) (frames : list (option vis)) : bool :=
  match asm with
  | Some a => optN_eqb (e_asm e) (Some a)
  | None =>
    match e_asm e with
    | None => true
    | Some _ =>
      match same, last frames None with
      | Some VLinked, _ => true
      | _, Some VLinked => true
      | _, _ => false
      end
    end
  end.

Definition spec_decl (s : sstate) (d : dspec) : sres :=
  match ss_frames s with
  | [] => SIll
  | same :: parents =>
    let file := is_nil parents in
    if specifier_reject file d then SReject else
    match same, decl_linkage s file d with
    | Some (VLocal _), _ | Some VAuto, _ => SReject                           (* 6.7p3 *)
    | Some VLinked, DNoLink => SReject                                        (* 6.7p3 *)
    | None, DNoLink =>
      match d with
      | DObj sc asm _ =>
        match asm with
        | Some _ => SUnspec XAsmLabel
        | None =>
          if osc_static sc then SOk (set_frame s (VLocal (osc_thread sc)) parents (ss_ent s) (osc_thread sc :: ss_anon s))
          else SOk (set_frame s VAuto parents (ss_ent s) (ss_anon s))
        end
      | DFunc _ _ _ _ => SIll
      end
    | _, DLinked l =>
      let checked :=
        match ss_ent s with
        | None => inl (new_entity l d)
        | Some e =>
          if negb (kind_eqb (e_kind e) (dspec_kind d)) then
            inr (match same with Some VLinked => SReject | _ => SUnspec UKindAcrossScopes end)   (* 6.7p4 / 6.2.7p2 *)
          else if negb (slink_eqb (e_link e) l) then inr (SUnspec UBothLinkages)                 (* 6.2.2p7 *)
          else if negb (Bool.eqb (e_thread e) (dspec_thread d)) then inr (SUnspec XThreadMismatch)  (* 6.7.1p3 *)
          else if negb (label_ok e (dspec_asm d) same (ss_frames s)) then inr (SUnspec XAsmLabel)
          else inl e
        end in
      match checked with
      | inr r => r
      | inl e =>
        if negb file && match d with DObj _ _ init => init | DFunc _ _ _ _ => false end then SReject   (* 6.7.9p5 *)
        else match apply_decl file e d with
             | inr r => r
             | inl e' => SOk (set_frame s VLinked parents (Some e') (ss_anon s))
             end
      end
    end
  end.

Definition with_sframes (s : sstate) (fr : list (option vis)) : sstate :=
  {| ss_frames := fr; ss_ent := ss_ent s; ss_anon := ss_anon s; ss_refs := ss_refs s |}.

Definition spec_step (s : sstate) (it : item) : sres :=
  match it with
  | IOpen =>
    match ss_frames s with
    | [] => SIll
    | [f] => SOk (with_sframes s [None; None; f])     (* the wrapper's (empty) parameter scope and its body block *)
    | fr => SOk (with_sframes s (None :: fr))
    end
  | IClose =>
    match ss_frames s with
    | _ :: ((_ :: _ :: _ :: _) as fr) => SOk (with_sframes s fr)
    | [_; _; f] => SOk (with_sframes s [f])
    | _ => SIll
    end
  | IBump => SOk s
  | IUse =>
    match ss_frames s with
    | [] | [_] => SIll
    | fr =>
      match lookup fr with
      | None => SReject                               (* 6.5.1p2: undeclared identifier *)
      | Some VAuto => SOk {| ss_frames := fr; ss_ent := ss_ent s; ss_anon := ss_anon s; ss_refs := RAuto :: ss_refs s |}
      | Some (VLocal t) => SOk {| ss_frames := fr; ss_ent := ss_ent s; ss_anon := ss_anon s; ss_refs := RAnon t :: ss_refs s |}
      | Some VLinked =>
        match ss_ent s with
        | None => SIll
        | Some e => SOk {| ss_frames := fr; ss_ent := Some (with_used e); ss_anon := ss_anon s;
                           ss_refs := RLinked (symname_of (e_asm e)) (e_thread e) :: ss_refs s |}
        end
      end
    end
  | IDecl d => spec_decl s d
  end.

Fixpoint spec_steps (s : sstate) (h : list item) : sres :=
  match h with
  | [] => SOk s
  | it :: h' => match spec_step s it with SOk s' => spec_steps s' h' | r => r end
  end.

Definition entity_def (e : entity) : ldef :=
  {| ld_name := symname_of (e_asm e); ld_kind := e_kind e; ld_thread := e_thread e;
     ld_export := match e_link e with External => true | Internal => false end |}.

(* end of the translation unit *)
Definition spec_finish (s : sstate) : outcome :=
  match ss_frames s with
  | [_] =>
    let acc l := Accept {| st_linked := l; st_anon := rev (ss_anon s); st_refs := rev (ss_refs s) |} in
    match ss_ent s with
    | None => acc []
    | Some e =>
      match e_kind e, e_def e with
      | KObj, NoDef => acc []
      | KObj, _ => acc [entity_def e]                                    (* 6.9.2p2: exactly one definition *)
      | KFunc, Defined =>
        match e_link e with
        | Internal => acc [entity_def e]
        | External => if e_allinline e then acc [] else acc [entity_def e]   (* 6.7.4p7 *)
        end
      | KFunc, _ =>
        match e_link e with
        | External => if e_anyinline e then Unspec UInlineNeverDefined else acc []
        | Internal => if e_used e then Unspec XInternalUsedUndefined else acc []
        end
      end
    end
  | _ => Ill
  end.

Definition run (h : list item) : outcome :=
  match spec_steps init_sstate h with
  | SOk s => spec_finish s
  | SReject => Reject
  | SUnspec r => Unspec r
  | SIll => Ill
  end.

(* ---- the two places where the compiler is KNOWN to deviate; the headline theorem excludes them ---- *)
(* D19: a file-scope declaration that is not `inline`, or is `extern`, after the body of a so-far-inline definition *)
Definition dev_inline_late (s : sstate) (file : bool) (d : dspec) : bool :=
  file && match d, ss_ent s with
          | DFunc sc inl_ _ _, Some e =>
            kind_eqb (e_kind e) KFunc && slink_eqb (e_link e) External && e_allinline e
            && match e_def e with Defined => true | _ => false end
            && negb (inl_ && negb (fsc_extern sc))
          | _, _ => false
          end.
(* a further tentative definition, or an initializer after a tentative definition, of a thread-local object *)
Definition dev_thread_tentative (s : sstate) (file : bool) (d : dspec) : bool :=
  file && match d, ss_ent s with
          | DObj sc _ init, Some e =>
            kind_eqb (e_kind e) KObj && e_thread e
            && match e_def e with
               | NoDef => false
               | Tentative => init || negb (osc_extern sc)       (* rejected as a redefinition / defined twice *)
               | Defined => negb init && negb (osc_extern sc)    (* defined twice *)
               end
          | _, _ => false
          end.

Definition known_dev (s : sstate) (it : item) : bool :=
  match it, ss_frames s with
  | IDecl d, same :: parents =>
    let file := is_nil parents in
    dev_inline_late s file d || dev_thread_tentative s file d
  | _, _ => false
  end.

Fixpoint devs_from (s : sstate) (h : list item) : bool :=
  match h with
  | [] => false
  | it :: h' => known_dev s it || match spec_step s it with SOk s' => devs_from s' h' | _ => false end
  end.
Definition known_devs (h : list item) : bool := devs_from init_sstate h.

Definition specified (o : outcome) : bool := match o with Unspec _ => false | _ => true end.
