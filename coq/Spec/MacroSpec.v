(* C12 - SPECIFICATION of macro replacement (C11 6.10.3) on the implemented subset, as an executable
   function over token lists: the hide-set ("Prosser") algorithm.

   Every token carries the set of macro names it must not be replaced by (its hide set).  A macro
   invocation is replaced by its replacement list with (6.10.3.1) every parameter used normally replaced by
   the COMPLETELY macro-expanded argument (expanded in isolation, "as if it formed the rest of the file"),
   (6.10.3.2) every `# parameter` replaced by the spelling of the UNEXPANDED argument, and the result is
   rescanned together with the rest of the input (6.10.3.4); the tokens of the result get the macro's name
   added to their hide sets, a token found in its own hide set is painted and never replaced later.

   The one place where C11 leaves the result open (6.10.3.4p4: an invocation that begins in a replacement
   list and is completed by tokens following it) is handled by a policy flag: `true` = the hide set of the
   result is (HS(name) ∩ HS(')')) ∪ {name} (Prosser; "not nested"), `false` = HS(name) ∪ {name} ("nested").
   `spec_run` answers SUnspec when the two readings give different token sequences.

   This file shares only the DATA TYPES (token, macro, table) with the model. *)
From Coq Require Import List NArith Arith Bool String.
From Cproc Require Import Model.PP.
Import ListNotations.
Open Scope list_scope.

Inductive sres (A : Type) :=
| SOk (a : A)
| SErr            (* constraint violation: a diagnostic is required *)
| SUnspec         (* unspecified or undefined by C11 *)
| SUnsupported    (* outside the implemented subset: #if family, #include, #error, ## *)
| SFuel.
Arguments SOk {A} a.
Arguments SErr {A}.
Arguments SUnspec {A}.
Arguments SUnsupported {A}.
Arguments SFuel {A}.

Definition sbind {A B} (r : sres A) (f : A -> sres B) : sres B :=
  match r with
  | SOk a => f a
  | SErr => SErr
  | SUnspec => SUnspec
  | SUnsupported => SUnsupported
  | SFuel => SFuel
  end.

Fixpoint smapM {A B} (f : A -> sres B) (l : list A) : sres (list B) :=
  match l with
  | [] => SOk []
  | a :: r => sbind (f a) (fun b => sbind (smapM f r) (fun bs => SOk (b :: bs)))
  end.

(* ------------------------------------------------------------------ spelling (6.10.3.2p2) *)
(* new-line inside an argument is white space: drop it, the next token is preceded by white space *)
Fixpoint ws_norm (pending : bool) (l : list token) : list token :=
  match l with
  | [] => []
  | t :: r =>
      if is_kind KNewline t then ws_norm true r
      else (if pending then set_space true t else t) :: ws_norm false r
  end.

Definition tok_spelling (t : token) : str :=
  if is_kind KString t || is_kind KChar t then escape (lit t) else lit t.

Fixpoint join (first : bool) (l : list token) : str :=
  match l with
  | [] => []
  | t :: r => (if space t && negb first then [c_space] else []) ++ tok_spelling t ++ join false r
  end.

(* the character string literal for an argument: no leading/trailing white space, one space between
   tokens that were separated by white space, a backslash before every double quote and backslash inside
   string literals and character constants *)
Definition spelling (l : list token) : str := c_quote :: join true (ws_norm false l) ++ [c_quote].

(* ------------------------------------------------------------------ definitions (6.10.3p1-5) *)
Fixpoint nodup_str (l : list str) : bool :=
  match l with
  | [] => true
  | a :: r => negb (mem_str a r) && nodup_str r
  end.

(* identifier-list [, ...] | ... | empty, up to ')' *)
Fixpoint parse_params (l : list token) (acc : list param) (need_comma : bool) : sres (list param * list token) :=
  match l with
  | [] => SErr
  | t :: r =>
      if is_kind KRparen t then
        (if need_comma || match acc with [] => true | _ => false end then SOk (List.rev acc, r) else SErr)
      else if need_comma then
        (if is_kind KComma t then
           match acc with
           | p :: _ => if pvar p then SErr else parse_params r acc false
           | [] => SErr
           end
         else SErr)
      else if is_kind KEllipsis t then parse_params r (mkParam s_vaargs false false true :: acc) true
      else if is_kind KIdent t then
        (if str_eqb (lit t) s_vaargs then SErr else parse_params r (mkParam (lit t) false false false :: acc) true)
      else SErr
  end.

Definition is_param (ps : list param) (t : token) : bool :=
  is_kind KIdent t && mem_str (lit t) (List.map pname ps).

(* constraints on a replacement list *)
Fixpoint check_body (func variadic : bool) (ps : list param) (l : list token) : sres unit :=
  match l with
  | [] => SOk tt
  | t :: r =>
      if is_kind KHashHash t then SUnsupported
      else if is_kind KIdent t && str_eqb (lit t) s_vaargs && negb variadic then SErr
      else if func && is_kind KHash t then
        match r with
        | p :: r' => if is_param ps p then check_body func variadic ps r' else SErr
        | [] => SErr
        end
      else check_body func variadic ps r
  end.

Definition is_variadic (ps : list param) : bool := existsb pvar ps.

(* the tokens of a #define line after `define` (without the new-line) *)
Definition parse_define (l : list token) : sres macro :=
  match l with
  | n :: r =>
      if negb (is_kind KIdent n) then SErr
      else
        match r with
        | lp :: r1 =>
            if is_kind KLparen lp && negb (space lp) then
              sbind (parse_params r1 [] false) (fun '(ps, body) =>
                if negb (nodup_str (List.map pname ps)) then SErr
                else sbind (check_body true (is_variadic ps) ps body) (fun _ =>
                       SOk (mkMacro true (lit n) false ps [] body)))
            else sbind (check_body false false [] r) (fun _ => SOk (mkMacro false (lit n) false [] [] r))
        | [] => SOk (mkMacro false (lit n) false [] [] [])
        end
  | [] => SErr
  end.

(* 6.10.3p2: same kind, same parameters (number, spelling), same replacement list: number, ordering,
   spelling and white-space separation of the tokens (all white-space separations are equivalent) *)
Inductive same_body : bool -> list token -> list token -> Prop :=
| sb_nil : forall f, same_body f [] []
| sb_cons : forall f t u a b,
    kind_ t = kind_ u -> lit t = lit u -> (f = false -> space t = space u) ->
    same_body false a b -> same_body f (t :: a) (u :: b).

Definition same_def (m1 m2 : macro) : Prop :=
  mfunc m1 = mfunc m2 /\
  (mfunc m1 = true -> List.map pname (mparams m1) = List.map pname (mparams m2) /\
                      List.map pvar (mparams m1) = List.map pvar (mparams m2)) /\
  same_body true (mbody m1) (mbody m2).

(* executable version used by the specification's own #define *)
Definition same_defb (m1 m2 : macro) : bool :=
  Bool.eqb (mfunc m1) (mfunc m2)
  && (if mfunc m1 then
        (List.length (mparams m1) =? List.length (mparams m2))%nat
        && forallb (fun pq => str_eqb (pname (fst pq)) (pname (snd pq)) && Bool.eqb (pvar (fst pq)) (pvar (snd pq)))
                   (List.combine (mparams m1) (mparams m2))
      else true)
  && toks_eqb true (mbody m1) (mbody m2).

(* ------------------------------------------------------------------ hide sets *)
Definition hs := list str.
Record htok := mkH { tk : token; hset : hs }.

Definition hs_union (a b : hs) : hs := a ++ List.filter (fun x => negb (mem_str x a)) b.
Definition hs_inter (a b : hs) : hs := List.filter (fun x => mem_str x b) a.
Definition hs_add (h : hs) (l : list htok) : list htok :=
  List.map (fun x => mkH (tk x) (hs_union (hset x) h)) l.

Definition set_space_first (sp : bool) (l : list htok) : list htok :=
  match l with
  | [] => []
  | x :: r => mkH (set_space sp (tk x)) (hset x) :: r
  end.

(* the first token of a replacement list inherits the white space that preceded the macro name *)
Definition set_space_hd (sp : bool) (l : list token) : list token :=
  match l with
  | [] => []
  | t :: r => set_space sp t :: r
  end.

(* does parameter `n` occur in the replacement list outside `# n` ? *)
Fixpoint used_plain (func : bool) (n : str) (l : list token) : bool :=
  match l with
  | [] => false
  | t :: r =>
      if func && is_kind KHash t then match r with _ :: r' => used_plain func n r' | [] => false end
      else (is_kind KIdent t && str_eqb (lit t) n) || used_plain func n r
  end.

(* substitution: raw = the arguments as written, exp = the fully expanded arguments *)
Fixpoint subst (func : bool) (ps : list param) (raw exp : list (list htok)) (body : list token) : list htok :=
  match body with
  | [] => []
  | t :: r =>
      if func && is_kind KHash t then
        match r with
        | p :: r' =>
            match macroparam ps p with
            | Some i => mkH (mkTok KString (spelling (List.map tk (nth i raw []))) (space t) false) []
                        :: subst func ps raw exp r'
            | None => mkH t [] :: subst func ps raw exp r
            end
        | [] => [mkH t []]
        end
      else
        match (if func then macroparam ps t else None) with
        | Some i => set_space_first (space t) (nth i exp []) ++ subst func ps raw exp r
        | None => mkH t [] :: subst func ps raw exp r
        end
  end.

(* ------------------------------------------------------------------ argument collection *)
(* The input of the expander: tokens produced by earlier replacements (with hide sets) followed by the
   source tokens not yet read. *)
Definition spop (pend : list htok) (l : list token) : option (htok * list htok * list token * bool) :=
  match pend with
  | h :: p => Some (h, p, l, false)
  | [] => match l with
          | t :: r => Some (mkH t [], [], r, true)
          | [] => None
          end
  end.

Record acoll := mkA {
  a_cur : list htok;               (* current argument, reversed *)
  a_done : list (list htok);       (* finished arguments, reversed *)
  a_commas : list htok;            (* the separating commas, reversed *)
  a_paren : nat;
  a_ws : bool;                     (* a new-line was skipped: next token is preceded by white space *)
  a_bol : bool }.                  (* at the beginning of a source line *)

(* reads up to the matching ')'.  Result: arguments, commas, hide set of ')', rest of the input *)
Fixpoint sargs (fuel : nat) (pend : list htok) (l : list token) (a : acoll)
  : sres (list (list htok) * list htok * hs * list htok * list token) :=
  match fuel with
  | O => SFuel
  | S fuel' =>
      match spop pend l with
      | None => SErr                                   (* no terminating ')' : 6.10.3p4 *)
      | Some (h, p, r, fromsrc) =>
          let t := tk h in
          if fromsrc && a_bol a && is_kind KHash t then SUnspec           (* 6.10.3p11 *)
          else if is_kind KNewline t then sargs fuel' p r (mkA (a_cur a) (a_done a) (a_commas a) (a_paren a) true true)
          else
            let h1 := if a_ws a then mkH (set_space true t) (hset h) else h in
            if is_kind KRparen t && Nat.eqb (a_paren a) 0 then
              SOk (List.rev (List.rev (a_cur a) :: a_done a), List.rev (a_commas a), hset h, p, r)
            else if is_kind KComma t && Nat.eqb (a_paren a) 0 then
              sargs fuel' p r (mkA [] (List.rev (a_cur a) :: a_done a) (h1 :: a_commas a) 0 false false)
            else
              let par := if is_kind KLparen t then S (a_paren a)
                         else if is_kind KRparen t then pred (a_paren a) else a_paren a in
              sargs fuel' p r (mkA (h1 :: a_cur a) (a_done a) (a_commas a) par false false)
      end
  end.

(* merge the arguments from index k on (the variable arguments), commas included *)
Fixpoint merge_va (args : list (list htok)) (commas : list htok) : list htok :=
  match args with
  | [] => []
  | [a] => a
  | a :: r => match commas with
              | c :: cs => a ++ c :: merge_va r cs
              | [] => a ++ merge_va r []
              end
  end.

(* match arguments with parameters (6.10.3p4, p12) *)
Definition bind_args (ps : list param) (args : list (list htok)) (commas : list htok) : sres (list (list htok)) :=
  let n := List.length ps in
  if is_variadic ps then
    (* strictly more arguments than named parameters *)
    if Nat.leb n (List.length args)
    then SOk (List.firstn (n - 1) args ++ [merge_va (List.skipn (n - 1) args) (List.skipn (n - 1) commas)])
    else SErr
  else
    match n with
    | O => match args with [[]] => SOk [] | _ => SErr end
    | _ => if Nat.eqb (List.length args) n then SOk args else SErr
    end.

(* ------------------------------------------------------------------ the expander *)
(* Is the next token of the source a '(' ?  New-lines are skipped.  When directive lines lie between the
   macro name and the '(' C11 does not settle whether this is an invocation (gcc and clang say no, cproc
   says yes): LpDirective. *)
Inductive lp_result := LpFound (rest : list token) | LpNone | LpDirective.

Fixpoint find_lparen (l : list token) (bol indir sawdir : bool) : lp_result :=
  match l with
  | [] => LpNone
  | t :: r =>
      if is_kind KNewline t then find_lparen r true false sawdir
      else if indir then find_lparen r false true sawdir
      else if bol && is_kind KHash t then find_lparen r false true true
      else if is_kind KLparen t then (if sawdir then LpDirective else LpFound r)
      else LpNone
  end.

Definition painted (t : token) : token := set_hide t.

Fixpoint take_line (l : list token) (acc : list token) : list token * list token :=
  match l with
  | [] => (List.rev acc, [])
  | t :: r => if is_kind KNewline t then (List.rev acc, r) else take_line r (t :: acc)
  end.

Definition no_macro_names (tb : table) (l : list token) : bool :=
  forallb (fun t => negb (is_kind KIdent t && match macroget tb (lit t) with Some _ => true | None => false end)) l.

(* a directive line (tokens after '#', without the new-line): the new table *)
Definition sdirective (tb : table) (line : list token) : sres table :=
  match line with
  | [] => SOk tb
  | d :: r =>
      if is_kind KNumber d then SOk tb
      else if negb (is_kind KIdent d) then SErr
      else if mem_str (lit d) unimplemented then SUnsupported
      else if str_eqb (lit d) s_define then
        sbind (parse_define r) (fun m =>
          match macroget tb (mname m) with
          | Some old => if same_defb m old then SOk (tbl_put tb (mname m) m) else SErr
          | None => SOk (tbl_put tb (mname m) m)
          end)
      else if str_eqb (lit d) s_undef then
        match r with
        | [n] => if is_kind KIdent n then SOk (tbl_remove tb (lit n)) else SErr
        | _ => SErr
        end
      else if str_eqb (lit d) s_line then
        match r with
        | n :: _ => if is_kind KNumber n then SOk tb else SUnspec   (* 6.10.4p5: any other form is undefined *)
        | [] => SUnspec
        end
      (* 6.10.6: whatever an implementation does with the tokens of a pragma (macro replacement is permitted, not
         required), the directive ends at its new-line: nothing of the following lines belongs to it *)
      else if str_eqb (lit d) s_pragma then SOk tb
      else SErr
  end.

(* sgo: expand the input (pend ++ source).  `top` = the source may contain directives and new-lines are
   passed through (file level); in an isolated argument top = false and l = []. *)
Fixpoint sgo (fuel : nat) (pol : bool) (tb : table) (pend : list htok) (l : list token) (bol : bool)
  : sres (list htok) :=
  match fuel with
  | O => SFuel
  | S fuel' =>
      match spop pend l with
      | None => SOk []
      | Some (h, p, r, fromsrc) =>
          let t := tk h in
          if fromsrc && bol && is_kind KHash t then
            (* directive *)
            let '(line, rest) := take_line r [] in
            if Nat.eqb (List.length line) (List.length r) then SUnspec  (* no new-line before EOF: 5.1.1.2p2 *)
            else sbind (sdirective tb line) (fun tb' => sgo fuel' pol tb' [] rest true)
          else
            let emit (x : htok) (nbol : bool) := sbind (sgo fuel' pol tb p r nbol) (fun o => SOk (x :: o)) in
            if is_kind KNewline t then emit h true
            else if negb (is_kind KIdent t) then emit h false
            else
              match macroget tb (lit t) with
              | None => emit (mkH (painted t) (hset h)) false
              | Some m =>
                  if hide t || mem_str (lit t) (hset h) then emit (mkH (painted t) (hset h)) false
                  else if negb (mfunc m) then
                    sgo fuel' pol tb
                        (hs_add (lit t :: hset h) (subst false [] [] [] (set_space_hd (space t) (mbody m))) ++ p) r false
                  else
                    (* function-like: is the next token '(' ? *)
                    let call :=
                      match p with
                      | x :: p' => if is_kind KLparen (tk x) then SOk (Some (p', r)) else SOk None
                      | [] => match find_lparen r false false false with
                              | LpFound r' => SOk (Some ([], r'))
                              | LpNone => SOk None
                              | LpDirective => SUnspec
                              end
                      end in
                    match call with
                    | SErr => SErr | SUnspec => SUnspec | SUnsupported => SUnsupported | SFuel => SFuel
                    | SOk None => emit h false
                    | SOk (Some (p1, r1)) =>
                        sbind (sargs fuel' p1 r1 (mkA [] [] [] 0 false false)) (fun '(args, commas, hs', p2, r2) =>
                        sbind (bind_args (mparams m) args commas) (fun raw =>
                        sbind (smapM (fun ia : nat * list htok =>
                                        if used_plain true (pname (nth_param (mparams m) (fst ia))) (mbody m)
                                        then sgo fuel' pol tb (snd ia) [] false else SOk [])
                                     (List.combine (List.seq 0 (List.length raw)) raw)) (fun exp =>
                        let newhs := lit t :: (if pol then hs_inter (hset h) hs' else hset h) in
                        sgo fuel' pol tb
                            (hs_add newhs (subst true (mparams m) raw exp (set_space_hd (space t) (mbody m))) ++ p2)
                            r2 false)))
                    end
              end
      end
  end.

Definition out_eqb (a b : list htok) : bool :=
  (List.length a =? List.length b)%nat
  && forallb (fun xy => kind_eqb (kind_ (tk (fst xy))) (kind_ (tk (snd xy))) && str_eqb (lit (tk (fst xy))) (lit (tk (snd xy))))
             (List.combine a b).

(* the specified result of preprocessing the token list l with the macros tb already defined *)
Definition spec_run (fuel : nat) (tb : table) (l : list token) : sres (list token) :=
  match sgo fuel true tb [] l true with
  | SOk a =>
      match sgo fuel false tb [] l true with
      | SOk b => if out_eqb a b then SOk (List.map tk a) else SUnspec
      | SFuel => SFuel
      | _ => SUnspec
      end
  | SErr => SErr
  | SUnspec => SUnspec
  | SUnsupported => SUnsupported
  | SFuel => SFuel
  end.

(* Prosser's reading alone (what gcc and clang implement), for comparison on unspecified inputs *)
Definition spec_prosser (fuel : nat) (tb : table) (l : list token) : sres (list token) :=
  sbind (sgo fuel true tb [] l true) (fun a => SOk (List.map tk a)).
