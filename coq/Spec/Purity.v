(* C20: the compiler proper references no environment-, time-, address- or locale-dependent facility.
   The lists of external symbols, printf-family format strings and map-iteration sites are
   regenerated from /repo's source on every run (coq/Gen/PurityGen.v); this file holds the
   decision procedure and its meaning. *)
From Coq Require Import List String Bool Ascii.
Import ListNotations.
Local Open Scope string_scope.

(* libc entry points whose result depends on something other than the input text / options *)
Definition forbidden : list string :=
  [ "getenv"; "secure_getenv"; "putenv"; "setenv"; "time"; "clock"; "clock_gettime"; "gettimeofday";
    "localtime"; "localtime_r"; "gmtime"; "gmtime_r"; "strftime"; "ctime"; "asctime";
    "rand"; "srand"; "random"; "srandom"; "rand_r"; "drand48"; "getrandom"; "arc4random";
    "setlocale"; "newlocale"; "uselocale"; "nl_langinfo";
    "getpid"; "getppid"; "getuid"; "geteuid"; "getgid"; "getcwd"; "get_current_dir_name"; "uname"; "gethostname";
    "tmpnam"; "tempnam"; "mkstemp"; "mktemp"; "tmpfile"; "sbrk"; "getrusage"; "times"; "sysconf";
    "readdir"; "opendir"; "scandir"; "glob"; "stat"; "fstat"; "lstat"; "isatty"; "ttyname" ].

Definition mem_str (s : string) (l : list string) : bool := existsb (String.eqb s) l.

Definition used_forbidden (externs : list string) : list string :=
  filter (fun e => mem_str e forbidden) externs.

(* "%p" anywhere in a format string prints an address *)
Fixpoint has_pct_p (s : string) : bool :=
  match s with
  | EmptyString => false
  | String c rest =>
    match rest with
    | String d _ => (Ascii.eqb c "%" && Ascii.eqb d "p") || has_pct_p rest
    | EmptyString => false
    end
  end.

Definition addr_formats (formats : list string) : list string := filter has_pct_p formats.

(* functions allowed to walk the slots of a hash table (their visible effect does not depend on slot order:
   mapfree frees everything; checklabels only decides whether to report an error, and slot order is a
   function of the key bytes, not of addresses) *)
Definition allowed_map_walkers : list string :=
  [ "map.c:mapinit"; "map.c:mapput"; "map.c:mapfree"; "qbe.c:checklabels" ].

Definition bad_map_walkers (sites : list string) : list string :=
  filter (fun s => negb (mem_str s allowed_map_walkers)) sites.

Definition pure_sources (externs formats sites : list string) : bool :=
  match used_forbidden externs, addr_formats formats, bad_map_walkers sites with
  | [], [], [] => true
  | _, _, _ => false
  end.

Lemma pure_sources_spec externs formats sites :
  pure_sources externs formats sites = true ->
  (forall e, In e externs -> ~ In e forbidden) /\
  (forall f, In f formats -> has_pct_p f = false) /\
  (forall s, In s sites -> In s allowed_map_walkers).
Proof.
  unfold pure_sources.
  destruct (used_forbidden externs) eqn:E1; [|discriminate].
  destruct (addr_formats formats) eqn:E2; [|discriminate].
  destruct (bad_map_walkers sites) eqn:E3; [|discriminate].
  intros _. repeat split.
  - intros e He Hf.
    assert (In e (used_forbidden externs)).
    { unfold used_forbidden. apply filter_In. split; [exact He|].
      unfold mem_str. apply existsb_exists. exists e. split; [exact Hf|apply String.eqb_refl]. }
    rewrite E1 in H. destruct H.
  - intros f Hf. destruct (has_pct_p f) eqn:E; [|reflexivity].
    assert (In f (addr_formats formats)) by (unfold addr_formats; apply filter_In; auto).
    rewrite E2 in H. destruct H.
  - intros s Hs. destruct (mem_str s allowed_map_walkers) eqn:E.
    + unfold mem_str in E. apply existsb_exists in E. destruct E as (x & Hx & Ex).
      apply String.eqb_eq in Ex. subst. exact Hx.
    + assert (In s (bad_map_walkers sites)).
      { unfold bad_map_walkers. apply filter_In. split; [exact Hs|]. rewrite E. reflexivity. }
      rewrite E3 in H. destruct H.
Qed.
