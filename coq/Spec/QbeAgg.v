(* C08 - specification side: what an aggregate type description MEANS to the backend.

   QBE's own layout rule for `type :t = [align N] { ... }` (written from QBE's parse.c:
   parsetyp / parsefields), the flattened field list (offset, size, int|float) a description
   denotes, and the register classification the three ABIs compute from such a list
   (QBE amd64/sysv.c typclass/classify, arm64/abi.c isfloatv/typclass, rv64/abi.c typclass).
   The same classifiers are applied to the flattened list of the C declaration, so that
   "equal lists => equal classification" is a one-line lemma.

   Mathematical integers; alignments are byte counts (powers of two).  NO proofs here. *)
From Coq Require Import ZArith List Bool.
From Cproc Require Import Model.Layout Spec.AbiLayout.     (* roundup (C06's ABI specification) *)
Import ListNotations.
Open Scope Z_scope.

(* ------------------------------------------------------------------ syntax of a description *)
Inductive fcls := Fb | Fh | Fw | Fl | Fs | Fd.
Inductive fitem := FBase (c : fcls) | FType (id : Z).            (* `w`  or  `:name.id` *)
Definition field := (fitem * Z)%type.                             (* item, count (1 when none is written) *)
Inductive body :=
| BStruct (fs : list field)                                       (* { f, f, } *)
| BUnion (alts : list (list field))                               (* { { f } { f } } *)
| BOpaque (size : Z).                                             (* { size }, needs `align` *)
Record tdef := mkTD { td_id : Z; td_align : option Z; td_body : body }.

(* ------------------------------------------------------------------ what a description denotes *)
Inductive kind := KInt | KFlt | KOpaque.
Definition leaf := (Z * Z * kind)%type.                           (* offset, size, kind *)
Record linfo := mkLI { l_size : Z; l_align : Z; l_flat : list leaf }.
Definition env := list (Z * linfo).                               (* most recent definition first *)

Fixpoint elookup (id : Z) (e : env) : option linfo :=
  match e with
  | [] => None
  | (i, li) :: r => if i =? id then Some li else elookup id r
  end.

Definition shift (d : Z) (l : list leaf) : list leaf :=
  map (fun x => match x with (o, s, k) => (o + d, s, k) end) l.

(* n consecutive copies of an element of size s whose own leaves are F, the first one at base *)
Fixpoint rep (n : nat) (base s : Z) (F : list leaf) : list leaf :=
  match n with
  | O => []
  | S n' => shift base F ++ rep n' (base + s) s F
  end.

Definition cls_size (c : fcls) : Z :=
  match c with Fb => 1 | Fh => 2 | Fw | Fs => 4 | Fl | Fd => 8 end.
Definition cls_kind (c : fcls) : kind :=
  match c with Fs | Fd => KFlt | _ => KInt end.

(* parsefields: `s`, `a` of one member specifier *)
Definition item_info (e : env) (it : fitem) : option linfo :=
  match it with
  | FBase c => Some (mkLI (cls_size c) (cls_size c) [(0, cls_size c, cls_kind c)])
  | FType id => elookup id e
  end.

(* parsefields: the loop.  sz = bytes so far, al = alignment so far; each member is placed at the
   next multiple of its own alignment, `c` copies of it follow each other without padding *)
Fixpoint fields_walk (e : env) (fs : list field) (sz al : Z) (acc : list leaf) : option (Z * Z * list leaf) :=
  match fs with
  | [] => Some (sz, al, acc)
  | (it, c) :: r =>
    match item_info e it with
    | None => None                                                (* "undefined type" *)
    | Some li =>
      let off := roundup sz (l_align li) in
      fields_walk e r (off + c * l_size li) (Z.max al (l_align li))
                  (acc ++ rep (Z.to_nat c) off (l_size li) (l_flat li))
    end
  end.

(* parsefields: the tail.  ty->size is what earlier alternatives of a union left there *)
Definition fields_finish (tysize : Z) (r : Z * Z * list leaf) : Z * Z * list leaf :=
  match r with (sz, al, fl) => (roundup (Z.max sz tysize) al, al, fl) end.

(* parsetyp: a union runs parsefields once per alternative on the same Typ *)
Fixpoint alts_walk (e : env) (alts : list (list field)) (tysize al : Z) (acc : list leaf) : option (Z * Z * list leaf) :=
  match alts with
  | [] => Some (tysize, al, acc)
  | fs :: r =>
    match fields_walk e fs 0 al [] with
    | None => None
    | Some w => match fields_finish tysize w with
                | (sz, al', fl) => alts_walk e r sz al' (acc ++ fl)
                end
    end
  end.

(* `align N`: QBE stores floor(log2 N); descriptions only ever carry powers of two *)
Definition def_info (e : env) (d : tdef) : option linfo :=
  let al0 := match td_align d with Some a => a | None => 1 end in
  match td_body d with
  | BOpaque size =>
    match td_align d with
    | Some a => Some (mkLI size a [(0, size, KOpaque)])
    | None => None                                                (* "dark types need alignment" *)
    end
  | BStruct fs =>
    match fields_walk e fs 0 al0 [] with
    | Some w => match fields_finish 0 w with (sz, al, fl) => Some (mkLI sz al fl) end
    | None => None
    end
  | BUnion alts =>
    match alts_walk e alts 0 al0 [] with
    | Some (sz, al, fl) => Some (mkLI sz al fl)
    | None => None
    end
  end.

Definition add_def (e : env) (d : tdef) : env :=
  match def_info e d with
  | Some li => (td_id d, li) :: e
  | None => e
  end.

(* the environment after a sequence of `type` definitions, in file order *)
Definition env_of (ds : list tdef) : env := fold_left add_def ds [].

(* size, alignment and flattened list of the type called id *)
Definition size (ds : list tdef) (id : Z) : option Z := option_map l_size (elookup id (env_of ds)).
Definition align (ds : list tdef) (id : Z) : option Z := option_map l_align (elookup id (env_of ds)).
Definition flat (ds : list tdef) (id : Z) : option (list leaf) := option_map l_flat (elookup id (env_of ds)).

(* ------------------------------------------------------------------ register classification *)
(* Everything below is a function of (size, alignment, flattened list) only. *)

Definition overlaps (lo hi : Z) (x : leaf) : bool :=
  match x with (o, s, _) => (o <? hi) && (lo <? o + s) end.
Definition is_int (x : leaf) : bool := match x with (_, _, KInt) => true | _ => false end.
Definition is_flt (x : leaf) : bool := match x with (_, _, KFlt) => true | _ => false end.
Definition is_opaque (x : leaf) : bool := match x with (_, _, KOpaque) => true | _ => false end.

(* System V x86-64: one class per eightbyte (psABI 3.2.3; QBE sysv.c: Kx untouched, Kd after a
   float, Kl after any integer).  CMem: passed in memory. *)
Inductive sv := SvNone | SvSse | SvInt.
Inductive svclass := SvMem | SvRegs (c0 c1 : sv).

Definition sv_eightbyte (fl : list leaf) (i : Z) : sv :=
  let here := filter (overlaps (8 * i) (8 * i + 8)) fl in
  if existsb is_int here then SvInt
  else if existsb is_flt here then SvSse
  else SvNone.

Definition sysv_class (li : linfo) : svclass :=
  let al := Z.max 8 (l_align li) in
  let sz := roundup (l_size li) al in
  if existsb is_opaque (l_flat li) || (16 <? sz) || (sz =? 0) then SvMem
  else SvRegs (sv_eightbyte (l_flat li) 0) (sv_eightbyte (l_flat li) 1).

(* AAPCS64: homogeneous floating-point aggregate of 1..4 members of one size, else by size *)
Inductive a64class := A64Hfa (elem n : Z) | A64Int (nregs : Z) | A64Mem.

Definition all_flt_of (s : Z) (fl : list leaf) : bool :=
  forallb (fun x => match x with (_, s', KFlt) => s' =? s | _ => false end) fl.

Definition aapcs64_class (li : linfo) : a64class :=
  let fl := l_flat li in
  let n := Z.of_nat (length fl) in
  match fl with
  | (_, s, KFlt) :: _ =>
    if all_flt_of s fl && (n <=? 4) && (n * s =? l_size li) then A64Hfa s n
    else if 16 <? l_size li then A64Mem else A64Int ((l_size li + 7) / 8)
  | _ => if (16 <? l_size li) || existsb is_opaque fl then A64Mem else A64Int ((l_size li + 7) / 8)
  end.

(* RISC-V LP64D: a struct flattening to one or two scalars with at least one float uses the FP
   calling convention; otherwise up to two integer registers; otherwise memory *)
Inductive rvclass := RvFp (l : list (Z * bool)) | RvInt (nregs : Z) | RvMem.   (* (size, is float) *)

Definition rv64_class (li : linfo) : rvclass :=
  let fl := l_flat li in
  let as_fp := map (fun x => match x with (_, s, k) => (s, match k with KFlt => true | _ => false end) end) fl in
  if 16 <? l_size li then RvMem
  else if existsb is_opaque fl then RvInt ((l_size li + 7) / 8)
  else match fl with
       | [_] => if existsb is_flt fl then RvFp as_fp else RvInt ((l_size li + 7) / 8)
       | [(o1, s1, _); (o2, _, _)] =>
         if (o1 + s1 <=? o2) && existsb is_flt fl then RvFp as_fp else RvInt ((l_size li + 7) / 8)
       | _ => RvInt ((l_size li + 7) / 8)
       end.

(* ================================================================== the C side *)
(* C types as the front end holds them (struct type / struct member of cc.h), with the layout the
   front end computed (C06 proves that layout equal to the ABI's).  `long double` is absent: qbetype
   stops the compilation with "long double is not yet supported" before any description is printed. *)
Inductive ikind := IBool | IChar | ISChar | IUChar | IShort | IUShort | IInt | IUInt | ILong | IULong | ILLong | IULLong.
Inductive skind := SkInt (i : ikind) | SkEnum (base : ikind) | SkFloat | SkDouble | SkPtr | SkNullptr.

Inductive ctype :=
| CScal (k : skind)
| CArr (elem : ctype) (size : Z)                 (* t->size = elem size * length; 0 for a flexible array member *)
| CRec (uid : Z)                                 (* identity of the struct type object (t->value is cached per object) *)
       (is_struct : bool)
       (valist : bool)                           (* t == targ->typevalist *)
       (size align : Z) (ms : cmembers)
with cmembers :=
| MNil
| MCons (t : ctype) (off : Z) (bf : option (Z * Z)) (r : cmembers).   (* bf: bits.before, bits.after of a bit-field *)

Definition isize (i : ikind) : Z :=
  match i with
  | IBool | IChar | ISChar | IUChar => 1
  | IShort | IUShort => 2
  | IInt | IUInt => 4
  | _ => 8
  end.
(* sc = targ->signedchar *)
Definition isigned (sc : bool) (i : ikind) : bool :=
  match i with
  | IChar => sc
  | ISChar | IShort | IInt | ILong | ILLong => true
  | _ => false
  end.
Definition irank (i : ikind) : Z :=
  match i with
  | IBool => 1 | IChar | ISChar | IUChar => 2 | IShort | IUShort => 3
  | IInt | IUInt => 4 | ILong | IULong => 5 | ILLong | IULLong => 6
  end.

Definition ssize (k : skind) : Z :=
  match k with
  | SkInt i | SkEnum i => isize i
  | SkFloat => 4
  | SkDouble | SkPtr | SkNullptr => 8
  end.
Definition sfloat (k : skind) : bool := match k with SkFloat | SkDouble => true | _ => false end.
Definition skind_kind (k : skind) : kind := if sfloat k then KFlt else KInt.

Definition csize (t : ctype) : Z :=
  match t with CScal k => ssize k | CArr _ s => s | CRec _ _ _ s _ _ => s end.
Fixpoint calign (t : ctype) : Z :=
  match t with CScal k => ssize k | CArr e _ => calign e | CRec _ _ _ _ a _ => a end.

(* the flattened list of a C object type: its scalar leaves, in declaration order; a bit-field
   contributes the bytes its bits occupy, as an integer leaf *)
Fixpoint cflat (t : ctype) : list leaf :=
  match t with
  | CScal k => [(0, ssize k, skind_kind k)]
  | CArr e sz => rep (Z.to_nat (sz / csize e)) 0 (csize e) (cflat e)
  | CRec _ _ vl sz _ ms => if vl then [(0, sz, KOpaque)] else cflat_ms ms
  end
with cflat_ms (ms : cmembers) : list leaf :=
  match ms with
  | MNil => []
  | MCons t off bf r =>
    match bf with
    | None => shift off (cflat t)
    | Some (b, a) => [(off + b / 8, (8 * csize t - a + 7) / 8 - b / 8, KInt)]
    end ++ cflat_ms r
  end.

Definition cinfo (t : ctype) : linfo := mkLI (csize t) (calign t) (cflat t).

(* ---- the domain of the positive theorems: records laid out naturally (every member at the next
   multiple of its alignment, size rounded to the alignment: what C06's spec_layout gives for plain
   members without _Alignas in a record that is not packed), no bit-fields, no zero-sized members *)
Definition is_none {A} (o : option A) : bool := match o with None => true | Some _ => false end.
Definition pow2b (a : Z) : bool := (a =? 1) || (a =? 2) || (a =? 4) || (a =? 8) || (a =? 16).

Fixpoint struct_ok (ms : cmembers) (cur al sz tal : Z) : bool :=
  match ms with
  | MNil => (sz =? roundup cur al) && (tal =? al)
  | MCons t off bf r =>
    is_none bf && (0 <? csize t) && (off =? roundup cur (calign t))
    && struct_ok r (off + csize t) (Z.max al (calign t)) sz tal
  end.
Fixpoint union_ok (ms : cmembers) (mx al sz tal : Z) : bool :=
  match ms with
  | MNil => (sz =? roundup mx al) && (tal =? al)
  | MCons t off bf r =>
    is_none bf && (0 <? csize t) && (off =? 0)
    && union_ok r (Z.max mx (csize t)) (Z.max al (calign t)) sz tal
  end.
Definition nonempty (ms : cmembers) : bool := match ms with MNil => false | _ => true end.

Fixpoint naturalb (t : ctype) : bool :=
  match t with
  | CScal _ => true
  | CArr e sz => naturalb e && (0 <? csize e) && (sz mod csize e =? 0) && (csize e <=? sz) && (sz <=? 2 ^ 62)
  | CRec _ k vl sz al ms =>
    if vl then pow2b al && (0 <=? sz) && (sz <=? 2 ^ 62) && negb (nonempty ms)
    else naturalb_ms ms && nonempty ms && (0 <=? sz) && (sz <=? 2 ^ 62)
         && (if k then struct_ok ms 0 1 sz al else union_ok ms 0 1 sz al)
  end
with naturalb_ms (ms : cmembers) : bool :=
  match ms with
  | MNil => true
  | MCons t _ _ r => naturalb t && naturalb_ms r
  end.

(* ---- default argument promotions (C11 6.5.2.2p6-7, 6.3.1.1p2) and parameter adjustment (6.7.6.3p7-8) *)
(* values of an integer type, restricted to `width` bits for a bit-field *)
Definition irange (sc : bool) (i : ikind) (width : option Z) : Z * Z :=
  let w := match width with Some w => w | None => 8 * isize i end in
  match i with
  | IBool => (0, 1)
  | _ => if isigned sc i then (- 2 ^ (w - 1), 2 ^ (w - 1) - 1) else (0, 2 ^ w - 1)
  end.

(* integer promotion applies to types of rank <= int and to bit-fields of at most 32 bits
   (the latter for every declared type: the choice gcc makes for the implementation-defined cases) *)
Definition promote_spec (sc : bool) (t : ctype) (width : option Z) : ctype :=
  match t with
  | CScal SkFloat => CScal SkDouble
  | CScal (SkInt i) | CScal (SkEnum i) =>
    if (irank i <=? irank IInt) || match width with Some w => w <=? 32 | None => false end then
      let '(lo, hi) := irange sc i width in
      if (- 2 ^ 31 <=? lo) && (hi <=? 2 ^ 31 - 1) then CScal (SkInt IInt) else CScal (SkInt IUInt)
    else t
  | _ => t
  end.

(* "array of T" becomes "pointer to T" (function types do not occur in this representation) *)
Definition adjust_spec (t : ctype) : ctype :=
  match t with CArr _ _ => CScal SkPtr | _ => t end.
