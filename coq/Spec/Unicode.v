(* Specification side of C14: what Unicode (RFC 3629, UTF-16 as in Unicode 3.9 D91) and
   C11 6.4.4.4 / 6.4.5 say.  Independent of the model: plain arithmetic (div/mod), no
   bit operations, no reference to the C code. *)
From Coq Require Import NArith ZArith List Bool.
Import ListNotations.
Open Scope N_scope.

(* ------------------------------------------------------------------ scalar values *)
Definition scalar (c : N) : Prop := c < 0xD800 \/ (0xE000 <= c /\ c < 0x110000).
Definition scalarb (c : N) : bool := (c <? 0xD800) || ((0xE000 <=? c) && (c <? 0x110000)).

(* ------------------------------------------------------------------ UTF-8 (RFC 3629 section 3)
     0000 0000-0000 007F | 0xxxxxxx
     0000 0080-0000 07FF | 110xxxxx 10xxxxxx
     0000 0800-0000 FFFF | 1110xxxx 10xxxxxx 10xxxxxx
     0001 0000-0010 FFFF | 11110xxx 10xxxxxx 10xxxxxx 10xxxxxx
   "the range in the first column is chosen by the character number": shortest form only. *)
Definition utf8 (c : N) : list N :=
  if c <? 0x80 then [c]
  else if c <? 0x800 then [0xC0 + c / 64; 0x80 + c mod 64]
  else if c <? 0x10000 then [0xE0 + c / 4096; 0x80 + (c / 64) mod 64; 0x80 + c mod 64]
  else [0xF0 + c / 262144; 0x80 + (c / 4096) mod 64; 0x80 + (c / 64) mod 64; 0x80 + c mod 64].

Definition utf8_len (c : N) : N :=
  if c <? 0x80 then 1 else if c <? 0x800 then 2 else if c <? 0x10000 then 3 else 4.

(* RFC 3629 section 4, the ABNF of one well-formed character, as a second, syntactic
   description (used to validate `utf8` above and the decoder):
     UTF8-1 = %x00-7F
     UTF8-2 = %xC2-DF UTF8-tail
     UTF8-3 = %xE0 %xA0-BF UTF8-tail / %xE1-EC 2( UTF8-tail ) / %xED %x80-9F UTF8-tail / %xEE-EF 2( UTF8-tail )
     UTF8-4 = %xF0 %x90-BF 2( UTF8-tail ) / %xF1-F3 3( UTF8-tail ) / %xF4 %x80-8F 2( UTF8-tail )
     UTF8-tail = %x80-BF *)
Definition between (lo hi b : N) : bool := (lo <=? b) && (b <=? hi).
Definition tail (b : N) : bool := between 0x80 0xBF b.
Definition rfc3629_char (s : list N) : bool :=
  match s with
  | [a] => between 0x00 0x7F a
  | [a; b] => between 0xC2 0xDF a && tail b
  | [a; b; c] =>
      (N.eqb a 0xE0 && between 0xA0 0xBF b && tail c) || (between 0xE1 0xEC a && tail b && tail c) ||
      (N.eqb a 0xED && between 0x80 0x9F b && tail c) || (between 0xEE 0xEF a && tail b && tail c)
  | [a; b; c; d] =>
      (N.eqb a 0xF0 && between 0x90 0xBF b && tail c && tail d) || (between 0xF1 0xF3 a && tail b && tail c && tail d) ||
      (N.eqb a 0xF4 && between 0x80 0x8F b && tail c && tail d)
  | _ => false
  end.

(* ------------------------------------------------------------------ UTF-16 *)
Definition utf16 (c : N) : list N :=
  if c <? 0x10000 then [c]
  else [0xD800 + (c - 0x10000) / 1024; 0xDC00 + (c - 0x10000) mod 1024].

Definition utf16_decode (u : list N) : option N :=
  match u with
  | [a] => if (a <? 0xD800) || (0xE000 <=? a) && (a <? 0x10000) then Some a else None
  | [h; l] => if between 0xD800 0xDBFF h && between 0xDC00 0xDFFF l
              then Some (0x10000 + (h - 0xD800) * 1024 + (l - 0xDC00)) else None
  | _ => None
  end.

Definition utf32 (c : N) : list N := [c].

(* code units of one character by element width in bytes (1, 2 or 4) *)
Definition encode (w : N) (c : N) : list N :=
  if w =? 1 then utf8 c else if w =? 2 then utf16 c else utf32 c.

(* ------------------------------------------------------------------ C11 6.4.4.4 escape sequences *)
(* simple-escape-sequence: backslash followed by one of  ' dquote ? backslash a b f n r t v  (values: ASCII, 5.2.2) *)
Definition simple_value (e : N) : option N :=
  if e =? 39 then Some 39        (* squote *)
  else if e =? 34 then Some 34   (* dquote *)
  else if e =? 63 then Some 63   (* \? *)
  else if e =? 92 then Some 92   (* \\ *)
  else if e =? 97 then Some 7    (* \a *)
  else if e =? 98 then Some 8    (* \b *)
  else if e =? 102 then Some 12  (* \f *)
  else if e =? 110 then Some 10  (* \n *)
  else if e =? 114 then Some 13  (* \r *)
  else if e =? 116 then Some 9   (* \t *)
  else if e =? 118 then Some 11  (* \v *)
  else None.

Definition octdigit (d : N) : option N := if between 48 55 d then Some (d - 48) else None.
Definition hexdigit (d : N) : option N :=
  if between 48 57 d then Some (d - 48)
  else if between 97 102 d then Some (d - 97 + 10)
  else if between 65 70 d then Some (d - 65 + 10)
  else None.

(* the numerical value of a digit string, no bound (6.4.4.4p5/p6) *)
Definition digits_value (base : N) (dig : N -> option N) (ds : list N) : N :=
  fold_left (fun a d => a * base + match dig d with Some v => v | None => 0 end) ds 0.

(* One element of a literal as the grammar of 6.4.4.4 / 6.4.5 sees it. *)
Inductive item :=
| IChar (c : N)            (* a source character (member of the source character set, here: UTF-8 encoded scalar value) *)
| ISimple (e : N)          (* \e *)
| IOct (ds : list N)       (* \ddd, 1..3 octal digits (bytes '0'..'7') *)
| IHex (ds : list N).      (* \xh..., 1 or more hex digits *)

Definition is_some {A} (o : option A) : bool := match o with Some _ => true | None => false end.

(* well-formedness of an item inside a literal delimited by the quote character q *)
Definition item_wf (q : N) (it : item) : Prop :=
  match it with
  | IChar c => scalar c /\ c <> q /\ c <> 92 /\ c <> 10
  | ISimple e => simple_value e <> None
  | IOct ds => (1 <= length ds <= 3)%nat /\ Forall (fun d => octdigit d <> None) ds
  | IHex ds => (1 <= length ds)%nat /\ Forall (fun d => hexdigit d <> None) ds
  end.

(* the spelling of an item in (UTF-8) source *)
Definition render (it : item) : list N :=
  match it with
  | IChar c => utf8 c
  | ISimple e => [92; e]
  | IOct ds => 92 :: ds
  | IHex ds => 92 :: 120 :: ds
  end.

(* the value an escape sequence denotes; for a source character its code point *)
Definition item_value (it : item) : N :=
  match it with
  | IChar c => c
  | ISimple e => match simple_value e with Some v => v | None => 0 end
  | IOct ds => digits_value 8 octdigit ds
  | IHex ds => digits_value 16 hexdigit ds
  end.

Definition is_escape_num (it : item) : bool :=
  match it with IOct _ | IHex _ => true | _ => false end.

(* Maximal munch (6.4.4.4p7: "each octal or hexadecimal escape sequence is the longest sequence
   of characters that can constitute the escape sequence"): the spelling `render it ++ next` is
   read back as `it` followed by `next` only when the first byte of next cannot extend it. *)
Definition no_extend (it : item) (next : list N) : Prop :=
  match it with
  | IOct ds => (length ds < 3)%nat -> match next with d :: _ => octdigit d = None | [] => True end
  | IHex _ => match next with d :: _ => hexdigit d = None | [] => True end
  | _ => True
  end.

Fixpoint render_items (its : list item) : list N :=
  match its with [] => [] | it :: r => render it ++ render_items r end.

(* the body of one literal token: every item well-formed and spelled unambiguously; the body is
   followed by the closing quote q *)
Fixpoint items_wf (q : N) (its : list item) : Prop :=
  match its with
  | [] => True
  | it :: r => item_wf q it /\ no_extend it (render_items r ++ [q]) /\ items_wf q r
  end.

(* 6.4.4.4p9 (constraint): the value of an octal or hexadecimal escape sequence shall be in the
   range of representable values for the corresponding unsigned type (element width w bytes). *)
Definition in_range (w : N) (it : item) : Prop :=
  is_escape_num it = true -> item_value it < 2 ^ (8 * w).
Definition in_rangeb (w : N) (it : item) : bool :=
  negb (is_escape_num it) || (item_value it <? 2 ^ (8 * w)).

(* elements (code units) one item contributes to a string literal of element width w (6.4.5p6) *)
Definition item_elements (w : N) (it : item) : list N :=
  match it with
  | IChar c => encode w c
  | _ => [item_value it]
  end.

(* ------------------------------------------------------------------ prefixes (6.4.5) *)
Inductive kind := K0 | K8 | Ku | KU | KL.      (* none, u8, u, U, L *)
Definition kind_eqb (a b : kind) : bool :=
  match a, b with K0, K0 | K8, K8 | Ku, Ku | KU, KU | KL, KL => true | _, _ => false end.

(* 6.4.5p5: if any of the tokens has an encoding prefix the whole sequence is treated as having
   that prefix.  6.4.5p2 forbids u8 next to a wide prefix; mixing different wide prefixes is
   implementation-defined (cproc, like gcc, rejects it).  None = rejected. *)
Fixpoint merge_kinds (acc : kind) (ks : list kind) : option kind :=
  match ks with
  | [] => Some acc
  | k :: r =>
      match acc, k with
      | _, K0 => merge_kinds acc r
      | K0, _ => merge_kinds k r
      | _, _ => if kind_eqb acc k then merge_kinds acc r else None
      end
  end.

(* element types: plain char, unsigned char (char8_t; cproc follows C23 here, the test suite
   test/string-u8-type.c requires it), char16_t, char32_t, and wchar_t by target *)
Inductive ctype := TChar | TUChar | TUShort | TUInt | TInt.
Definition ctype_eqb (a b : ctype) : bool :=
  match a, b with TChar, TChar | TUChar, TUChar | TUShort, TUShort | TUInt, TUInt | TInt, TInt => true | _, _ => false end.
Definition ctype_size (t : ctype) : N :=
  match t with TChar | TUChar => 1 | TUShort => 2 | TUInt | TInt => 4 end.

(* What the psABIs say (x86-64 SysV: char signed, wchar_t int; AAPCS64: char unsigned, wchar_t
   unsigned int; RISC-V: char unsigned, wchar_t int). *)
Record target := mktarget { signedchar : bool; wchar : ctype }.
Definition x86_64_sysv := mktarget true TInt.
Definition aarch64 := mktarget false TUInt.
Definition riscv64 := mktarget false TInt.

Definition kind_type (tg : target) (k : kind) : ctype :=
  match k with K0 => TChar | K8 => TUChar | Ku => TUShort | KU => TUInt | KL => wchar tg end.

(* ------------------------------------------------------------------ character constants (6.4.4.4p10,p11) *)
(* type of the constant: int for an unprefixed one, unsigned char for u8 (C23), char16_t, char32_t, wchar_t *)
Definition const_type (tg : target) (k : kind) : ctype :=
  match k with K0 => TInt | _ => kind_type tg k end.

(* value as a mathematical integer.  Unprefixed: "the value of an object with type char whose value is
   that of the single character or escape sequence, converted to type int" (p10, and EXAMPLE 2:
   '\xFF' is -1 where char is signed); only single-byte characters and in-range escapes are specified.
   Prefixed: the code point or the escape value. *)
Definition plain_char_spec (tg : target) (it : item) : option Z :=
  let v := item_value it in
  match it with
  | IChar c => if c <? 0x80 then Some (Z.of_N c) else None     (* multibyte: implementation-defined *)
  | _ => if v <? 256
         then Some (if signedchar tg && (128 <=? v) then (Z.of_N v - 256)%Z else Z.of_N v)
         else None                                             (* constraint violation *)
  end.
