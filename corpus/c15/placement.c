void out_l(long);
int calls;
int take(void) { return ++calls * 1000; }
long f1(int v)
{
	long r = 0;
	switch (v) {
	case 1:
		int skip = take();
		r += skip;
	case 2:
	case 3:
		r += 10;
		break;
	case 4: {
		r += 40;
	case 5:
		r += 5;
	}
	case 6:
		int other = 7;
		r += other;
		break;
	default:
		r = -1;
	}
	return r + calls * 100000;
}
long f2(int c)
{
	long r = 0;
	switch (c) case 'a': case 'e': case 'i': r = 1;
	return r;
}
long f3(int x)
{
	switch (x) default: return x * 2;
}
long f4(int a, int b)
{
	long r = 100;
	switch (a) case 1: switch (b) case 2: r = 12;
	return r;
}
long f5(int n)
{
	long r = 0;
	if (n < 0)
		return -1;
	switch (n % 4) do { r += 1000;
	case 3: r += 3;
	case 2: r += 2;
	case 1: r += 1;
	case 0: ; } while ((n -= 4) > 0);
	return r;
}
long f6(int v)
{
	long r = 0;
	switch (v) {
		if (0) case 5: r = 50; else case 6: r = 60;
		r += 1;
		break;
	case 7:
		for (;;) { r += 7; if (r > 20) break; continue; case 8: r += 100; break; }
		r += 2;
		break;
	}
	return r;
}
long f7(int v)
{
	long r = 0;
	while (r < 3) {
		switch (v) {
		case 0: r += 1; continue;
		case 1: r += 2; break;
		default: { case 9: r += 5; } break;
		}
		r += 10;
	}
	return r;
}
long f8(int v)
{
	long r = 0;
	switch (v) {
	case 0:
		r = 5;
		break;
	case 1:
		int skip = take();
	case 2:
	case 3:
		r += 10;
		break;
	case 4:
		long w = take(), z = w;
	case 5: {
		r += 40;
	case 6:
	}
	case 7:
		r += 1;
	}
	return r * 100 + calls;
}
long f9(unsigned short v)
{
	switch (v) {
	case 40000: return 1;
	case 65535: return 2;
	case 0x8000: return 3;
	case 7: return 4;
	default: return 0;
	}
}
long f10(unsigned char v, signed char w)
{
	long r = 0;
	switch (v) { case 200: r = 1; break; case 255: r = 2; break; case 128: r = 3; break; }
	switch (w) { case -1: r += 10; break; case -128: r += 20; break; case 127: r += 30; break; }
	return r;
}
int main(void)
{
	int v;
	for (v = 0; v <= 7; v++)
		out_l(f1(v));
	out_l(f2('a') + f2('e') * 2 + f2('i') * 4 + f2('o') * 8);
	out_l(f3(21));
	out_l(f4(1, 2) + f4(1, 3) * 10 + f4(2, 2) * 100);
	for (v = 0; v <= 9; v++)
		out_l(f5(v));
	for (v = 4; v <= 9; v++)
		out_l(f6(v));
	for (v = 0; v <= 2; v++)
		out_l(f7(v));
	out_l(f7(9));
	calls = 0;
	for (v = 0; v <= 8; v++)
		out_l(f8(v));
	out_l(f9(40000) * 1000 + f9(65535) * 100 + f9(32768) * 10 + f9(7));
	out_l(f9(32767) + f9(0));
	out_l(f10(200, -1) * 10000 + f10(255, -128) * 100 + f10(128, 127));
	out_l(f10(127, 0));
	return 0;
}
