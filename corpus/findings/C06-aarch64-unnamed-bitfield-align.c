// C06 key=aarch64-unnamed-bitfield-align status=known
// D14: on aarch64 (AAPCS64) unnamed and zero-width bit-fields contribute the alignment of their declared type;
// cproc: A 2/1, B 8/2 (all targets).  clang/gcc aarch64: A 4/4, B 8/8, U 8/8.  x86-64 and riscv64 agree with cproc.
struct A { char c; int :3; };
struct B { _Bool b; short s; unsigned long long :0; };
union U { float f; long long :0; };
unsigned long v1[] = { sizeof(struct A), _Alignof(struct A) };
unsigned long v2[] = { sizeof(struct B), _Alignof(struct B) };
unsigned long v3[] = { sizeof(union U), _Alignof(union U) };
