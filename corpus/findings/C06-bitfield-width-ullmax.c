// C06 key=bitfield-width-ullmax-accepted status=fixed expect=reject
// a bit-field width of 2^64-1 collided with addmember's "not a bit-field" marker and declared a plain member
struct S { char c; int f : 0xffffffffffffffff; };
unsigned long v1[] = { sizeof(struct S) };
