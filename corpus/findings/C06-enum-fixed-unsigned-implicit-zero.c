// C06 key=enum-fixed-unsigned-implicit-zero-rejected status=fixed
// the first implicit enumerator of an enum with unsigned fixed underlying type is 0 (was rejected as a wrap-around)
enum E : unsigned { A, B };
enum F : unsigned long { C, D, G = 0, H };
enum K : unsigned char { L, M = 255 };
unsigned long v1[] = { sizeof(enum E), A, B, (enum E)-1 < 0, sizeof(enum F), C, D, H, sizeof(enum K), L, M };
