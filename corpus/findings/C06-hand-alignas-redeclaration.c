// C06 key=hand-alignas-redeclaration status=fixed
// an alignment specifier on a later declaration or on the definition of an object declared before without one (6.7.5p7)
// applies to the object (seeded change C06-adve-06-2 kept the alignment of the first declaration)
// aligns: a1=16 t1=64 e1=32 q1=32
extern int a1; _Alignas(16) int a1 = 1; int t1; _Alignas(64) int t1; extern char e1; _Alignas(32) char e1; static long q1; static _Alignas(32) long q1;
long useq(void) { return q1; }
unsigned long v1[] = { sizeof a1, sizeof t1, sizeof e1 };
