// C06 key=hand-alignof-expressions status=fixed
// _Alignof applied to an expression of array type (GNU form) is the alignment of the array, not of the pointer it would decay to
// (seeded change C06-advh-06-3 undid the decay for sizeof only)
int arr[5]; struct M { char c; long m[3]; } sm; short g2[2][3];
unsigned long v1[] = { _Alignof(arr), _Alignof(sm.m), _Alignof(g2[1]), _Alignof("abc"), _Alignof(L"ab"), sizeof(arr), _Alignof(sm), _Alignof(g2) };
