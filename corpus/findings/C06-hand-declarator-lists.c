// C06 key=hand-declarator-lists status=fixed
// several declarators in one member declaration: each is derived from the declaration specifiers alone (6.7.2.1, 6.7.6),
// not from the previous declarator (seeded change C06-advb-06-3 made `char a[3], b;` declare b as char[3])
struct C1 { char a[3], b; };
struct C2 { int *p, n, m; };
struct C3 { const char *s, c, z[2]; };
struct C4 { int (*fp)(void), k; short x, y : 3, w; };
struct C5 { long *q[2], r, (*pa)[4], t[1][2]; char e; };
union C6 { char a[5], b; short *p, s; };
struct C7 { struct { char i[3], j; } in[2], one; char k; };
unsigned long v1[] = { sizeof(struct C1), _Alignof(struct C1), __builtin_offsetof(struct C1, b) };
unsigned long v2[] = { sizeof(struct C2), __builtin_offsetof(struct C2, n), __builtin_offsetof(struct C2, m) };
unsigned long v3[] = { sizeof(struct C3), __builtin_offsetof(struct C3, c), __builtin_offsetof(struct C3, z) };
unsigned long v4[] = { sizeof(struct C4), __builtin_offsetof(struct C4, k), __builtin_offsetof(struct C4, x), __builtin_offsetof(struct C4, w) };
unsigned long v5[] = { sizeof(struct C5), __builtin_offsetof(struct C5, r), __builtin_offsetof(struct C5, pa), __builtin_offsetof(struct C5, t), __builtin_offsetof(struct C5, e) };
unsigned long v6[] = { sizeof(union C6), _Alignof(union C6) };
unsigned long v7[] = { sizeof(struct C7), __builtin_offsetof(struct C7, one), __builtin_offsetof(struct C7, one.j), __builtin_offsetof(struct C7, k) };
struct C2 x2 = { 0, 5, 6 };
struct C4 x4 = { 0, 1, 2, 3, 4 };
