// C06 key=hand-flexible-tail-padding status=fixed
// the size of a struct with a flexible array member is rounded up to its alignment like any other (6.7.2.1p18: "as if the
// flexible array member were omitted except that it may have more trailing padding"); seeded change C08-adve-08-4 skipped the rounding
struct F1 { long n; char tag; char data[]; };
struct F2 { int a; short b; short c[]; };
union UF { struct F1 f; char k; };
struct F3 { char c; _Alignas(8) char d; int tail[]; };
struct F4 { double d; int i; long t[]; };
unsigned long v1[] = { sizeof(struct F1), _Alignof(struct F1), __builtin_offsetof(struct F1, data), sizeof(struct F2), __builtin_offsetof(struct F2, c) };
unsigned long v2[] = { sizeof(union UF), _Alignof(union UF), sizeof(struct F3), __builtin_offsetof(struct F3, tail), sizeof(struct F4), __builtin_offsetof(struct F4, t) };
