// C06 key=hand-late-completed-object status=fixed
// an object declared while its struct/union type is still incomplete gets the alignment and size of the completed type
// (seeded changes C06-advb-06-2 / C07-advb-07-2 emitted `align 0` for it)
// aligns: s1=8 p1=16 u1=4 s2=8 s3=8 x1=8
struct S s1;
extern struct P p1;
union U u1;
struct S { long a; char c; };
struct P { char c; _Alignas(16) short h; };
union U { char c[3]; int i; };
struct P p1 = { 1, 2 };
struct S s2;
struct S s3 = { 5, 6 };
unsigned long v1[] = { sizeof s1, _Alignof(struct S), sizeof p1, _Alignof(struct P), sizeof u1, _Alignof(union U) };
struct S x1 = { 7, 8 };
