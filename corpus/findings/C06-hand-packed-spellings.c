// C06 key=hand-packed-spellings status=fixed
// every spelling of the packed attribute that cproc documents packs the struct (seeded change C06-advb-06-4 lost
// [[gnu::__packed__]]: the name after a vendor prefix was no longer stripped of its underscores; C06-adve-06-3 ignored every
// __attribute__ specifier after the first of a sequence)
struct [[gnu::packed]] P1 { char c; long l; short h; };
struct [[gnu::__packed__]] P2 { char c; long l; short h; };
struct [[__gnu__::packed]] P3 { char c; long l; short h; };
struct [[__gnu__::__packed__]] P4 { char c; long l; short h; };
struct __attribute__((packed)) P5 { char c; long l; short h; };
struct __attribute__((__packed__)) P6 { char c; long l; short h; };
struct N { char c; long l; short h; };
struct __attribute__((unused)) __attribute__((packed)) P7 { char c; long l; short h; };
struct __attribute__((packed)) __attribute__((unused)) P8 { char c; long l; short h; };
struct __attribute__((unused)) __attribute__((unused)) __attribute__((packed)) P9 { char c; long l; short h; };
unsigned long v8[] = { sizeof(struct P7), _Alignof(struct P7), sizeof(struct P8), _Alignof(struct P8), sizeof(struct P9), _Alignof(struct P9) };
unsigned long v1[] = { sizeof(struct P1), _Alignof(struct P1), __builtin_offsetof(struct P1, l), __builtin_offsetof(struct P1, h) };
unsigned long v2[] = { sizeof(struct P2), _Alignof(struct P2), __builtin_offsetof(struct P2, l), __builtin_offsetof(struct P2, h) };
unsigned long v3[] = { sizeof(struct P3), _Alignof(struct P3), __builtin_offsetof(struct P3, l), __builtin_offsetof(struct P3, h) };
unsigned long v4[] = { sizeof(struct P4), _Alignof(struct P4), __builtin_offsetof(struct P4, l), __builtin_offsetof(struct P4, h) };
unsigned long v5[] = { sizeof(struct P5), _Alignof(struct P5), __builtin_offsetof(struct P5, l), __builtin_offsetof(struct P5, h) };
unsigned long v6[] = { sizeof(struct P6), _Alignof(struct P6), __builtin_offsetof(struct P6, l), __builtin_offsetof(struct P6, h) };
unsigned long v7[] = { sizeof(struct N), _Alignof(struct N), __builtin_offsetof(struct N, l), __builtin_offsetof(struct N, h) };
struct P2 x2 = { 1, 2, 3 };
struct P4 x4 = { 1, 2, 3 };
