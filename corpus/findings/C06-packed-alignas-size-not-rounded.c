// C06 key=packed-alignas-size-not-rounded status=known
// D15: tagspec skips the final ALIGNUP for packed structs although _Alignas members raise the alignment:
// cproc P 5/4, Q 8/64, R (which embeds P) 12/4 with d at offset 9.  gcc/clang: P 8/4, Q 64/64, R 16/4 with d at offset 12.
struct __attribute__((packed)) P { _Alignas(4) int a; char b; };
struct __attribute__((packed)) Q { _Alignas(64) unsigned long m; };
struct R { char c; struct P p; char d; };
unsigned long v1[] = { sizeof(struct P), _Alignof(struct P), __builtin_offsetof(struct P, b) };
unsigned long v2[] = { sizeof(struct Q), _Alignof(struct Q) };
unsigned long v3[] = { sizeof(struct R), _Alignof(struct R), __builtin_offsetof(struct R, p), __builtin_offsetof(struct R, d) };
