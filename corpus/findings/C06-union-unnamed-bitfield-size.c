// C06 key=union-unnamed-bitfield-size status=fixed
// targets=x86_64-sysv,riscv64
// (aarch64 differs by the known finding aarch64-unnamed-bitfield-align)
// an unnamed bit-field in a union occupies storage: U 3/1 (x86-64, riscv64), W 4/1 with the _Bool in bit 0
union U { int :17; char c; };
union W { int :31; _Bool b : 1; };
struct S { char c; union U u; char d; };
unsigned long v1[] = { sizeof(union U), _Alignof(union U) };
unsigned long v2[] = { sizeof(union W), _Alignof(union W) };
unsigned long v3[] = { sizeof(struct S), __builtin_offsetof(struct S, d) };
union W x1 = { .b = -1 };
