# Mini front end for C01's structural tier: builds, for small C functions, BOTH the C text and the typed core AST
# (S-expression for ocaml/c01/oracle) that expr.c produces for it - promotions, usual arithmetic conversions,
# exprconvert's "cast unless the very same type", the rewrites of E1[E2], E->M, OP=, ++/--, !, ~ (cc.h).
# If this typing disagreed with expr.c the structural comparison would fail, so the front end is itself checked.
import struct

# name: (C spelling, size, signed, rank, kind)
BASIC = {
    'bool': ('_Bool', 1, False, 1, 'bool'),
    'char': ('char', 1, None, 2, 'int'), 'schar': ('signed char', 1, True, 2, 'int'), 'uchar': ('unsigned char', 1, False, 2, 'int'),
    'short': ('short', 2, True, 3, 'int'), 'ushort': ('unsigned short', 2, False, 3, 'int'),
    'int': ('int', 4, True, 4, 'int'), 'uint': ('unsigned', 4, False, 4, 'int'),
    'long': ('long', 8, True, 5, 'int'), 'ulong': ('unsigned long', 8, False, 5, 'int'),
    'llong': ('long long', 8, True, 6, 'int'), 'ullong': ('unsigned long long', 8, False, 6, 'int'),
    'float': ('float', 4, None, 0, 'flt'), 'double': ('double', 8, None, 0, 'flt'),
}
INT_TYPES = ['bool', 'char', 'schar', 'uchar', 'short', 'ushort', 'int', 'uint', 'long', 'ulong', 'llong', 'ullong']
ARITH_TYPES = INT_TYPES + ['float', 'double']


class Ty:
    """a scalar type: basic name, or pointer to a (scalar or aggregate) type"""
    def __init__(self, name, base=None):
        self.name = name            # basic name or 'ptr'
        self.base = base            # Ty or Agg for pointers

    def __eq__(self, o):
        return isinstance(o, Ty) and self.name == o.name and (self.name != 'ptr' or self.base == o.base)

    def __hash__(self):
        return hash((self.name, self.base))

    def isptr(self):
        return self.name == 'ptr'

    def isint(self):
        return self.name in INT_TYPES

    def isflt(self):
        return self.name in ('float', 'double')

    def isarith(self):
        return self.name in BASIC

    def size(self):
        return 8 if self.isptr() else BASIC[self.name][1]

    def signed(self, sc):
        if self.isptr() or self.isflt():
            return False
        s = BASIC[self.name][2]
        return sc if s is None else s

    def rank(self):
        return BASIC[self.name][3]

    def c(self, decl=''):
        if self.isptr():
            return self.base.c('*' + decl)
        return BASIC[self.name][0] + (' ' + decl if decl else '')

    def sx(self, sc):
        if self.isptr():
            return 'ptr'
        if self.name == 'bool':
            return 'bool'
        if self.name == 'float':
            return 'flt'
        if self.name == 'double':
            return 'dbl'
        return 'i%d%s' % (self.size(), 's' if self.signed(sc) else 'u')


class Agg:
    """struct type: tag, size, align, members {name: (Ty|Agg, offset, (before, after)|None)}"""
    def __init__(self, tag, size, align, members, text):
        self.tag, self.sz, self.al, self.members, self.text = tag, size, align, members, text

    def __eq__(self, o):
        return isinstance(o, Agg) and self.tag == o.tag

    def __hash__(self):
        return hash(self.tag)

    def size(self):
        return self.sz

    def c(self, decl=''):
        return 'struct %s%s' % (self.tag, ' ' + decl if decl else '')

    def sx(self, sc):
        return '(agg %d %d)' % (self.sz, self.al)

    def isptr(self):
        return False

    def isarith(self):
        return False


def T(name):
    return Ty(name)


def P(base):
    return Ty('ptr', base)


INT, UINT, LONG, ULONG, BOOL, DOUBLE = T('int'), T('uint'), T('long'), T('ulong'), T('bool'), T('double')


def promote(t, width, sc):
    """type.c:typepromote; width None = not a bit-field"""
    if t.name == 'float':
        return DOUBLE       # only used for default argument promotions
    if t.isint() and (t.rank() <= INT.rank() or (width is not None and width <= 32)):
        w = t.size() * 8 if width is None else width
        return INT if w - (1 if t.signed(sc) else 0) < 32 else UINT
    return t


def int_promote(t, width, sc):
    """exprpromote for integer operands (shifts, unary -, ~, +)"""
    return promote(t, width, sc) if t.isint() else t


def common(t1, w1, t2, w2, sc):
    """type.c:typecommonreal"""
    for f in ('double', 'float'):
        if t1.name == f or t2.name == f:
            return T(f)
    t1, t2 = promote(t1, w1, sc), promote(t2, w2, sc)
    if t1 == t2:
        return t1
    if t1.signed(sc) == t2.signed(sc):
        return t1 if t1.rank() > t2.rank() else t2
    if t1.signed(sc):
        t1, t2 = t2, t1
    if t1.rank() >= t2.rank():
        return t1
    if t1.size() < t2.size():
        return t2
    return ULONG if t2.name == 'long' else T('ullong')


class E:
    """an expression: C text, S-expression, type, bit-field width, lvalue-ness"""
    def __init__(self, c, sx, t, width=None, lvalue=False, bits=None, isconst=False, hasconst=False):
        self.c, self.sx, self.t, self.width, self.lvalue, self.bits = c, sx, t, width, lvalue, bits
        self.isconst = isconst      # an EXPRCONST node
        self.hasconst = hasconst or isconst


class Front:
    def __init__(self, signedchar=True):
        self.sc = signedchar
        self.ntemp = 0

    # ---- leaves
    def local(self, name, slot, t):
        return E(name, '(local %s %d)' % (t.sx(self.sc), slot), t, lvalue=True)

    def glob(self, name, gid, t):
        return E(name, '(global %s %d)' % (t.sx(self.sc), gid), t, lvalue=True)

    def const(self, n, suffix=''):
        """decimal integer constant; suffix '', 'U', 'L', 'UL' (expr.c:inttype)"""
        if suffix == '':
            t = INT if n < 2**31 else LONG
        elif suffix == 'U':
            t = UINT if n < 2**32 else ULONG
        elif suffix == 'L':
            t = LONG
        else:
            t = ULONG
        return E('%d%s' % (n, suffix), '(const %s %d)' % (t.sx(self.sc), n), t, isconst=True)

    def fconst(self, text, t):
        v = float(text.rstrip('f'))
        if t.name == 'float':
            bits = struct.unpack('<I', struct.pack('<f', v))[0]
        else:
            bits = struct.unpack('<Q', struct.pack('<d', v))[0]
        return E(text, '(fconst %s %d)' % (t.sx(self.sc), bits), t, isconst=True)

    # ---- conversions
    def conv(self, e, t):
        """exprconvert: a cast node unless the type is the very same"""
        if e.t == t:
            return e
        return E(e.c, '(cast %s %s %s)' % (t.sx(self.sc), e.t.sx(self.sc), e.sx), t, hasconst=e.hasconst)

    def cast(self, t, e):
        """explicit cast: always a node"""
        return E('(%s)%s' % (t.c(), paren(e.c)), '(cast %s %s %s)' % (t.sx(self.sc), e.t.sx(self.sc), e.sx), t, hasconst=e.hasconst)

    def promote(self, e):
        return self.conv(e, int_promote(e.t, e.width, self.sc))

    # ---- operators
    OPS = {'*': 'mul', '/': 'div', '%': 'mod', '+': 'add', '-': 'sub', '<<': 'shl', '>>': 'shr', '&': 'band', '|': 'bor', '^': 'xor',
           '<': 'lt', '>': 'gt', '<=': 'le', '>=': 'ge', '==': 'eq', '!=': 'ne'}

    def binary(self, op, l, r):
        """mkbinaryexpr; returns None when expr.c rejects the operands"""
        sc = self.sc
        c = '%s %s %s' % (paren(l.c), op, paren(r.c))
        hc = l.hasconst or r.hasconst
        if op in ('&&', '||'):
            sx = '(logic %s %s %s %s %s)' % ('or' if op == '||' else 'and', l.t.sx(sc), r.t.sx(sc), l.sx, r.sx)
            return E(c, sx, INT, hasconst=hc)
        name = self.OPS[op]
        if l.t.isarith() and r.t.isarith():
            if op in ('<<', '>>'):
                if not (l.t.isint() and r.t.isint()):
                    return None
                l2, r2 = self.promote(l), self.promote(r)
                t = l2.t
                return E(c, '(bin %s %s %s %s %s)' % (name, t.sx(sc), t.sx(sc), l2.sx, r2.sx), t, hasconst=hc)
            if op in ('%', '&', '|', '^') and not (l.t.isint() and r.t.isint()):
                return None
            t = common(l.t, l.width, r.t, r.width, sc)
            l2, r2 = self.conv(l, t), self.conv(r, t)
            rt = INT if op in ('<', '>', '<=', '>=', '==', '!=') else t
            return E(c, '(bin %s %s %s %s %s)' % (name, t.sx(sc), rt.sx(sc), l2.sx, r2.sx), rt, hasconst=hc)
        # pointer forms
        if op == '+':
            if r.t.isptr():
                l, r = r, l
            if not (l.t.isptr() and r.t.isint()):
                return None
            sz = l.t.base.size()
            mul = '(bin mul i8u i8u %s (const i8u %d))' % (self.conv(r, ULONG).sx, sz)
            return E(c, '(bin add ptr ptr %s %s)' % (l.sx, mul), l.t, hasconst=True)
        if op == '-' and l.t.isptr():
            sz = l.t.base.size()
            if r.t.isint():
                mul = '(bin mul i8u i8u %s (const i8u %d))' % (self.conv(r, ULONG).sx, sz)
                return E(c, '(bin sub ptr ptr %s %s)' % (l.sx, mul), l.t, hasconst=True)
            if r.t == l.t:
                sub = '(bin sub i8s i8s %s %s)' % (self.conv(l, LONG).sx, self.conv(r, LONG).sx)
                return E(c, '(bin div i8s i8s %s (const i8s %d))' % (sub, sz), LONG, hasconst=True)
            return None
        if op in ('<', '>', '<=', '>=', '==', '!=') and l.t.isptr() and r.t == l.t:
            return E(c, '(bin %s ptr i4s %s %s)' % (name, l.sx, r.sx), INT, hasconst=hc)
        return None

    def neg(self, e):
        e2 = self.promote(e) if e.t.isint() else e
        return E('-%s' % paren(e.c), '(neg %s %s)' % (e2.t.sx(self.sc), e2.sx), e2.t, hasconst=e.hasconst)

    def bnot(self, e):
        e2 = self.promote(e)
        t = e2.t
        m1 = '(const %s 18446744073709551615)' % t.sx(self.sc)
        return E('~%s' % paren(e.c), '(bin xor %s %s %s %s)' % (t.sx(self.sc), t.sx(self.sc), e2.sx, m1), t, hasconst=True)

    def lnot(self, e):
        sc = self.sc
        zero = E('0', '(const i4s 0)', INT, isconst=True)
        if e.t.isptr():
            z = self.conv(zero, e.t)
            return E('!%s' % paren(e.c), '(bin eq ptr i4s %s %s)' % (e.sx, z.sx), INT, hasconst=True)
        t = common(e.t, e.width, INT, None, sc)
        return E('!%s' % paren(e.c), '(bin eq %s i4s %s %s)' % (t.sx(sc), self.conv(e, t).sx, self.conv(zero, t).sx), INT, hasconst=True)

    def plus(self, e):
        e2 = self.promote(e) if e.t.isint() else e
        sx = e2.sx
        if e2 is e and (e.lvalue or e.bits):
            sx = '(cast %s %s %s)' % (e.t.sx(self.sc), e.t.sx(self.sc), e.sx)
        return E('+%s' % paren(e.c), sx, e2.t, hasconst=e.hasconst)

    def cond(self, c, a, b):
        """arithmetic arms, or identical types; the condition must not fold (expr.c evaluates it)"""
        sc = self.sc
        if a.t.isarith() and b.t.isarith():
            t = common(a.t, a.width, b.t, b.width, sc)
            a2, b2 = self.conv(a, t), self.conv(b, t)
        elif a.t == b.t:
            t, a2, b2 = a.t, a, b
        else:
            return None
        return E('%s ? %s : %s' % (paren(c.c), paren(a.c), paren(b.c)),
                 '(cond %s %s %s %s %s)' % (t.sx(sc), c.t.sx(sc), c.sx, a2.sx, b2.sx), t, hasconst=True)

    def deref(self, p):
        t = p.t.base
        return E('*%s' % paren(p.c), '(deref %s %s)' % (t.sx(self.sc), p.sx), t, lvalue=True, hasconst=p.hasconst)

    def addr(self, e):
        return E('&%s' % paren(e.c), '(addr %s)' % e.sx, P(e.t), hasconst=e.hasconst)

    def index(self, a, i):
        return self.deref(self.binary('+', a, i)) if True else None

    def member(self, p, name, arrow=True):
        """p->name (p: pointer to Agg) or s.name (s: lvalue of Agg type)"""
        sc = self.sc
        if arrow:
            agg, base, c = p.t.base, p, '%s->%s' % (paren(p.c), name)
        else:
            agg, base, c = p.t, self.addr(p), '%s.%s' % (paren(p.c), name)
        mt, off, bits = agg.members[name]
        a = '(bin add i8u ptr %s (const i8u %d))' % (self.conv(base, ULONG).sx, off)
        d = '(deref %s %s)' % (mt.sx(sc), a)
        if bits:
            before, after = bits
            w = mt.size() * 8 - before - after
            return E(c, '(bits %s %s %d %d)' % (mt.sx(sc), d, before, after), mt, width=w, lvalue=True, bits=(d, before, after), hasconst=True)
        return E(c, d, mt, lvalue=True, hasconst=True)

    def assign(self, l, r):
        sc = self.sc
        r2 = self.conv(r, l.t)
        return E('%s = %s' % (l.c, paren(r.c)), '(assign %s %s %s)' % (l.t.sx(sc), l.sx, r2.sx), l.t, hasconst=True)

    def compound(self, op, l, r):
        """E1 OP= E2  ==>  T = &E1, *T = *T OP E2"""
        sc = self.sc
        k = self.ntemp
        self.ntemp += 1
        tsx = l.t.sx(sc)
        if l.bits:
            inner, before, after = l.bits
            lv = E(l.c, inner, l.t, lvalue=True)
            set_ = '(settemp %d (addr %s))' % (k, inner)
            star = '(deref %s (temp %d))' % (tsx, k)
            l2 = E(l.c, '(bits %s %s %d %d)' % (tsx, star, before, after), l.t, width=l.width, lvalue=True, bits=(star, before, after))
        else:
            set_ = '(settemp %d (addr %s))' % (k, l.sx)
            l2 = E(l.c, '(deref %s (temp %d))' % (tsx, k), l.t, lvalue=True)
        b = self.binary(op, l2, r)
        if b is None:
            return None
        b2 = self.conv(b, l.t)
        return E('%s %s= %s' % (l.c, op, paren(r.c)), '(seq %s (assign %s %s %s))' % (set_, tsx, l2.sx, b2.sx), l.t, hasconst=True)

    def incdec(self, l, inc, post):
        step = l.t.base.size() if l.t.isptr() else 1
        c = ('%s%s' % (paren(l.c), '++' if inc else '--')) if post else ('%s%s' % ('++' if inc else '--', paren(l.c)))
        return E(c, '(incdec %s %s %s %d %s)' % ('inc' if inc else 'dec', 'post' if post else 'pre', l.t.sx(self.sc), step, l.sx), l.t, hasconst=True)

    def comma(self, a, b):
        return E('%s, %s' % (paren(a.c), paren(b.c)), '(seq %s %s)' % (a.sx, b.sx), b.t, hasconst=True)

    def call(self, fname, gid, rett, ptypes, args, variadic=False):
        """call of a declared function; args beyond the prototype are default-promoted"""
        sc = self.sc
        al = []
        for i, a in enumerate(args):
            if i < len(ptypes):
                a2 = self.conv(a, ptypes[i])
            else:
                a2 = self.conv(a, promote(a.t, a.width, sc)) if a.t.isarith() else a
            al.append('(%s %s)' % (a2.t.sx(sc), a2.sx))
        rt = 'void' if rett is None else rett.sx(sc)
        nf = '%d' % len(ptypes) if variadic else '-'
        return E('%s(%s)' % (fname, ', '.join(a.c for a in args)),
                 '(call %s %d %s%s)' % (rt, gid, nf, ''.join(' ' + a for a in al)), rett or INT, hasconst=True)


def paren(c):
    return c if c.replace('_', 'a').isalnum() else '(%s)' % c


# --------------------------------------------------------------------------- statements
def s_expr(e):
    return '\t%s;\n' % e.c, '(expr %s)' % e.sx


def s_ret(fr, e, rett):
    e2 = fr.conv(e, rett)
    return '\treturn %s;\n' % e.c, '(ret %s)' % e2.sx


def s_block(items):
    return ''.join(c for c, _ in items), '(block%s)' % ''.join(' ' + s for _, s in items)


def function(name, rett, params, body, sc):
    """params: [(name, Ty)]; body: (c, sx).  Returns (C text, request line for the oracle)."""
    ps = ', '.join(t.c(n) for n, t in params) or 'void'
    c = '%s %s(%s)\n{\n%s}\n' % (rett.c() if rett else 'void', name, ps, body[0])
    sx = '(fn 0 (%s) %s)' % (' '.join('(%d %s)' % (i, t.sx(sc)) for i, (n, t) in enumerate(params)), body[1])
    return c, sx


# --------------------------------------------------------------------------- canonical form of IL functions
import re

TOK = re.compile(r'%[\w.]+|@[\w.]+|\$[\w.]+|:[\w.]+|[sd]_bits:\d+|[sd]_[-+\w.]+|\d+|[A-Za-z_]\w*|\.\.\.|[=(),{}]')


def float_bits(tok):
    kind, txt = tok[0], tok[2:]
    if txt.startswith('bits:'):
        return '%s#%d' % (kind, int(txt[5:]))
    v = float(txt)
    if kind == 's':
        return 's#%d' % struct.unpack('<I', struct.pack('<f', v))[0]
    return 'd#%d' % struct.unpack('<Q', struct.pack('<d', v))[0]


def canon_function(text):
    """canonical token lines of one IL function: temporaries, labels and globals renamed in order of first appearance;
    the function's own name, return type and linkage dropped"""
    lines = [l for l in text.strip().split('\n')]
    names = {}
    out = []

    def ren(tok):
        pre = tok[0]
        key = (pre, tok)
        if key not in names:
            names[key] = '%s%d' % ({'%': '%t', '@': '@L', '$': '$G', ':': ':T'}[pre], 1 + sum(1 for k in names if k[0] == pre))
        return names[key]
    for i, l in enumerate(lines):
        toks = TOK.findall(l)
        if i == 0:
            # function [rettype] $name(params) {
            k = l.index('(')
            toks = ['function'] + TOK.findall(l[k:])
        res = []
        for t in toks:
            if t[0] in '%@$:':
                res.append(ren(t))
            elif re.match(r'[sd]_', t) and t not in ('s_', 'd_'):
                res.append(float_bits(t))
            else:
                res.append(t)
        out.append(' '.join(res))
    return out


def split_functions(il):
    """{name: text} of the functions of an IL module"""
    res = {}
    for m in re.finditer(r'^function [^\n]*?\$([\w.]+)\(.*?^\}', il, re.M | re.S):
        res[m.group(1)] = m.group(0)
    return res
