# Whole-program generator for C01's semantic tier: extends gen/c03_progs.py (typed, UB-free by construction, only
# out_l/out_d as externals) with: compound assignment and ++/-- on every lvalue kind, use of the values of such
# expressions, unions, struct copies and by-value passing (plain structs only: see notes/C01.md on emittype),
# VLAs, alloca, compound literals, static locals, automatic array/string initialisers, mixed int/double/pointer
# parameters, pointer walks.
#   gen_program(rng, size) -> (source, meta)
# Since the fixes of subint-to-float-unextended and bitfield-assign-value-subword-top the stream also contains
#   - 1- and 2-byte integer VALUES (casts, not lvalues) converted to float/double
#   - the values of assignments / compound assignments / prefix ++ -- to bit-fields
# (props/c01.py keeps the original replays as regression probes).
import c03_progs
from c03_progs import INTS, INTMAP, FLTS, lit

SUBINT = [n for n, b, s in INTS if b < 32 and n != '_Bool']
UNSIGNED_WIDE = ['unsigned', 'unsigned long', 'unsigned long long']


class Gen(c03_progs.Gen):
    def __init__(self, rng, size):
        super().__init__(rng, size)
        self.plain = []         # tags of structs without bit-fields (safe to pass by value)
        self.unions = []
        self.helpers = []

    # ------------------------------------------------------------ declarations
    def gen_structs(self):
        rng = self.rng
        # one or two plain structs first (used by value), then the mixed ones of the base generator
        for i in range(rng.randint(1, 2)):
            tag = self.fresh('P')
            fs = []
            for j in range(rng.randint(1, 5)):
                r = rng.random()
                fn = 'f%d' % j
                if r < 0.6:
                    fs.append((fn, rng.choice([n for n, _, _ in INTS]), None))
                elif r < 0.75:
                    fs.append((fn, rng.choice(FLTS), None))
                elif r < 0.85 and self.plain:
                    fs.append((fn, 'struct %s' % rng.choice(self.plain), None))
                else:
                    fs.append((fn, 'arr:%s:%d' % (rng.choice(['char', 'int', 'short', 'long', 'unsigned char']), rng.randint(1, 5)), None))
            self.structs.append((tag, fs))
            self.plain.append(tag)
            body = []
            for fn, ft, w in fs:
                if ft.startswith('arr:'):
                    _, et, n = ft.split(':')
                    body.append('%s %s[%s];' % (et, fn, n))
                else:
                    body.append('%s %s;' % (ft, fn))
            self.lines.append('struct %s { %s };' % (tag, ' '.join(body)))
        nplain = len(self.structs)
        super().gen_structs()
        # the base generator may nest any earlier struct: fine.  It takes the first two structs for by-value
        # functions; those are the plain ones (there are at least one, at most two; a third would be mixed)
        self.byvalue_limit = nplain
        tag = self.fresh('U')
        self.lines.append('union %s { unsigned u; unsigned char b[4]; unsigned short h[2]; int i; float f; };' % tag)
        self.unions.append(tag)
        self.lines.append('union %s gu%s;' % (tag, tag))

    def gen_funcs(self):
        rng = self.rng
        saved = self.structs
        self.structs = [st for st in saved if st[0] in self.plain]      # by-value functions only over the plain structs
        super().gen_funcs()
        self.structs = saved
        # a helper with a static local and mixed parameters
        name = self.fresh('hf')
        self.lines.append('static long %s(int a, double d, unsigned char *p, long b, float f)' % name)
        self.lines.append('{')
        self.lines.append('\tstatic unsigned cnt = %d;' % rng.randint(0, 9))
        self.lines.append('\tstatic short tab[3] = { %s, [2] = %s };' % (lit(rng, 'short'), lit(rng, 'short')))
        self.lines.append('\tcnt += (unsigned)a;')
        self.lines.append('\ttab[cnt % 3u] ^= (short)b;')
        self.lines.append('\tout_d(d * 2 + f);')
        self.lines.append('\treturn (long)cnt + *p + tab[1] + (d < f) + (long)(int)(f > -1000 && f < 1000 ? f * 4 : 1);')
        self.lines.append('}')
        self.helpers.append(name)
        self.features.add('static-local')
        # a function taking and returning a union, and one taking a pointer to struct
        u = self.unions[0]
        name = self.fresh('uf')
        self.lines.append('static union %s %s(union %s x, int k)' % (u, name, u))
        self.lines.append('{')
        self.lines.append('\tx.b[(unsigned)k % 4u] ^= 0x5a;')
        self.lines.append('\treturn x;')
        self.lines.append('}')
        self.ufunc = name

    # ------------------------------------------------------------ lvalues
    def lvalues(self, env):
        """(text, type, bit-field width or None) of integer lvalues in reach"""
        lv = [(n, t, None) for n, t in self.gvars if not n.startswith('i_')]
        lv += [(n, t, None) for n, t in env.get('ints', []) if not (n.startswith('i_') or n.startswith('c_'))]
        for n, et, cnt in self.garr:
            lv.append(('%s[(unsigned)%s %% %du]' % (n, self.iexpr(env, 'unsigned', 1), cnt), et, None))
        for n, tag in self.gstructs:
            for f in self.struct_fields(tag):
                if f[1] in INTMAP:
                    lv.append(('%s.%s' % (n, f[0]), f[1], f[2]))
        for n, et in env.get('ptrs', []):
            lv.append(('(*%s)' % n, et, None))
        for n, tag in env.get('sptrs', []):
            for f in self.struct_fields(tag):
                if f[1] in INTMAP:
                    lv.append(('%s->%s' % (n, f[0]), f[1], f[2]))
        return lv

    def compound_stmt(self, env, ind):
        """one compound assignment or ++/-- without undefined behaviour; sometimes its value is printed"""
        rng = self.rng
        lv = self.lvalues(env)
        if not lv:
            return
        text, t, w = rng.choice(lv)
        bits, sg = INTMAP[t]
        ew = w or bits                          # effective width of the object
        pw = 64 if ew > 32 else 32              # width of the promoted left operand
        # + - * ++ -- cannot overflow: the object is promoted to int and stays far from its limits, or it is unsigned
        # and at least as wide as int (wraps)
        arith_ok = ew <= 16 or (not sg and ew >= 32)
        ops = ['&=', '|=', '^=', '>>=', '/=', '%=']
        if t == '_Bool':
            ops = ['&=', '|=', '^=', '+=', '*=', '++', '--', '++', '--']
        elif arith_ok:
            ops += ['+=', '-=', '*=', '++', '--', '++', '--']
        if not sg and t != '_Bool':
            ops.append('<<=')
        op = rng.choice(ops)
        usable = True
        self.features.add('compound:' + ('bitfield' if w else 'bool' if t == '_Bool' else 'small' if ew < 32 else 'wide'))
        if op in ('++', '--'):
            post = rng.random() < 0.5
            e = '%s%s' % (text, op) if post else '%s%s' % (op, text)
            if (usable or post) and rng.random() < 0.5:
                self.lines.append('%sout_l(%s);' % (ind, e))
            else:
                self.lines.append('%s%s;' % (ind, e))
                self.lines.append('%sout_l(%s);' % (ind, text))
            return
        if op in ('/=', '%='):
            rhs = '((%s & 0xff) + 1)' % self.iexpr(env, 'int', 2)
        elif op == '>>=':
            rhs = '(%s & %d)' % (self.iexpr(env, 'int', 2), pw - 1)
        elif op == '<<=':
            if ew < 32:                         # promoted to int: the result must stay below 2^31
                rhs = '(%s & %d)' % (self.iexpr(env, 'int', 2), 15 if ew <= 16 else 0)
            else:
                rhs = '(%s & %d)' % (self.iexpr(env, 'int', 2), pw - 1)
        elif op in ('+=', '-=', '*=') and (ew <= 16 or t == '_Bool'):
            rhs = '(%s & 0xff)' % self.iexpr(env, 'int', 2)
        elif op in ('+=', '-=', '*='):
            rhs = self.iexpr(env, rng.choice(UNSIGNED_WIDE), 2)
        else:
            rhs = self.iexpr(env, rng.choice(['int', 'long', 'unsigned char', t]), 2)
        if usable and rng.random() < 0.4:
            self.lines.append('%sout_l(%s %s %s);' % (ind, text, op, rhs))
        else:
            self.lines.append('%s%s %s %s;' % (ind, text, op, rhs))
        if rng.random() < 0.5:
            self.lines.append('%sout_l(%s);' % (ind, text))

    # ------------------------------------------------------------ statements
    def extra_stmt(self, env, ind, depth):
        rng = self.rng
        r = rng.random()
        if r < 0.34:
            self.compound_stmt(env, ind)
        elif r < 0.40 and self.plain:
            # struct copies: global <-> local, through a pointer, and a conditional choice between two
            tag = rng.choice(self.plain)
            gs = [g for g, t in self.gstructs if t == tag]
            n = self.fresh('lp')
            self.lines.append('%sstruct %s %s = %s;' % (ind, tag, n, gs[0] if gs and rng.random() < 0.5 else self.struct_init(tag)))
            p = self.fresh('sp')
            self.lines.append('%sstruct %s *%s = &%s;' % (ind, tag, p, n))
            env['sptrs'] = env.get('sptrs', []) + [(p, tag)]
            if gs:
                self.lines.append('%s%s = *%s;' % (ind, rng.choice(gs), p))
                m = self.fresh('lp')
                self.lines.append('%sstruct %s %s = %s ? %s : *%s;' % (ind, tag, m, self.iexpr(env, 'int', 1), rng.choice(gs), p))
                fs = [f for f in self.struct_fields(tag) if f[1] in INTMAP]
                for f in fs[:2]:
                    self.lines.append('%sout_l(%s.%s);' % (ind, m, f[0]))
            self.features.add('struct-copy')
        elif r < 0.46:
            u = self.unions[0]
            g = 'gu%s' % u
            self.lines.append('%s%s.u = %s;' % (ind, g, self.iexpr(env, 'unsigned', 2)))
            self.lines.append('%s%s = %s(%s, %s);' % (ind, g, self.ufunc, g, self.iexpr(env, 'int', 1)))
            self.lines.append('%sout_l(%s.b[%d] + %s.h[%d] + (long)%s.u);' % (ind, g, rng.randrange(4), g, rng.randrange(2), g))
            self.lines.append('%s%s.h[1] = %s;' % (ind, g, self.iexpr(env, 'unsigned short', 1)))
            self.lines.append('%sout_l(%s.i);' % (ind, g))
            self.features.add('union')
        elif r < 0.53 and depth < 2:
            # VLA: size between 1 and 6; sizeof is evaluated at run time
            n = self.fresh('n_')
            v = self.fresh('vl')
            et = rng.choice(['long', 'int', 'short', 'unsigned char', 'double'])
            self.lines.append('%sint %s = (int)((unsigned)%s %% 6u) + 1;' % (ind, n, self.iexpr(env, 'unsigned', 2)))
            self.lines.append('%s{' % ind)
            self.lines.append('%s\t%s %s[%s];' % (ind, et, v, n))
            self.lines.append('%s\tfor (int k = 0; k < %s; k++) %s[k] = (%s)(k * %d + %d);' % (ind, n, v, et, rng.randint(1, 9), rng.randint(0, 50)))
            self.lines.append('%s\tout_l((long)sizeof %s);' % (ind, v))
            self.lines.append('%s\t%s(%s[%s - 1]);' % (ind, 'out_d' if et == 'double' else 'out_l', v, n))
            self.lines.append('%s\t%s(%s[(unsigned)%s %% (unsigned)%s]);' % (ind, 'out_d' if et == 'double' else 'out_l', v, self.iexpr(env, 'unsigned', 1), n))
            self.lines.append('%s}' % ind)
            self.features.add('vla')
        elif r < 0.58:
            q = self.fresh('al')
            k = rng.randint(1, 24)
            self.lines.append('%sunsigned char *%s = __builtin_alloca(%d);' % (ind, q, k))
            self.lines.append('%sfor (int k = 0; k < %d; k++) %s[k] = (unsigned char)(k * 7 + %d);' % (ind, k, q, rng.randint(0, 255)))
            self.lines.append('%sout_l(%s[%d] + %s[0]);' % (ind, q, rng.randrange(k), q))
            self.features.add('alloca')
        elif r < 0.65:
            # compound literals: scalar array, struct
            et = rng.choice(['int', 'short', 'unsigned char', 'long'])
            vals = [lit(rng, et) for _ in range(rng.randint(1, 4))]
            p = self.fresh('cl')
            self.lines.append('%s%s *%s = (%s[]){ %s };' % (ind, et, p, et, ', '.join(vals)))
            self.lines.append('%sout_l(%s[%d]);' % (ind, p, rng.randrange(len(vals))))
            self.lines.append('%s%s[0] += 1;' % (ind, p) if et in ('unsigned char', 'short') else '%s%s[0] ^= 1;' % (ind, p))
            self.lines.append('%sout_l(*%s);' % (ind, p))
            if self.plain:
                tag = rng.choice(self.plain)
                fs = [f for f in self.struct_fields(tag) if f[1] in INTMAP]
                if fs:
                    self.lines.append('%sout_l(((struct %s)%s).%s);' % (ind, tag, self.struct_init(tag), rng.choice(fs)[0]))
            self.features.add('compound-literal')
        elif r < 0.72:
            # automatic arrays with partial / designated / string initialisers
            et = rng.choice(['int', 'short', 'long', 'unsigned char', 'char'])
            cnt = rng.randint(2, 7)
            a = self.fresh('la')
            if et in ('char', 'unsigned char') and rng.random() < 0.5:
                s = ''.join(rng.choice('abcxyz09') for _ in range(rng.randint(0, cnt - 1)))
                init = '"%s"' % s
            elif rng.random() < 0.4:
                idx = sorted(rng.sample(range(cnt), rng.randint(1, min(3, cnt))))
                init = '{ %s }' % ', '.join('[%d] = %s' % (j, lit(rng, et)) for j in idx)
            else:
                init = '{ %s }' % ', '.join(lit(rng, et) for _ in range(rng.randint(1, cnt)))
            self.lines.append('%s%s %s[%d] = %s;' % (ind, et, a, cnt, init))
            self.lines.append('%sfor (int k = 0; k < %d; k++) out_l(%s[k]);' % (ind, cnt, a))
            p = self.fresh('wp')
            self.lines.append('%s%s *%s = %s;' % (ind, et, p, a))
            self.lines.append('%s%s++;' % (ind, p))
            self.lines.append('%sout_l((long)((unsigned long)*%s + (unsigned long)(%s - %s) + (unsigned long)(%s > %s) + (unsigned long)%s[-1]));' % (ind, p, p, a, p, a, p))
            self.lines.append('%s--%s;' % (ind, p))
            self.lines.append('%sout_l(%s == %s);' % (ind, p, a))
            env['ptrs'] = env.get('ptrs', []) + [(p, et)]
            self.features.add('auto-array-init')
        elif r < 0.80 and self.helpers:
            h = rng.choice(self.helpers)
            ucs = [n for n, t in self.gvars if t == 'unsigned char']
            if not ucs:
                n = self.fresh('uc')
                self.lines.append('%sunsigned char %s = %s;' % (ind, n, lit(rng, 'unsigned char')))
                env['ints'].append((n, 'unsigned char'))
                ucs = [n]
            self.lines.append('%sout_l(%s(%s, %s, &%s, %s, %s));' % (ind, h, self.iexpr(env, 'int', 2), self.fexpr(env, 'double', 2), rng.choice(ucs),
                                                                 self.iexpr(env, 'long', 2), self.fexpr(env, 'float', 1)))
            self.features.add('mixed-call')
        elif r < 0.88:
            # floating point: conversions both ways from lvalues of every integer type, comparisons, ++/--
            d = self.fresh('fd')
            ft = rng.choice(FLTS)
            ints = self.int_atoms(env)
            if ints:
                n, t = rng.choice(ints)
                self.lines.append('%s%s %s = %s;' % (ind, ft, d, n))      # lvalue of any integer type -> float/double
            else:
                self.lines.append('%s%s %s = %s;' % (ind, ft, d, self.fexpr(env, ft, 2)))
            self.lines.append('%s%s++;' % (ind, d))
            self.lines.append('%sout_d(%s);' % (ind, d))
            st = rng.choice(SUBINT)
            self.lines.append('%sout_d((%s)(%s)%s + (%s)(%s)(%s + 1));' % (ind, ft, st, self.iexpr(env, 'int', 2), rng.choice(FLTS), rng.choice(SUBINT), self.iexpr(env, 'unsigned', 1)))
            self.lines.append('%sout_l((%s > 1.5) + (%s <= %s) * 2 + (%s != 0) * 4 + !%s * 8);' % (ind, d, d, self.fexpr(env, 'double', 1), d, d))
            t = rng.choice([n for n, _, _ in INTS])
            self.lines.append('%sout_l((%s)(%s > 0 && %s < 100 ? %s : 3));' % (ind, t if t != '_Bool' else 'int', d, d, d))
            self.lines.append('%sif (%s) out_l(1); else out_l(2);' % (ind, d))
            env['flts'] = env.get('flts', []) + [(d, ft)]
            self.features.add('float-conv')
        else:
            # conditions of every scalar type in every position
            atoms = self.int_atoms(env)
            if atoms:
                n, t = rng.choice(atoms)
                self.lines.append('%sout_l((%s ? 1 : 2) + (%s && %s) * 4 + (%s || %s) * 8 + !%s * 16);' % (ind, n, n, self.iexpr(env, 'int', 1), n, self.iexpr(env, 'long', 1), n))
                self.lines.append('%swhile (%s) { out_l(7); break; }' % (ind, n))
                self.lines.append('%sfor (int q = 0; %s && q < 2; q++) out_l(q);' % (ind, n))
                self.lines.append('%sdo out_l(9); while (!(%s) && 0);' % (ind, n))
            # conditions that are VALUES of 1- and 2-byte types (the bits above are whatever the operand had)
            st1, st2, st3 = rng.choice(SUBINT), rng.choice(SUBINT), rng.choice(SUBINT + ['_Bool'])
            e1 = '(%s)(%s << %d)' % (st1, self.iexpr(env, 'unsigned', 2), rng.choice([8, 16, 7, 15]))
            e2 = '(%s)(%s * 256u)' % (st2, self.iexpr(env, 'unsigned', 1))
            e3 = '(%s)(%s | 0x10000u)' % (st3, self.iexpr(env, 'unsigned', 1))
            self.lines.append('%sif (%s) out_l(21); else out_l(22);' % (ind, e1))
            self.lines.append('%sout_l((%s ? 3 : 4) + (%s && %s) * 8 + (%s || %s) * 16 + !%s * 32);' % (ind, e2, e1, e3, e2, e1, e3))
            self.lines.append('%swhile (%s) { out_l(23); break; }' % (ind, e3))
            self.lines.append('%sfor (int q = 0; %s && q < 1; q++) out_l(24);' % (ind, e2))
            self.features.add('conditions')

    def stmts(self, env, ind, budget, inloop=False, depth=0):
        rng = self.rng
        while budget > 0:
            if rng.random() < 0.45:
                budget -= 1
                self.extra_stmt(env, ind, depth)
            else:
                # one statement of the base generator
                super().stmts(env, ind, 1, inloop, depth)
                budget -= 1


def gen_program(rng, size=3):
    g = Gen(rng, size)
    src = g.program().replace('\\x7f', '\\177')      # a hex escape swallows following hex digits (clang: out of range)
    return src, {'globals': g.globals, 'features': sorted(g.features)}


if __name__ == '__main__':
    import random, sys
    s, m = gen_program(random.Random(int(sys.argv[1]) if len(sys.argv) > 1 else 1), int(sys.argv[2]) if len(sys.argv) > 2 else 3)
    sys.stdout.write(s)
