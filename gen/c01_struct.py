# Structural cases for C01: tiny C functions + the typed core AST expr.c builds for them (via gen/c01_front.py).
#   cases(rng, signedchar, nrandom) -> list of dict(name, family, c (function text), sx (oracle request), decls (file-scope text))
import c01_front as F
from c01_front import T, P, Ty, Agg, Front

BIN_OPS = ['*', '/', '%', '+', '-', '<<', '>>', '&', '|', '^', '<', '>', '<=', '>=', '==', '!=', '&&', '||']
BF_WIDTHS = [1, 7, 8, 9, 15, 16, 17, 31, 32, 33, 63, 64]


class Cases:
    def __init__(self, sc):
        self.sc = sc
        self.out = []
        self.n = 0
        self.decls = []         # file-scope declarations shared by all cases
        self.ndecl = 0

    def add(self, family, rett, params, body, fr, note=''):
        self.n += 1
        name = 'f%d' % self.n
        c, sx = F.function(name, rett, params, body, self.sc)
        self.out.append(dict(name=name, family=family, c=c, sx=sx, note=note, params=params, rett=rett))

    def struct(self, body, size, align, members):
        self.ndecl += 1
        tag = 'S%d' % self.ndecl
        text = 'struct %s { %s };\n' % (tag, body)
        self.decls.append(text)
        return Agg(tag, size, align, members, text)


def bitfield_struct(cs, ut, width, before):
    """struct { UT pad : before; UT f : width; } - both in one unit of type UT at offset 0 (before + width <= 8*size)"""
    bits = ut.size() * 8
    after = bits - before - width
    body = ('%s pad : %d; ' % (ut.c(), before) if before else '') + '%s f : %d;' % (ut.c(), width)
    members = {'f': (ut, 0, (before, after))}
    if before:
        members['pad'] = (ut, 0, (0, bits - before))
    return cs.struct(body, ut.size(), ut.size(), members)


def cases(rng, sc, nrandom=300):
    cs = Cases(sc)
    arith = [T(n) for n in F.ARITH_TYPES]
    ints = [T(n) for n in F.INT_TYPES]

    # ---- F1: every binary operator on every pair of arithmetic types
    for op in BIN_OPS:
        for lt in arith:
            for rt in arith:
                fr = Front(sc)
                a, b = fr.local('a', 0, lt), fr.local('b', 1, rt)
                e = fr.binary(op, a, b)
                if e is None:
                    continue
                cs.add('binop', e.t, [('a', lt), ('b', rt)], F.s_block([F.s_ret(fr, e, e.t)]), fr, '%s %s %s' % (lt.name, op, rt.name))

    # ---- F2: every conversion pair (explicit cast), pointers included
    ptr = P(T('int'))
    for dt in arith + [ptr]:
        for st in arith + [ptr]:
            if (dt.isptr() and st.isflt()) or (st.isptr() and dt.isflt()):
                continue
            fr = Front(sc)
            a = fr.local('a', 0, st)
            e = fr.cast(dt, a)
            cs.add('convert', dt, [('a', st)], F.s_block([F.s_ret(fr, e, dt)]), fr, '%s <- %s' % (dt.name, st.name))
    # implicit conversion at a return and at an assignment through a pointer
    for dt in arith:
        for st in arith:
            fr = Front(sc)
            a, p = fr.local('a', 0, st), fr.local('p', 1, P(dt))
            cs.add('convert-assign', None, [('a', st), ('p', P(dt))], F.s_block([F.s_expr(fr.assign(fr.deref(p), a))]), fr, '*(%s*) = %s' % (dt.name, st.name))

    # ---- F3: bit-fields
    units = ['uchar', 'schar', 'ushort', 'short', 'uint', 'int', 'ulong', 'long', 'bool'] + (['char'] if True else [])
    for un in units:
        ut = T(un)
        bits = ut.size() * 8
        widths = [w for w in BF_WIDTHS if w <= bits] if un != 'bool' else [1]
        for w in widths:
            befores = sorted(set(b for b in [0, 1, 2, 3, 5, (bits - w) // 2, bits - w - 1, bits - w] if 0 <= b <= bits - w))
            for before in befores:
                agg = bitfield_struct(cs, ut, w, before)
                pt = P(agg)
                note = '%s:%d@%d' % (un, w, before)
                # read
                fr = Front(sc)
                p = fr.local('p', 0, pt)
                m = fr.member(p, 'f')
                pe = fr.promote(m)
                cs.add('bf-read', pe.t, [('p', pt)], F.s_block([F.s_ret(fr, m, pe.t)]), fr, note)
                # write, and the value of the assignment
                fr = Front(sc)
                p, v = fr.local('p', 0, pt), fr.local('v', 1, T('long'))
                cs.add('bf-write', None, [('p', pt), ('v', T('long'))], F.s_block([F.s_expr(fr.assign(fr.member(p, 'f'), v))]), fr, note)
                fr = Front(sc)
                p, v = fr.local('p', 0, pt), fr.local('v', 1, T('int'))
                cs.add('bf-assign-value', T('long'), [('p', pt), ('v', T('int'))],
                       F.s_block([F.s_ret(fr, fr.assign(fr.member(p, 'f'), v), T('long'))]), fr, note)
                # compound assignment and ++/--
                for op in ('+', '>>', '^'):
                    fr = Front(sc)
                    p, v = fr.local('p', 0, pt), fr.local('v', 1, T('int'))
                    e = fr.compound(op, fr.member(p, 'f'), v)
                    cs.add('bf-compound', None, [('p', pt), ('v', T('int'))], F.s_block([F.s_expr(e)]), fr, note + ' ' + op + '=')
                for inc, post in ((True, True), (False, False)):
                    fr = Front(sc)
                    p = fr.local('p', 0, pt)
                    e = fr.incdec(fr.member(p, 'f'), inc, post)
                    pe = fr.promote(e)
                    cs.add('bf-incdec', pe.t, [('p', pt)], F.s_block([F.s_ret(fr, e, pe.t)]), fr, note)
                # through a struct object (E.M) rather than a pointer
                fr = Front(sc)
                g = fr.glob('g%s' % agg.tag, 1, agg)
                cs.decls.append('struct %s g%s;\n' % (agg.tag, agg.tag))
                m = fr.member(g, 'f', arrow=False)
                pe = fr.promote(m)
                cs.add('bf-read-dot', pe.t, [], F.s_block([F.s_ret(fr, m, pe.t)]), fr, note)

    # ---- F4: ++/-- on every scalar type
    s5 = cs.struct('char c[5];', 5, 1, {})
    for t in arith + [P(T('int')), P(T('char')), P(s5), P(T('double'))]:
        for inc in (True, False):
            for post in (True, False):
                fr = Front(sc)
                p = fr.local('p', 0, P(t))
                e = fr.incdec(fr.deref(p), inc, post)
                cs.add('incdec', t, [('p', P(t))], F.s_block([F.s_ret(fr, e, t)]), fr, t.c())
                fr = Front(sc)
                a = fr.local('a', 0, t)
                e = fr.incdec(a, inc, post)
                cs.add('incdec-param', t, [('a', t)], F.s_block([F.s_ret(fr, e, t)]), fr, t.c())

    # ---- F5: unary operators, controlling expressions of every type
    for t in arith + [P(T('int'))]:
        for u in ('neg', 'bnot', 'lnot', 'plus'):
            if t.isptr() and u != 'lnot':
                continue
            if t.isflt() and u == 'bnot':
                continue
            fr = Front(sc)
            a = fr.local('a', 0, t)
            e = getattr(fr, u)(a)
            cs.add('unary', e.t, [('a', t)], F.s_block([F.s_ret(fr, e, e.t)]), fr, '%s %s' % (u, t.name))
        one, two = Front(sc).const(1), Front(sc).const(2)
        # if / if-else / while / do / for with break and continue / ?: / && ||
        fr = Front(sc)
        a = fr.local('a', 0, t)
        body = ('\tif (a)\n\t\treturn 1;\n\treturn 2;\n',
                '(block (if %s %s (ret %s)) (ret %s))' % (t.sx(sc), a.sx, one.sx, two.sx))
        cs.add('if', T('int'), [('a', t)], body, fr, t.name)
        fr = Front(sc)
        a, n = fr.local('a', 0, t), fr.local('n', 1, T('int'))
        inc = fr.incdec(n, True, True)
        dec = fr.incdec(n, False, False)
        body = ('\tif (a)\n\t\tn++;\n\telse\n\t\t--n;\n\twhile (a) {\n\t\tn++;\n\t\tif (n)\n\t\t\tbreak;\n\t\tcontinue;\n\t}\n\tdo\n\t\t--n;\n\twhile (a);\n\treturn n;\n',
                '(block (ifelse %s %s (expr %s) (expr %s)) (while %s %s (block (expr %s) (if i4s %s (break)) (continue))) (do (expr %s) %s %s) (ret %s))'
                % (t.sx(sc), a.sx, inc.sx, dec.sx, t.sx(sc), a.sx, inc.sx, n.sx, dec.sx, t.sx(sc), a.sx, n.sx))
        cs.add('loops', T('int'), [('a', t), ('n', T('int'))], body, fr, t.name)
        fr = Front(sc)
        a, n = fr.local('a', 0, t), fr.local('n', 1, T('int'))
        init = fr.assign(n, fr.const(0))
        step = fr.incdec(n, True, True)
        body = ('\tfor (n = 0; a; n++) {\n\t\tif (n)\n\t\t\tcontinue;\n\t\tbreak;\n\t}\n\tfor (;;)\n\t\tbreak;\n\treturn n;\n',
                '(block (for %s (%s %s) %s (block (if i4s %s (continue)) (break))) (for - - - (break)) (ret %s))'
                % (init.sx, t.sx(sc), a.sx, step.sx, n.sx, n.sx))
        cs.add('for', T('int'), [('a', t), ('n', T('int'))], body, fr, t.name)
        for bt in (T('int'), T('char'), T('double'), T('ulong')):
            fr = Front(sc)
            a, b, c = fr.local('a', 0, t), fr.local('b', 1, bt), fr.local('c', 2, T('short'))
            e = fr.cond(a, b, c)
            if e is not None:
                cs.add('cond', e.t, [('a', t), ('b', bt), ('c', T('short'))], F.s_block([F.s_ret(fr, e, e.t)]), fr, '%s ? %s : short' % (t.name, bt.name))
    # && || on pointers, nested
    for op in ('&&', '||'):
        fr = Front(sc)
        p, q, a = fr.local('p', 0, ptr), fr.local('q', 1, P(T('double'))), fr.local('a', 2, T('uchar'))
        e = fr.binary(op, fr.binary(op, p, a), fr.binary('&&' if op == '||' else '||', q, fr.lnot(p)))
        cs.add('logic', T('int'), [('p', ptr), ('q', P(T('double'))), ('a', T('uchar'))], F.s_block([F.s_ret(fr, e, T('int'))]), fr, op)

    # ---- F6: dead code after a jump (the `dead` block), goto
    fr = Front(sc)
    a = fr.local('a', 0, T('int'))
    one = fr.const(1)
    e1 = fr.binary('&&', a, fr.const(2))
    e2 = fr.cond(a, fr.const(3), fr.const(4))
    body = ('\treturn 1;\n\ta && 2;\n\treturn a ? 3 : 4;\n', '(block (ret %s) (expr %s) (ret %s))' % (one.sx, e1.sx, e2.sx))
    cs.add('dead', T('int'), [('a', T('int'))], body, fr, 'logic after return')
    fr = Front(sc)
    a = fr.local('a', 0, T('int'))
    inc = fr.incdec(a, True, True)
    body = ('\tgoto l;\n\ta++;\nl:\n\tif (a)\n\t\tgoto m;\n\ta++;\nm:\n\treturn a;\n',
            '(block (goto 0) (expr %s) (label 0) (if i4s %s (goto 1)) (expr %s) (label 1) (ret %s))' % (inc.sx, a.sx, inc.sx, a.sx))
    cs.add('goto', T('int'), [('a', T('int'))], body, fr, 'goto')
    fr = Front(sc)
    a = fr.local('a', 0, T('int'))
    inc = fr.incdec(a, True, True)
    body = ('\twhile (a) {\n\t\tbreak;\n\t\ta++;\n\t}\n\tfor (;;) {\n\t\tcontinue;\n\t\ta++;\n\t}\n',
            '(block (while i4s %s (block (break) (expr %s))) (for - - - (block (continue) (expr %s))))' % (a.sx, inc.sx, inc.sx))
    cs.add('dead', T('int'), [('a', T('int'))], body, fr, 'code after break/continue; function end reached in a dead position')

    # ---- F7: aggregate copies (size, alignment) and automatic objects of every alignment
    shapes = [('char c[1];', 1, 1), ('char c[3];', 3, 1), ('char c[17];', 17, 1), ('short s[3];', 6, 2), ('int i[3];', 12, 4),
              ('int i; char c;', 8, 4), ('long l;', 8, 8), ('long l[2]; int i;', 24, 8), ('double d; char c[9];', 24, 8),
              ('_Alignas(16) char c[16];', 16, 16), ('_Alignas(16) long l[3];', 32, 16), ('_Alignas(32) int i;', 32, 32), ('short s;', 2, 2)]
    for body_, size, align in shapes:
        agg = cs.struct(body_, size, align, {})
        fr = Front(sc)
        a, b = fr.local('a', 0, P(agg)), fr.local('b', 1, P(agg))
        e = fr.assign(fr.deref(a), fr.deref(b))
        cs.add('copy', None, [('a', P(agg)), ('b', P(agg))], F.s_block([F.s_expr(e)]), fr, 'size %d align %d' % (size, align))
    for align in (1, 2, 4, 8, 16, 32, 64, 128):
        for size in (1, 5, 16, 40):
            arr = Agg('-', size, align, {}, '')
            c = '\t_Alignas(%d) char x[%d];\n\treturn x;\n' % (align, size)
            sx = '(block (decl 0 %d %d) (ret (addr (local (agg %d %d) 0))))' % (size, align, size, align)
            cs.add('alloc', P(T('char')), [], (c, sx), Front(sc), 'size %d align %d' % (size, align))

    # ---- F8: calls (fixed and variadic), pointer arithmetic, subscripts, comparisons, members
    cs.decls.append('long ext2(int, unsigned char);\nvoid extv(void);\ndouble extd(float, ...);\nint extn(int, ...);\n')
    fr = Front(sc)
    a, b = fr.local('a', 0, T('long')), fr.local('b', 1, T('float'))
    e = fr.binary('+', fr.call('ext2', 1, T('long'), [T('int'), T('uchar')], [a, b]), fr.call('extd', 2, T('double'), [T('float')], [a, b, a, fr.local('c', 2, T('schar'))], variadic=True))
    cs.add('call', T('double'), [('a', T('long')), ('b', T('float')), ('c', T('schar'))], F.s_block([F.s_ret(fr, e, T('double'))]), fr, 'fixed + variadic')
    fr = Front(sc)
    a = fr.local('a', 0, T('int'))
    c1 = fr.call('extv', 1, None, [], [])
    c2 = fr.call('extn', 2, T('int'), [T('int')], [a], variadic=True)
    cs.add('call', T('int'), [('a', T('int'))], F.s_block([('\textv();\n', '(expr %s)' % c1.sx), F.s_ret(fr, c2, T('int'))]), fr, 'void call, variadic without actuals')
    for et in (T('char'), T('short'), T('int'), T('long'), T('double'), s5):
        for it in (T('schar'), T('int'), T('uint'), T('long'), T('ulong'), T('bool')):
            fr = Front(sc)
            p, i = fr.local('p', 0, P(et)), fr.local('i', 1, it)
            e = fr.binary('-', fr.binary('+', p, i), i)
            cs.add('ptr-arith', P(et), [('p', P(et)), ('i', it)], F.s_block([F.s_ret(fr, e, P(et))]), fr, '%s* +- %s' % (et.c(), it.name))
            if et is not s5:
                fr = Front(sc)
                p, i = fr.local('p', 0, P(et)), fr.local('i', 1, it)
                e = fr.index(p, i)
                cs.add('subscript', et, [('p', P(et)), ('i', it)], F.s_block([F.s_ret(fr, e, et)]), fr, '%s[%s]' % (et.c(), it.name))
        fr = Front(sc)
        p, q = fr.local('p', 0, P(et)), fr.local('q', 1, P(et))
        e = fr.binary('+', fr.binary('-', p, q), fr.conv(fr.binary('<', p, q), T('long')))
        e = fr.binary('+', e, fr.conv(fr.binary('!=', p, q), T('long')))
        cs.add('ptr-diff', T('long'), [('p', P(et)), ('q', P(et))], F.s_block([F.s_ret(fr, e, T('long'))]), fr, et.c())

    # ---- F9: random nested expressions over parameters, objects reached through pointers, members
    sm = cs.struct('int a; unsigned char b; long c; short d : 5; unsigned e : 11; double f;', 32, 8,
                   {'a': (T('int'), 0, None), 'b': (T('uchar'), 4, None), 'c': (T('long'), 8, None),
                    'd': (T('short'), 16, (0, 11)), 'e': (T('uint'), 16, (5, 16)), 'f': (T('double'), 24, None)})
    for k in range(nrandom):
        fr = Front(sc)
        nparam = rng.randint(1, 4)
        params = []
        for i in range(nparam):
            r = rng.random()
            t = T(rng.choice(F.ARITH_TYPES)) if r < 0.7 else (P(T(rng.choice(F.ARITH_TYPES))) if r < 0.9 else P(sm))
            params.append(('a%d' % i, t))
        env = [fr.local(n, i, t) for i, (n, t) in enumerate(params)]
        e = None
        for _ in range(20):
            e = rand_expr(rng, fr, env, rng.randint(1, 4))
            if e is not None and e.t.isarith():
                break
            e = None
        if e is None:
            continue
        rett = T(rng.choice(F.ARITH_TYPES)) if rng.random() < 0.5 else e.t
        cs.add('random', rett, params, F.s_block([F.s_ret(fr, e, rett)]), fr, 'depth<=4')
    return cs


def rand_expr(rng, fr, env, depth, want_lvalue=False):
    """random expression; None when a sub-expression is rejected by the typing rules"""
    r = rng.random()
    if depth <= 0 or r < 0.12:
        # leaves: parameters, *pointer, member, small constants
        cands = []
        for e in env:
            if e.t.isarith():
                cands.append(e)
            elif isinstance(e.t.base, Agg):
                for m in e.t.base.members:
                    cands.append(fr.member(e, m))
            else:
                cands.append(fr.deref(e))
                if not want_lvalue:
                    cands.append(e)
        if not want_lvalue and rng.random() < 0.25:
            return fr.const(rng.choice([0, 1, 2, 7, 255, 65536, 2147483647]), rng.choice(['', '', 'U', 'L', 'UL']))
        return rng.choice(cands) if cands else None
    if want_lvalue:
        return rand_expr(rng, fr, env, 0, True)
    d = depth - 1
    if r < 0.55:
        op = rng.choice(BIN_OPS)
        a, b = rand_expr(rng, fr, env, d), rand_expr(rng, fr, env, d)
        if a is None or b is None:
            return None
        return fr.binary(op, a, b)
    if r < 0.65:
        a = rand_expr(rng, fr, env, d)
        if a is None:
            return None
        u = rng.choice(['neg', 'bnot', 'lnot', 'plus'])
        if a.t.isptr() and u != 'lnot':
            return None
        if u == 'bnot' and not a.t.isint():
            return None
        return getattr(fr, u)(a)
    if r < 0.73:
        a = rand_expr(rng, fr, env, d)
        if a is None or not (a.t.isarith() or a.t.isptr()):
            return None
        t = T(rng.choice(F.ARITH_TYPES))
        if a.t.isptr() and t.isflt():
            return None
        return fr.cast(t, a)
    if r < 0.80:
        # the condition is a bare parameter (expr.c evaluates the condition: nothing foldable in it)
        cs_ = [e for e in env if e.t.isarith() or e.t.isptr()]
        a, b = rand_expr(rng, fr, env, d), rand_expr(rng, fr, env, d)
        if not cs_ or a is None or b is None:
            return None
        return fr.cond(rng.choice(cs_), a, b)
    lv = rand_expr(rng, fr, env, 0, True)
    if lv is None or not lv.lvalue or not lv.t.isarith():
        return None
    if r < 0.87:
        b = rand_expr(rng, fr, env, d)
        if b is None or not b.t.isarith():
            return None
        return fr.assign(lv, b)
    if r < 0.94:
        b = rand_expr(rng, fr, env, d)
        if b is None or not b.t.isarith():
            return None
        op = rng.choice(['*', '/', '%', '+', '-', '<<', '>>', '&', '|', '^'])
        return fr.compound(op, lv, b)
    return fr.incdec(lv, rng.random() < 0.5, rng.random() < 0.5)
