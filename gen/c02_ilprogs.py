# Hand-structured QBE IL programs used to validate harness/c02/il2c.py against the extracted interpreter (ocaml/qbe/oracle run):
# every opcode of ops.h in every result class, boundary operands (both as immediates and as run-time values loaded from data
# that the C compiler cannot see), sub-word memory accesses at unaligned addresses, parallel phis, static and dynamic alloc,
# aggregates passed and returned by value (register, mixed, memory classes; unions; nested), variadic definitions and calls
# (register save area and overflow area), va_list passed down and copied, calls through pointers, thread-local data, strings.
# The only externals are out_l(l), out_d(d) and exit(w).  Nothing here traps (no division by zero, no out-of-range conversion).
import struct

M32 = (1 << 32) - 1
M64 = (1 << 64) - 1

IVALS = {
    'w': [0, 1, 2, 3, 7, 31, 32, 33, 0x7f, 0x80, 0xff, 0x100, 0x7fff, 0x8000, 0xffff, 0x10000, 0x7fffffff, 0x80000000, 0xfffffffe, 0xffffffff,
          0x12345678, 0xdeadbeef],
    'l': [0, 1, 2, 3, 31, 32, 33, 63, 64, 65, 0xff, 0xffff, 0x7fffffff, 0x80000000, 0xffffffff, 0x100000000, 0x7fffffffffffffff,
          0x8000000000000000, 0xfffffffffffffffe, 0xffffffffffffffff, 0x123456789abcdef0, 0xfedcba9876543210],
}
DVALS = [0.0, -0.0, 1.0, -1.0, 0.5, 1.5, 2.5, -2.5, 0.1, 1e10, -1e10, 1e300, 4294967295.0, 4294967296.0, 9007199254740993.0, 2147483647.0,
         -2147483648.0, 9.2233720368547e18, 1.8446744073709e19, 5e-324, 2.2250738585072014e-308, float('inf'), float('-inf'), float('nan')]
SVALS = [0.0, -0.0, 1.0, -1.0, 0.5, 1.5, -2.5, 0.1, 1e10, 3e38, 16777217.0, 2147483520.0, 4294967040.0, 1e-45, float('inf'), float('-inf'), float('nan')]


def dlit(x):
    if x != x:
        return 'd_nan'
    return 'd_' + repr(float(x)).replace('inf', 'inf')


def slit(x):
    if x != x:
        return 's_nan'
    if x in (float('inf'), float('-inf')):
        return 's_' + repr(x)
    y = struct.unpack('<f', struct.pack('<f', x))[0]
    return 's_%.17g' % y


class Prog:
    """builds `main` as a straight line of observations; helpers add data and functions"""

    def __init__(self):
        self.types, self.datas, self.funcs, self.body = [], [], [], []
        self.n = 0
        self.nd = 0

    def t(self):
        self.n += 1
        return '%%v%d' % self.n

    def emit(self, s):
        self.body.append('\t' + s)

    def rt_int(self, cls, v):
        """a run-time integer: loaded from a data definition"""
        self.nd += 1
        nm = '$k%d' % self.nd
        self.datas.append('data %s = align 8 { %s %d, }' % (nm, cls, v))
        r = self.t()
        self.emit('%s =%s load%s %s' % (r, cls, cls, nm))
        return r

    def rt_flt(self, cls, lit):
        self.nd += 1
        nm = '$k%d' % self.nd
        self.datas.append('data %s = align 8 { %s %s, }' % (nm, cls, lit))
        r = self.t()
        self.emit('%s =%s load%s %s' % (r, cls, cls, nm))
        return r

    def out(self, cls, v):
        """observe a value of class cls (all bits)"""
        if cls == 'l':
            self.emit('call $out_l(l %s)' % v)
        elif cls == 'w':
            a, b = self.t(), self.t()
            self.emit('%s =l extuw %s' % (a, v))
            self.emit('call $out_l(l %s)' % a)
            self.emit('%s =l extsw %s' % (b, v))
            self.emit('call $out_l(l %s)' % b)
        elif cls == 'd':
            self.emit('call $out_d(d %s)' % v)
        else:
            a, b = self.t(), self.t()
            self.emit('%s =w cast %s' % (a, v))
            self.emit('%s =l extuw %s' % (b, a))
            self.emit('call $out_l(l %s)' % b)

    def text(self, status=0):
        s = '\n'.join(self.types + self.datas + self.funcs)
        s += '\nexport\nfunction w $main() {\n@start\n' + '\n'.join(self.body) + '\n\tret %d\n}\n' % status
        return s


def chunks(xs, n):
    return [xs[i:i + n] for i in range(0, len(xs), n)]


def int_ops(rng):
    progs = []
    for cls in 'wl':
        vals = IVALS[cls]
        bits = 32 if cls == 'w' else 64
        smin = 1 << (bits - 1)
        mask = (1 << bits) - 1
        for op in ('add', 'sub', 'mul', 'div', 'rem', 'udiv', 'urem', 'or', 'xor', 'and', 'sar', 'shr', 'shl'):
            pairs = [(a, b) for a in vals for b in vals]
            pairs = rng.sample(pairs, 70) + [(a, a) for a in vals[:6]]
            p = Prog()
            for k, (a, b) in enumerate(pairs):
                if op in ('div', 'rem', 'udiv', 'urem') and b & mask == 0:
                    continue
                if op in ('div', 'rem') and a & mask == smin and b & mask == mask:
                    continue
                mode = k % 3
                x = str(a) if mode == 0 else p.rt_int(cls, a)
                y = str(b) if mode in (0, 1) else p.rt_int('w' if op in ('sar', 'shr', 'shl') else cls, b & (M32 if op in ('sar', 'shr', 'shl') else mask))
                r = p.t()
                p.emit('%s =%s %s %s, %s' % (r, cls, op, x, y))
                p.out(cls, r)
            progs.append(('int-%s-%s' % (op, cls), p.text()))
        # neg, copy
        p = Prog()
        for a in vals:
            for src in (str(a), p.rt_int(cls, a)):
                for op in ('neg', 'copy'):
                    r = p.t()
                    p.emit('%s =%s %s %s' % (r, cls, op, src))
                    p.out(cls, r)
        progs.append(('int-neg-copy-%s' % cls, p.text()))
    return progs


def cmp_ops(rng):
    progs = []
    for cls in 'wl':
        for rc in 'wl':
            p = Prog()
            vals = IVALS[cls]
            for cc in ('eq', 'ne', 'sle', 'slt', 'sge', 'sgt', 'ule', 'ult', 'uge', 'ugt'):
                pairs = rng.sample([(a, b) for a in vals for b in vals], 24) + [(vals[-1], vals[-1]), (vals[0], vals[-1])]
                for k, (a, b) in enumerate(pairs):
                    x = str(a) if k % 2 else p.rt_int(cls, a)
                    y = str(b) if k % 3 == 0 else p.rt_int(cls, b)
                    r = p.t()
                    p.emit('%s =%s c%s%s %s, %s' % (r, rc, cc, cls, x, y))
                    p.out(rc, r)
            progs.append(('cmp-%s-to-%s' % (cls, rc), p.text()))
    for cls, vals, lit in (('s', SVALS, slit), ('d', DVALS, dlit)):
        for rc in 'wl':
            p = Prog()
            for cc in ('eq', 'ne', 'le', 'lt', 'ge', 'gt', 'o', 'uo'):
                pairs = rng.sample([(a, b) for a in vals for b in vals], 30) + [(vals[-1], vals[-1]), (0.0, -0.0), (vals[-1], 1.0), (1.0, vals[-1])]
                for k, (a, b) in enumerate(pairs):
                    x = lit(a) if k % 2 else p.rt_flt(cls, lit(a))
                    y = lit(b) if k % 3 == 0 else p.rt_flt(cls, lit(b))
                    r = p.t()
                    p.emit('%s =%s c%s%s %s, %s' % (r, rc, cc, cls, x, y))
                    p.out(rc, r)
            progs.append(('cmp-%s-to-%s' % (cls, rc), p.text()))
    return progs


def flt_ops(rng):
    progs = []
    for cls, vals, lit in (('s', SVALS, slit), ('d', DVALS, dlit)):
        p = Prog()
        for op in ('add', 'sub', 'mul', 'div'):
            for k, (a, b) in enumerate(rng.sample([(a, b) for a in vals for b in vals], 40)):
                x = lit(a) if k % 2 else p.rt_flt(cls, lit(a))
                y = lit(b) if k % 3 == 0 else p.rt_flt(cls, lit(b))
                r = p.t()
                p.emit('%s =%s %s %s, %s' % (r, cls, op, x, y))
                # the payload/sign of a NaN result is not specified: observe "is NaN" instead
                if a != a or b != b or (op in ('sub', 'add') and abs(a) == float('inf') and abs(b) == float('inf')) \
                        or (op == 'mul' and ((a == 0 and abs(b) == float('inf')) or (b == 0 and abs(a) == float('inf')))) \
                        or (op == 'div' and ((a == 0 and b == 0) or (abs(a) == float('inf') and abs(b) == float('inf')))):
                    c = p.t()
                    p.emit('%s =l cuo%s %s, %s' % (c, cls, r, r))
                    p.out('l', c)
                else:
                    p.out(cls, r)
        for a in vals:
            if a != a:
                continue
            for src in (lit(a), p.rt_flt(cls, lit(a))):
                for op in ('neg', 'copy'):
                    r = p.t()
                    p.emit('%s =%s %s %s' % (r, cls, op, src))
                    p.out(cls, r)
        progs.append(('flt-arith-%s' % cls, p.text()))
    return progs


def conv_ops(rng):
    progs = []
    p = Prog()
    for a in IVALS['w']:
        for k, src in enumerate((str(a), p.rt_int('w', a))):
            for op in ('extsw', 'extuw'):
                r = p.t()
                p.emit('%s =l %s %s' % (r, op, src))
                p.out('l', r)
            for op in ('extsh', 'extuh', 'extsb', 'extub'):
                for rc in 'wl':
                    r = p.t()
                    p.emit('%s =%s %s %s' % (r, rc, op, src))
                    p.out(rc, r)
            for op in ('swtof', 'uwtof'):
                for rc in 'sd':
                    r = p.t()
                    p.emit('%s =%s %s %s' % (r, rc, op, src))
                    p.out(rc, r)
            r = p.t()
            p.emit('%s =s cast %s' % (r, src))
            r2 = p.t()
            p.emit('%s =w cast %s' % (r2, r))
            p.out('w', r2)
    # an l temporary used where w is expected: low half only
    for a in IVALS['l']:
        src = p.rt_int('l', a)
        for op in ('extsw', 'extuw', 'extsb', 'extuh'):
            r = p.t()
            p.emit('%s =l %s %s' % (r, op, src))
            p.out('l', r)
        r = p.t()
        p.emit('%s =w add %s, 1' % (r, src))
        p.out('w', r)
        r = p.t()
        p.emit('%s =w copy %s' % (r, src))
        p.out('w', r)
        r = p.t()
        p.emit('%s =l cultw %s, 5' % (r, src))
        p.out('l', r)
    progs.append(('conv-ext', p.text()))
    p = Prog()
    for a in IVALS['l']:
        for src in (str(a), p.rt_int('l', a)):
            for op in ('sltof', 'ultof'):
                for rc in 'sd':
                    r = p.t()
                    p.emit('%s =%s %s %s' % (r, rc, op, src))
                    p.out(rc, r)
            r = p.t()
            p.emit('%s =d cast %s' % (r, src))
            r2 = p.t()
            p.emit('%s =l cast %s' % (r2, r))
            p.out('l', r2)
    for extra in (0x20000040000001, 0xffffff8000000001, 0xffffffffffffff80, 0xffffff7fffffffff, 0x8000008000000001, 0x4000004000000001, 0x7fffffbfffffffff):
        src = p.rt_int('l', extra)
        for op in ('sltof', 'ultof'):
            for rc in 'sd':
                r = p.t()
                p.emit('%s =%s %s %s' % (r, rc, op, src))
                p.out(rc, r)
    progs.append(('conv-ltof', p.text()))
    p = Prog()
    for cls, vals, lit in (('s', SVALS, slit), ('d', DVALS, dlit)):
        pre = cls
        for a in vals:
            if a != a or abs(a) == float('inf'):
                continue
            for src in (lit(a), p.rt_flt(cls, lit(a))):
                t = int(a)
                if -(1 << 31) <= t < (1 << 31):
                    r = p.t()
                    p.emit('%s =w %stosi %s' % (r, pre, src))
                    p.out('w', r)
                if -(1 << 63) <= t < (1 << 63):
                    r = p.t()
                    p.emit('%s =l %stosi %s' % (r, pre, src))
                    p.out('l', r)
                if 0 <= t < (1 << 32) and a > -1.0 and not (a == 0 and str(a)[0] == '-'):
                    r = p.t()
                    p.emit('%s =w %stoui %s' % (r, pre, src))
                    p.out('w', r)
                if 0 <= t < (1 << 64) and a > -1.0 and not (a == 0 and str(a)[0] == '-'):
                    r = p.t()
                    p.emit('%s =l %stoui %s' % (r, pre, src))
                    p.out('l', r)
                if cls == 's':
                    r = p.t()
                    p.emit('%s =d exts %s' % (r, src))
                    p.out('d', r)
                elif abs(a) < 3e38:
                    r = p.t()
                    p.emit('%s =s truncd %s' % (r, src))
                    p.out('s', r)
    progs.append(('conv-ftoi', p.text()))
    return progs


def mem_ops(rng):
    p = Prog()
    p.datas.append('data $buf = align 16 { z 64 }')
    p.datas.append('data $img = align 8 { b 1 2 3 128 255 254 127 0, h 65535 32768 1, w 4294967295 2147483648, l 18446744073709551615, s s_1.5, d d_-2.5, b "A\\042\\134\\001\\377z", z 5, b 9, z 2, l $img + 3, }')
    for off in (0, 1, 2, 3, 5, 7, 8, 14, 16, 22, 24, 25):
        a = p.t()
        p.emit('%s =l add $img, %d' % (a, off))
        for op in ('loadsb', 'loadub', 'loadsh', 'loaduh', 'loadw'):
            for rc in 'wl':
                r = p.t()
                p.emit('%s =%s %s %s' % (r, rc, op, a))
                p.out(rc, r)
        r = p.t()
        p.emit('%s =l loadl %s' % (r, a))
        p.out('l', r)
        r = p.t()
        p.emit('%s =l loadl %s' % (r, a))
        r2 = p.t()
        p.emit('%s =d cast %s' % (r2, r))
        p.out('d', r2)
    a = p.t()
    p.emit('%s =l add $img, 56' % a)
    r = p.t()
    p.emit('%s =l loadl %s' % (r, a))
    r2 = p.t()
    p.emit('%s =l sub %s, $img' % (r2, r))
    p.out('l', r2)
    for off, cls in ((30, 's'), (34, 'd')):
        a = p.t()
        p.emit('%s =l add $img, %d' % (a, off))
        r = p.t()
        p.emit('%s =%s load%s %s' % (r, cls, cls, a))
        p.out(cls, r)
    for off in range(42, 56):
        a = p.t()
        p.emit('%s =l add $img, %d' % (a, off))
        r = p.t()
        p.emit('%s =w loadub %s' % (r, a))
        p.out('w', r)
    # stores of each width at (un)aligned offsets, observed through 8-byte loads
    for k, (op, v) in enumerate((('storeb', '511'), ('storeh', '131071'), ('storew', '18446744073709551614'), ('storel', '81985529216486895'),
                                 ('stores', 's_1.5'), ('stored', 'd_-0.1'))):
        for off in (0, 1, 3, 9, 13):
            for src in (v, None):
                if src is None:
                    if v[0] == 's':
                        src = p.rt_flt('s', v)
                    elif v[0] == 'd':
                        src = p.rt_flt('d', v)
                    else:
                        src = p.rt_int('l' if op == 'storel' else 'w', int(v) & (M64 if op == 'storel' else M32))
                p.emit('storel 0, $buf')
                a = p.t()
                p.emit('%s =l add $buf, 8' % a)
                p.emit('storel 12297829382473034410, %s' % a)
                a2 = p.t()
                p.emit('%s =l add $buf, 16' % a2)
                p.emit('storel 0, %s' % a2)
                d = p.t()
                p.emit('%s =l add $buf, %d' % (d, off))
                p.emit('%s %s, %s' % (op, src, d))
                for o in (0, 8, 16):
                    q, r = p.t(), p.t()
                    p.emit('%s =l add $buf, %d' % (q, o))
                    p.emit('%s =l loadl %s' % (r, q))
                    p.out('l', r)
    return [('mem', p.text())]


def cfg_alloc():
    progs = []
    progs.append(('phi-swap', '''
export
function w $main() {
@start
	jmp @loop
@loop
	%a =l phi @start 1, @body %b
	%b =l phi @start 2, @body %a
	%c =w phi @start 0, @body %c1
	%i =w phi @start 0, @body %i1
	%t =w csltw %i, 5
	jnz %t, @body, @done
@body
	call $out_l(l %a)
	call $out_l(l %b)
	%c1 =w add %c, %i
	%i1 =w add %i, 1
	jmp @loop
@done
	%e =l extsw %c
	call $out_l(l %e)
	jnz %t, @same, @same
@same
	%z =l phi @done 77
	call $out_l(l %z)
	ret 5
}
'''))
    progs.append(('phi-float-fallthrough', '''
function d $pick(w %c) {
@start
	jnz %c, @a, @b
@a
	%x =d copy d_1.25
@b
	%r =d phi @start d_-3, @a %x
	%s =s phi @start s_2, @a s_0.5
	%sd =d exts %s
	%q =d add %r, %sd
	ret %q
}
export
function w $main() {
@start
	%a =d call $pick(w 0)
	call $out_d(d %a)
	%b =d call $pick(w 1)
	call $out_d(d %b)
	%c =d call $pick(w 4294967296)
	call $out_d(d %c)
	ret 0
}
'''))
    progs.append(('alloc', '''
function l $dyn(w %n) {
@start
	%s4 =l alloc4 4
	%s8 =l alloc8 24
	%s16 =l alloc16 48
	%z =l alloc4 0
	storew 5, %s4
	jmp @loop
@loop
	%i =w phi @start 0, @body %i1
	%prev =l phi @start 0, @body %p
	%acc =l phi @start 0, @body %acc1
	%c =w csltw %i, %n
	jnz %c, @body, @done
@body
	%sz =l extsw %i
	%sz1 =l mul %sz, 8
	%sz2 =l add %sz1, 8
	%p =l alloc16 %sz2
	%al =l and %p, 15
	%acc0 =l add %acc, %al
	%ne =l cnel %p, %prev
	%acc1 =l add %acc0, %ne
	storel %prev, %p
	%i1 =w add %i, 1
	jmp @loop
@done
	%cnt =l copy 0
	jmp @walk
@walk
	%q =l phi @done %prev, @step %nx
	%k =l phi @done 0, @step %k1
	%nz =w cnel %q, 0
	jnz %nz, @step, @out
@step
	%nx =l loadl %q
	%k1 =l add %k, 1
	jmp @walk
@out
	call $out_l(l %k)
	%a4 =l and %s4, 3
	%a8 =l and %s8, 7
	%a16 =l and %s16, 15
	%m =l or %a4, %a8
	%m2 =l or %m, %a16
	call $out_l(l %m2)
	%v =w loadw %s4
	%ve =l extsw %v
	call $out_l(l %ve)
	ret %acc
}
export
function w $main() {
@start
	%r =l call $dyn(w 6)
	call $out_l(l %r)
	%r2 =l call $dyn(w 0)
	call $out_l(l %r2)
	ret 9
}
'''))
    progs.append(('exit-and-hlt', '''
function $never(w %c) {
@start
	jnz %c, @bad, @ok
@bad
	hlt
@ok
	ret
}
export
function w $main() {
@start
	call $never(w 0)
	call $out_l(l 1)
	call $exit(w 7)
	call $out_l(l 2)
	ret 0
}
'''))
    return progs


STRUCTS = [
    # (name, IL body, [(offset, field class b/h/w/l/s/d)])
    ('s_w', '{ w, }', [(0, 'w')]),
    ('s_b3', '{ b 3, }', [(0, 'b'), (1, 'b'), (2, 'b')]),
    ('s_ll', '{ l, l, }', [(0, 'l'), (8, 'l')]),
    ('s_dd', '{ d, d, }', [(0, 'd'), (8, 'd')]),
    ('s_ssss', '{ s 4, }', [(0, 's'), (4, 's'), (8, 's'), (12, 's')]),
    ('s_ld', '{ l, d, }', [(0, 'l'), (8, 'd')]),
    ('s_dl', '{ d, l, }', [(0, 'd'), (8, 'l')]),
    ('s_sw', '{ s, w, }', [(0, 's'), (4, 'w')]),
    ('s_wsb', '{ w, s, b 3, }', [(0, 'w'), (4, 's'), (8, 'b'), (10, 'b')]),
    ('s_lll', '{ l, l, l, }', [(0, 'l'), (8, 'l'), (16, 'l')]),
    ('s_big', '{ w 10, d, }', [(0, 'w'), (36, 'w'), (40, 'd')]),
    ('s_hbw', '{ h, b, w, h, }', [(0, 'h'), (2, 'b'), (4, 'w'), (8, 'h')]),
    ('s_un', '{ { l } { d } { w 3 } }', [(0, 'l'), (8, 'w')]),
    ('s_un2', '{ { s } { w } }', [(0, 'w')]),
    ('s_nest', '{ :s_sw, :s_w 2, d, }', [(0, 's'), (4, 'w'), (8, 'w'), (12, 'w'), (16, 'd')]),
    ('s_nest2', '{ b, :s_b3, s, }', [(0, 'b'), (1, 'b'), (3, 'b'), (4, 's')]),
]
SIZES = dict(b=1, h=2, w=4, l=8, s=4, d=8)


def aggregates(rng):
    """every struct shape: callee receives it by value between other arguments, observes the fields, overwrites its copy,
    returns a modified copy; the caller checks its original is untouched"""
    progs = []
    sizes = dict(s_w=4, s_b3=3, s_ll=16, s_dd=16, s_ssss=16, s_ld=16, s_dl=16, s_sw=8, s_wsb=12, s_lll=24, s_big=48, s_hbw=12,
                 s_un=16, s_un2=4, s_nest=24, s_nest2=8)
    for group in chunks(STRUCTS, 4):
        types = ['type :%s = %s' % (n, b) for n, b, _ in STRUCTS if n in ('s_sw', 's_w', 's_b3')]
        types += ['type :%s = %s' % (n, b) for n, b, _ in group if n not in ('s_sw', 's_w', 's_b3')]
        funcs = []
        main = []
        tn = [0]

        def t():
            tn[0] += 1
            return '%%m%d' % tn[0]

        def observe(lines, base, fields, tf):
            for off, fc in fields:
                a = tf()
                lines.append('\t%s =l add %s, %d' % (a, base, off))
                if fc in 'bhw':
                    r, e = tf(), tf()
                    lines.append('\t%s =w load%s %s' % (r, dict(b='ub', h='uh', w='w')[fc], a))
                    lines.append('\t%s =l extuw %s' % (e, r))
                    lines.append('\tcall $out_l(l %s)' % e)
                elif fc == 'l':
                    r = tf()
                    lines.append('\t%s =l loadl %s' % (r, a))
                    lines.append('\tcall $out_l(l %s)' % r)
                elif fc == 'd':
                    r = tf()
                    lines.append('\t%s =d loadd %s' % (r, a))
                    lines.append('\tcall $out_d(d %s)' % r)
                else:
                    r, e = tf(), tf()
                    lines.append('\t%s =s loads %s' % (r, a))
                    lines.append('\t%s =d exts %s' % (e, r))
                    lines.append('\tcall $out_d(d %s)' % e)

        for n, body, fields in group:
            sz = sizes[n]
            for variant in range(3):
                # variant 0: struct first; 1: after 5 ints and 7 doubles (registers nearly used up); 2: after 7 ints and 9 doubles (stack)
                ni, nf = ((0, 0), (5, 7), (7, 9))[variant]
                fn = 'f_%s_%d' % (n, variant)
                cn = [0]

                def ct():
                    cn[0] += 1
                    return '%%c%d' % cn[0]
                params = ['l %%i%d' % i for i in range(ni)] + ['d %%f%d' % i for i in range(nf)] + [':%s %%s' % n, 'w %last']
                ls = ['function :%s $%s(%s) {' % (n, fn, ', '.join(params)), '@start']
                for i in range(ni):
                    ls.append('\tcall $out_l(l %%i%d)' % i)
                for i in range(nf):
                    ls.append('\tcall $out_d(d %%f%d)' % i)
                e = ct()
                ls.append('\t%s =l extsw %%last' % e)
                ls.append('\tcall $out_l(l %s)' % e)
                observe(ls, '%s', fields, ct)
                # overwrite the copy
                for off in range(0, sz):
                    a = ct()
                    ls.append('\t%s =l add %%s, %d' % (a, off))
                    ls.append('\tstoreb %d, %s' % ((off * 7 + variant + 1) & 0xff, a))
                ls.append('\tret %s')
                ls.append('}')
                funcs.append('\n'.join(ls))
                # caller
                buf = t()
                main.append('\t%s =l alloc16 %d' % (buf, sz + 16))
                for off in range(0, sz):
                    a = t()
                    main.append('\t%s =l add %s, %d' % (a, buf, off))
                    main.append('\tstoreb %d, %s' % (rng.choice([0, 1, 0x3f, 0x40, 0x7f, 0x80, 0xbf, 0xc0, 0xff, rng.randrange(256)]), a))
                args = ['l %d' % rng.choice(IVALS['l']) for _ in range(ni)] + ['d %s' % dlit(rng.choice(DVALS[:14])) for _ in range(nf)]
                r = t()
                main.append('\t%s =:%s call $%s(%s)' % (r, n, fn, ', '.join(args + [':%s %s' % (n, buf), 'w %d' % rng.choice(IVALS['w'])])))
                observe(main, buf, fields, t)       # original untouched
                # returned copy: all bytes
                for off in range(0, sz):
                    a, v, e = t(), t(), t()
                    main.append('\t%s =l add %s, %d' % (a, r, off))
                    main.append('\t%s =w loadub %s' % (v, a))
                    main.append('\t%s =l extuw %s' % (e, v))
                    main.append('\tcall $out_l(l %s)' % e)
        il = '\n'.join(types + funcs) + '\nexport\nfunction w $main() {\n@start\n' + '\n'.join(main) + '\n\tret 0\n}\n'
        progs.append(('aggregates-' + '-'.join(n for n, _, _ in group), il))
    return progs


def variadics():
    progs = []
    progs.append(('variadic', '''
type :pair = { l, d, }
data $fmt = align 1 { b "wldwldlldddddddddwl\\000", }
function l $vsum(l %fmt, l %ap) {
@start
	jmp @loop
@loop
	%p =l phi @start %fmt, @next %p1
	%acc =l phi @start 0, @next %acc1
	%c =w loadub %p
	jnz %c, @dispatch, @done
@dispatch
	%isw =w ceqw %c, 119
	jnz %isw, @w, @notw
@w
	%vw =w vaarg %ap
	%ew =l extsw %vw
	call $out_l(l %ew)
	jmp @next
@notw
	%isl =w ceqw %c, 108
	jnz %isl, @l, @d
@l
	%vl =l vaarg %ap
	call $out_l(l %vl)
	jmp @next
@d
	%vd =d vaarg %ap
	call $out_d(d %vd)
	%vdi =l dtosi %vd
	jmp @next
@next
	%add =l phi @w %ew, @l %vl, @d %vdi
	%acc1 =l add %acc, %add
	%p1 =l add %p, 1
	jmp @loop
@done
	ret %acc
}
function l $sumf(w %tag, l %fmt, ...) {
@start
	%ap =l alloc8 32
	%ap2 =l alloc8 32
	vastart %ap
	%a0 =l loadl %ap
	storel %a0, %ap2
	%s8 =l add %ap, 8
	%d8 =l add %ap2, 8
	%a1 =l loadl %s8
	storel %a1, %d8
	%s16 =l add %ap, 16
	%d16 =l add %ap2, 16
	%a2 =l loadl %s16
	storel %a2, %d16
	%e =l extsw %tag
	call $out_l(l %e)
	%r1 =l call $vsum(l %fmt, l %ap)
	call $out_l(l %r1)
	%r2 =l call $vsum(l %fmt, l %ap2)
	ret %r2
}
function d $dsum(d %first, :pair %pr, ...) {
@start
	%ap =l alloc8 24
	vastart %ap
	%x =d vaarg %ap
	%y =l vaarg %ap
	%z =d vaarg %ap
	%p8 =l add %pr, 8
	%pd =d loadd %p8
	%pl =l loadl %pr
	call $out_l(l %pl)
	call $out_l(l %y)
	%s1 =d add %first, %x
	%s2 =d add %s1, %z
	%s3 =d add %s2, %pd
	ret %s3
}
export
function w $main() {
@start
	%r =l call $sumf(w 4294967295, l $fmt, ..., w 1, l 1099511627776, d d_2.5, w 4294967294, l 3, d d_-1.5, l 4, l 5, d d_1, d d_2, d d_3, d d_4, d d_5, d d_6, d d_7, d d_8, d d_9, w 7, l 18446744073709551615)
	call $out_l(l %r)
	%pr =l alloc8 16
	storel 123, %pr
	%pr8 =l add %pr, 8
	stored d_0.5, %pr8
	%d =d call $dsum(d d_1, :pair %pr, ..., d d_2, l 99, d d_4)
	call $out_d(d %d)
	ret 0
}
'''))
    progs.append(('fnptr-thread-strings', '''
data $tab = align 8 { l $f1, l $f2, l $f1, }
thread data $tl = align 8 { l 41, w 7, z 4, }
thread data $tz = align 4 { z 8 }
data $str = align 1 { b "\\000\\001\\002\\037 !#$%&'()*+,-./09:;<=>?@AZ[]^_`az{|}~\\177\\200\\376\\377", b 0, }
export data $exported = align 4 { w 5, }
function l $f1(l %x) {
@start
	%r =l add %x, 1
	ret %r
}
function l $f2(l %x) {
@start
	%r =l mul %x, 3
	ret %r
}
function w $rec(w %n) {
@start
	%z =w ceqw %n, 0
	jnz %z, @base, @step
@base
	ret 0
@step
	%n1 =w sub %n, 1
	%r =w call $rec(w %n1)
	%r1 =w add %r, %n
	ret %r1
}
export
function w $main() {
@start
	jmp @loop
@loop
	%i =l phi @start 0, @loop %i1
	%x =l phi @start 5, @loop %y
	%off =l mul %i, 8
	%slot =l add $tab, %off
	%fp =l loadl %slot
	%y =l call %fp(l %x)
	call $out_l(l %y)
	%i1 =l add %i, 1
	%c =w cultl %i1, 3
	jnz %c, @loop, @after
@after
	%t =l loadl thread $tl
	call $out_l(l %t)
	%t1 =l add %t, 1
	storel %t1, thread $tl
	%t2 =l loadl thread $tl
	call $out_l(l %t2)
	%tw =l add thread $tl, 8
	%w =w loadw %tw
	%we =l extsw %w
	call $out_l(l %we)
	storew 3, thread $tz
	%z =w loadw thread $tz
	%ze =l extsw %z
	call $out_l(l %ze)
	%r =w call $rec(w 100)
	%re =l extsw %r
	call $out_l(l %re)
	jmp @str
@str
	%k =l phi @after 0, @str %k1
	%h =l phi @after 0, @str %h1
	%p =l add $str, %k
	%b =w loadub %p
	%be =l extuw %b
	%h0 =l mul %h, 31
	%h1 =l add %h0, %be
	%k1 =l add %k, 1
	%m =w cultl %k1, 44
	jnz %m, @str, @end
@end
	call $out_l(l %h1)
	%ex =w loadw $exported
	%exe =l extsw %ex
	call $out_l(l %exe)
	ret 255
}
'''))
    return progs


def all_programs(rng):
    ps = []
    ps += int_ops(rng)
    ps += cmp_ops(rng)
    ps += flt_ops(rng)
    ps += conv_ops(rng)
    ps += mem_ops(rng)
    ps += cfg_alloc()
    ps += aggregates(rng)
    ps += variadics()
    return ps


def opcodes_used(progs):
    import re
    seen = set()
    for _, il in progs:
        for m in re.finditer(r'^\t(?:%\S+ =\S+ )?([a-z0-9]+)\b', il, re.M):
            seen.add(m.group(1))
    return seen


if __name__ == '__main__':
    import random, sys, os
    out = sys.argv[1]
    os.makedirs(out, exist_ok=True)
    for n, il in all_programs(random.Random(1)):
        open(os.path.join(out, n + '.ssa'), 'w', encoding='latin1').write(il)
