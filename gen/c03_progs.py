# Compact typed C program generator for C03 (and reusable by C01/C02/C08): UB-free, deterministic programs
# whose only externals are out_l(long) and out_d(double).  One statement per line (the shrinker deletes lines).
#   gen_program(rng, size) -> (source, meta)    meta = {'globals': [(name, ctype, alignas|None)], 'features': set}
INTS = [  # name, bits, signed
    ('char', 8, True), ('signed char', 8, True), ('unsigned char', 8, False), ('short', 16, True),
    ('unsigned short', 16, False), ('int', 32, True), ('unsigned', 32, False), ('long', 64, True),
    ('unsigned long', 64, False), ('long long', 64, True), ('unsigned long long', 64, False), ('_Bool', 1, False),
]
INTMAP = {n: (b, s) for n, b, s in INTS}
FLTS = ['float', 'double']


def lit(rng, t):
    b, s = INTMAP[t]
    if t == '_Bool':
        return rng.choice(['0', '1'])
    lo, hi = (-(1 << (b - 1)), (1 << (b - 1)) - 1) if s else (0, (1 << b) - 1)
    cands = [0, 1, 2, 3, 7, 8, 15, 16, 31, 32, 33, 63, 64, 127, 128, 255, 256, 32767, 32768, 65535, 65536, hi, hi - 1, lo, lo + 1,
             rng.randint(lo, hi), rng.randint(-100, 100), 1 << rng.randrange(b), (1 << rng.randrange(b)) - 1]
    v = rng.choice([c for c in cands if lo <= c <= hi])
    if v == -(1 << 63):
        return '(-9223372036854775807L-1)'
    if v == -(1 << 31):
        return '(-2147483647-1)'
    suf = ''
    if b == 64:
        suf = 'L' if s else 'UL'
    elif not s and b == 32:
        suf = 'U'
    txt = '%d%s' % (v, suf) if rng.random() < 0.7 or v < 0 else '0x%x%s' % (v, suf)
    return '((%s)%s)' % (t, txt) if b < 32 else ('(%s)' % txt if v < 0 else txt)


class Gen:
    def __init__(self, rng, size):
        self.rng = rng
        self.size = size
        self.lines = []
        self.globals = []      # (name, ctype, alignas)
        self.gvars = []        # scalar integer globals: (name, type)
        self.gflt = []         # (name, type)
        self.garr = []         # (name, elemtype, n)
        self.structs = []      # (tag, [(field, type, bits or None)])
        self.gstructs = []     # (name, tag)
        self.funcs = []        # (name, rettype, [paramtypes]) pure integer functions
        self.sfuncs = []       # struct functions: (name, tag) : struct tag f(struct tag, int)
        self.vfuncs = []       # variadic: (name, kind)
        self.features = set()
        self.late = []
        self.uid = 0

    def fresh(self, p):
        self.uid += 1
        return '%s%d' % (p, self.uid)

    # ------------------------------------------------------------ expressions
    def int_atoms(self, env):
        a = [('%s' % n, t) for n, t in self.gvars] + [(n, t) for n, t in env.get('ints', [])]
        return a

    def atom(self, env, t):
        rng = self.rng
        r = rng.random()
        atoms = self.int_atoms(env)
        if r < 0.25 or not atoms:
            return lit(rng, t)
        if r < 0.6:
            n, vt = rng.choice(atoms)
            return '(%s)%s' % (t, n) if vt != t else n
        if r < 0.7 and self.garr:
            n, et, cnt = rng.choice(self.garr)
            return '(%s)%s[(unsigned)%s %% %du]' % (t, n, self.iexpr(env, 'unsigned', 0), cnt)
        if r < 0.8 and self.gstructs:
            n, tag = rng.choice(self.gstructs)
            fs = [f for f in self.struct_fields(tag) if f[1] in INTMAP]
            if fs:
                f = rng.choice(fs)
                self.features.add('bitfield-read' if f[2] else 'member-read')
                return '(%s)%s.%s' % (t, n, f[0])
        if r < 0.86 and env.get('ptrs'):
            n, et = rng.choice(env['ptrs'])
            self.features.add('deref')
            return '(%s)*%s' % (t, n)
        if r < 0.93 and self.gflt:
            n, ft = rng.choice(self.gflt)
            self.features.add('flt2int')
            # bounded, so the conversion is defined
            return '(%s)(%s)(%s > -100.0 && %s < 100.0 ? %s : 1.0)' % (t, 'int' if t != '_Bool' else 'int', n, n, n)
        return lit(rng, t)

    def struct_fields(self, tag):
        for tg, fs in self.structs:
            if tg == tag:
                return fs
        return []

    def iexpr(self, env, t, depth):
        """an expression of integer type t without UB and without side effects"""
        rng = self.rng
        if depth <= 0 or rng.random() < 0.15:
            return self.atom(env, t)
        d = depth - 1
        r = rng.random()
        b, s = INTMAP[t]
        if r < 0.22:     # unsigned wrap-around arithmetic
            u = rng.choice(['unsigned', 'unsigned long', 'unsigned long long'])
            op = rng.choice(['+', '-', '*', '&', '|', '^'])
            return '(%s)(%s %s %s)' % (t, self.iexpr(env, u, d), op, self.iexpr(env, u, d))
        if r < 0.32:     # signed arithmetic on small operands (promoted to int, cannot overflow)
            st = rng.choice(['signed char', 'short', 'char', 'unsigned char'])
            op = rng.choice(['+', '-', '*'])
            return '(%s)(%s %s %s)' % (t, self.iexpr(env, st, d), op, self.iexpr(env, st, d))
        if r < 0.40:     # signed int/long arithmetic on masked operands
            st = rng.choice(['int', 'long'])
            op = rng.choice(['+', '-', '*'])
            return '(%s)((%s & 0x7fff) %s (%s & 0x3fff))' % (t, self.iexpr(env, st, d), op, self.iexpr(env, st, d))
        if r < 0.50:     # division and remainder
            self.features.add('div')
            if rng.random() < 0.5:
                u = rng.choice(['unsigned', 'unsigned long'])
                return '(%s)(%s %s (%s | 1))' % (t, self.iexpr(env, u, d), rng.choice(['/', '%']), self.iexpr(env, u, d))
            st = rng.choice(['int', 'long'])
            sign = rng.choice(['', '-'])
            return '(%s)(%s(%s & 0xfffff) %s ((%s & 0xff) + 1))' % (t, sign, self.iexpr(env, st, d), rng.choice(['/', '%']), self.iexpr(env, st, d))
        if r < 0.60:     # shifts
            self.features.add('shift')
            if rng.random() < 0.5:
                u, m = rng.choice([('unsigned', 31), ('unsigned long', 63)])
                return '(%s)(%s %s (%s & %d))' % (t, self.iexpr(env, u, d), rng.choice(['<<', '>>']), self.iexpr(env, 'int', d), m)
            st, m = rng.choice([('int', 31), ('long', 63)])
            return '(%s)(%s >> (%s & %d))' % (t, self.iexpr(env, st, d), self.iexpr(env, 'unsigned', d), m)
        if r < 0.72:     # comparisons
            ct = rng.choice([n for n, _, _ in INTS if n != '_Bool'])
            op = rng.choice(['<', '>', '<=', '>=', '==', '!='])
            return '(%s)(%s %s %s)' % (t, self.iexpr(env, ct, d), op, self.iexpr(env, ct, d))
        if r < 0.80:
            self.features.add('logic')
            op = rng.choice(['&&', '||'])
            lt = rng.choice([n for n, _, _ in INTS])
            return '(%s)(%s %s %s)' % (t, self.iexpr(env, lt, d), op, self.iexpr(env, rng.choice(['int', 'long', 'char']), d))
        if r < 0.87:
            self.features.add('cond')
            return '(%s ? %s : %s)' % (self.iexpr(env, rng.choice(['int', 'long', 'unsigned char']), d), self.iexpr(env, t, d), self.iexpr(env, t, d))
        if r < 0.91:
            return '(%s)%s%s' % (t, rng.choice(['~', '!', '-(unsigned)', '-(unsigned long)']), self.iexpr(env, rng.choice(['int', 'unsigned', 'long']), d))
        if r < 0.95 and self.funcs and not env.get('nocall'):
            self.features.add('call')
            n, rt, ps = rng.choice(self.funcs)
            return '(%s)%s(%s)' % (t, n, ', '.join(self.iexpr(env, p, d) for p in ps))
        if r < 0.98:
            self.features.add('int2flt')
            ft = rng.choice(FLTS)
            return '(%s)(int)((%s)(%s & 0xfff) * 0.5%s)' % (t, ft, self.iexpr(env, 'int', d), 'f' if ft == 'float' else '')
        return '(%s)sizeof(%s)' % (t, rng.choice([n for n, _, _ in INTS] + ['double', 'void *'] + ['struct %s' % s[0] for s in self.structs]))

    def fexpr(self, env, t, depth):
        """floating expression: values stay small and exact enough to be reproducible (no overflow, no NaN)"""
        rng = self.rng
        if depth <= 0 or rng.random() < 0.3:
            r = rng.random()
            cands = [(n, ft) for n, ft in self.gflt] + env.get('flts', [])
            if r < 0.4 and cands:
                n, ft = rng.choice(cands)
                return '(%s)(%s > -1e6 && %s < 1e6 ? %s : 2.0)' % (t, n, n, n)
            if r < 0.7:
                return '(%s)%s' % (t, rng.choice(['0.5', '1.5', '-2.25', '3.0', '0.1', '1e3', '0.0', '-0.0', '7.0f', '0.333f']))
            return '(%s)(%s & 0xfff)' % (t, self.iexpr(env, 'int', 1))
        d = depth - 1
        op = rng.choice(['+', '-', '*'])
        if rng.random() < 0.2:
            return '(%s)(%s / ((%s)(%s & 0xff) + 1.0))' % (t, self.fexpr(env, t, d), t, self.iexpr(env, 'int', 1))
        return '(%s)(%s %s %s)' % (t, self.fexpr(env, rng.choice(FLTS), d), op, self.fexpr(env, rng.choice(FLTS), d))

    # ------------------------------------------------------------ declarations
    def gen_structs(self):
        rng = self.rng
        for i in range(rng.randint(1, 3)):
            tag = self.fresh('S')
            fs = []
            nf = rng.randint(1, 6)
            for j in range(nf):
                r = rng.random()
                fn = 'f%d' % j
                if r < 0.35:
                    bt = rng.choice(['int', 'unsigned', 'long', 'unsigned long', 'unsigned char', 'short', 'unsigned short', '_Bool'])
                    w = rng.randint(1, INTMAP[bt][0])
                    if rng.random() < 0.3:
                        w = rng.choice([x for x in (1, 7, 8, 9, 15, 16, 17, 31, 32, 33, 63, 64) if x <= INTMAP[bt][0]])
                    fs.append((fn, bt, w))
                    self.features.add('bitfield')
                elif r < 0.75:
                    fs.append((fn, rng.choice([n for n, _, _ in INTS]), None))
                elif r < 0.85:
                    fs.append((fn, rng.choice(FLTS), None))
                elif r < 0.93 and self.structs:
                    fs.append((fn, 'struct %s' % rng.choice(self.structs)[0], None))
                else:
                    fs.append((fn, 'arr:%s:%d' % (rng.choice(['char', 'int', 'short', 'long']), rng.randint(1, 5)), None))
            self.structs.append((tag, fs))
            body = []
            for fn, ft, w in fs:
                if ft.startswith('arr:'):
                    _, et, n = ft.split(':')
                    body.append('%s %s[%s];' % (et, fn, n))
                elif w:
                    body.append('%s %s : %d;' % (ft, fn, w))
                else:
                    body.append('%s %s;' % (ft, fn))
            self.lines.append('struct %s { %s };' % (tag, ' '.join(body)))

    def init_for(self, ft, w):
        rng = self.rng
        if ft in INTMAP:
            if w:
                b, s = INTMAP[ft]
                if ft == '_Bool':
                    return rng.choice(['0', '1'])
                lo, hi = (-(1 << (w - 1)), (1 << (w - 1)) - 1) if s else (0, (1 << w) - 1)
                v = rng.choice([lo, hi, 0, 1, rng.randint(lo, hi)])
                v = max(lo, min(hi, v))
                if v == -(1 << 63):
                    return '(-9223372036854775807L-1)'
                return '%d%s' % (v, 'L' if abs(v) > 0x7fffffff and s else ('UL' if v > 0x7fffffff else ''))
            return lit(rng, ft)
        if ft in FLTS:
            # (a float-suffixed literal initialising a double is avoided: cproc does not round it, see notes/C03.md)
            return rng.choice(['0.5', '-1.25', '3.0', '1e10', '0.1f', '-0.0', '42', '0.1'] if ft == 'float' else ['0.5', '-1.25', '3.0', '1e10', '0.25f', '-0.0', '42', '0.1'])
        if ft.startswith('struct '):
            return self.struct_init(ft[7:])
        if ft.startswith('arr:'):
            _, et, n = ft.split(':')
            n = int(n)
            if et == 'char' and rng.random() < 0.5:
                s = ''.join(rng.choice('abcxyz01 ') for _ in range(rng.randint(0, n)))
                return '"%s"' % s
            k = rng.randint(0, n)
            return '{ %s }' % ', '.join(lit(rng, et) for _ in range(max(1, k)))
        return '0'

    def struct_init(self, tag):
        rng = self.rng
        fs = self.struct_fields(tag)
        if rng.random() < 0.3:
            picks = rng.sample(fs, rng.randint(1, len(fs)))
            self.features.add('designator')
            return '{ %s }' % ', '.join('.%s = %s' % (f[0], self.init_for(f[1], f[2])) for f in picks)
        k = rng.randint(1, len(fs))
        return '{ %s }' % ', '.join(self.init_for(f[1], f[2]) for f in fs[:k])

    def gen_globals(self):
        rng = self.rng
        n = rng.randint(3, 6 + self.size)
        for i in range(n):
            r = rng.random()
            st = rng.choice(['', 'static ']) if rng.random() < 0.8 else ''
            name = self.fresh('g')
            al = None
            pre = ''
            if rng.random() < 0.08:
                al = rng.choice([8, 16, 32, 64])
                pre = '_Alignas(%d) ' % al
                self.features.add('alignas')
            if r < 0.35:
                t = rng.choice([x for x, _, _ in INTS])
                init = ' = %s' % lit(rng, t) if rng.random() < 0.8 else ''
                self.lines.append('%s%s%s %s%s;' % (st, pre, t, name, init))
                self.gvars.append((name, t))
                self.globals.append((name, t, al))
            elif r < 0.45:
                t = rng.choice(FLTS)
                init = ' = %s' % self.init_for(t, None) if rng.random() < 0.8 else ''
                self.lines.append('%s%s%s %s%s;' % (st, pre, t, name, init))
                self.gflt.append((name, t))
                self.globals.append((name, t, al))
            elif r < 0.65:
                et = rng.choice([x for x, _, _ in INTS if x != '_Bool'])
                cnt = rng.randint(1, 9)
                k = rng.randint(0, cnt)
                if et in ('char', 'unsigned char') and rng.random() < 0.4:
                    toks = [rng.choice(['a', 'b', 'c', 'x', 'y', 'z', ' ', '\\n', '\\0', '\\"', '\\\\', '\\377', '\\x7f', '%'])
                            for _ in range(rng.randint(0, cnt))]     # may fill the array exactly (no terminator)
                    init = ' = "%s"' % ''.join(toks)
                    self.features.add('string-init')
                elif k == 0 and rng.random() < 0.5:
                    init = ''
                elif rng.random() < 0.25:
                    idx = sorted(rng.sample(range(cnt), min(cnt, rng.randint(1, 3))))
                    init = ' = { %s }' % ', '.join('[%d] = %s' % (j, lit(rng, et)) for j in idx)
                    self.features.add('designator')
                else:
                    init = ' = { %s }' % ', '.join(lit(rng, et) for _ in range(max(1, k)))
                self.lines.append('%s%s%s %s[%d]%s;' % (st, pre, et, name, cnt, init))
                self.garr.append((name, et, cnt))
                self.globals.append((name, '%s[%d]' % (et, cnt), al))
            elif r < 0.85 and self.structs:
                tag = rng.choice(self.structs)[0]
                init = ' = %s' % self.struct_init(tag) if rng.random() < 0.85 else ''
                self.lines.append('%sstruct %s %s%s;' % (st, tag, name, init))
                self.gstructs.append((name, tag))
                self.globals.append((name, 'struct %s' % tag, None))
            elif self.garr:
                an, et, cnt = rng.choice(self.garr)
                off = rng.randrange(cnt)
                form = rng.choice(['&%s[%d]' % (an, off), '%s + %d' % (an, off), an])
                self.lines.append('%s%s *%s = %s;' % (st, et, name, form))
                self.globals.append((name, '%s *' % et, None))
                self.features.add('reloc')
                self.gptrs = getattr(self, 'gptrs', []) + [(name, et, an, cnt, off if form != an else 0)]
            else:
                self.lines.append('%schar *%s = "%s";' % (st, name, ''.join(rng.choice('abcdef') for _ in range(rng.randint(0, 6)))))
                self.globals.append((name, 'char *', None))
                self.features.add('reloc')
        if rng.random() < 0.3:
            name = self.fresh('g')
            self.lines.append('static _Thread_local int %s = %d;' % (name, rng.randint(0, 99)))
            self.gvars.append((name, 'int'))
            self.features.add('thread')

    def gen_funcs(self):
        rng = self.rng
        for i in range(rng.randint(1, 3)):
            name = self.fresh('fn')
            rt = rng.choice([x for x, _, _ in INTS])
            ps = [rng.choice([x for x, _, _ in INTS]) for _ in range(rng.choice([0, 1, 2, 2, 3, 4, 5, 6, 7, 9]))]
            env = {'ints': [('p%d' % j, p) for j, p in enumerate(ps)], 'nocall': True}
            self.lines.append('static %s %s(%s)' % (rt, name, ', '.join('%s p%d' % (p, j) for j, p in enumerate(ps)) or 'void'))
            self.lines.append('{')
            if rng.random() < 0.5 and ps:
                self.lines.append('\tif (%s) return %s;' % (self.iexpr(env, 'int', 2), self.iexpr(env, rt, 2)))
            self.lines.append('\treturn %s;' % self.iexpr(env, rt, 3))
            if rng.random() < 0.3:      # unreachable code after the return (still has to be lowered into well-formed IL)
                self.features.add('dead-code')
                self.lines.append('\tif (%s) return %s;' % (self.iexpr(env, 'int', 2), self.iexpr(env, rt, 1)))
                self.lines.append('\treturn (%s)(%s ? 1 : 2);' % (rt, self.iexpr(env, 'long', 1)))
            self.lines.append('}')
            self.funcs.append((name, rt, ps))
        for tag, fs in self.structs[:2]:
            if rng.random() < 0.7:
                name = self.fresh('sf')
                self.features.add('struct-by-value')
                ifs = [f for f in fs if f[1] in INTMAP]
                body = []
                swap = rng.random() < 0.5       # the aggregate is not always the first parameter
                body.append('static struct %s %s(%s)' % (tag, name, 'int k, struct %s s' % tag if swap else 'struct %s s, int k' % tag))
                body.append('{')
                for f in ifs[:3]:
                    b, sg = INTMAP[f[1]]
                    w = f[2] or b
                    body.append('\ts.%s = (%s)(((unsigned long)s.%s + (unsigned)k) & %d);' % (f[0], f[1], f[0], (1 << (min(w, 62) - (1 if sg else 0))) - 1 if f[1] != '_Bool' else 1))
                body.append('\treturn s;')
                body.append('}')
                if rng.random() < 0.5:
                    # only a prototype before main: the aggregate type is first needed at a call site
                    self.features.add('struct-fn-defined-late')
                    self.lines.append('static struct %s %s(%s);' % (tag, name, 'int, struct %s' % tag if swap else 'struct %s, int' % tag))
                    self.late += body
                else:
                    self.lines += body
                self.sfuncs.append((name, tag, swap))
        if rng.random() < 0.6:
            name = self.fresh('vf')
            kind = rng.choice(['int', 'long', 'double', 'mixed'])
            self.features.add('variadic')
            self.lines.append('static long %s(int n, ...)' % name)
            self.lines.append('{')
            self.lines.append('\t__builtin_va_list ap;')
            self.lines.append('\tunsigned long t = 0;')
            self.lines.append('\t__builtin_va_start(ap, n);')
            self.lines.append('\twhile (n-- > 0) {')
            if kind == 'mixed':
                self.lines.append('\t\tt += (unsigned long)__builtin_va_arg(ap, int);')
                self.lines.append('\t\tt += (unsigned long)(long)__builtin_va_arg(ap, double);')
                self.lines.append('\t\tt ^= (unsigned long)__builtin_va_arg(ap, long);')
            elif kind == 'double':
                self.lines.append('\t\tt += (unsigned long)(long)(__builtin_va_arg(ap, double) * 2);')
            else:
                self.lines.append('\t\tt = t * 3 + (unsigned long)__builtin_va_arg(ap, %s);' % kind)
            self.lines.append('\t}')
            self.lines.append('\t__builtin_va_end(ap);')
            self.lines.append('\treturn (long)t;')
            self.lines.append('}')
            self.vfuncs.append((name, kind))

    # ------------------------------------------------------------ statements
    def out(self, env, ind):
        rng = self.rng
        r = rng.random()
        if r < 0.8:
            self.lines.append('%sout_l(%s);' % (ind, self.iexpr(env, rng.choice(['long', 'int', 'unsigned', 'unsigned long', 'short', 'char']), rng.randint(1, 4))))
        else:
            self.lines.append('%sout_d(%s);' % (ind, self.fexpr(env, rng.choice(FLTS), 3)))

    def dead(self, env, ind):
        """statements that are never executed (they follow a jump): logic, conditionals, calls, stores"""
        rng = self.rng
        for _ in range(rng.randint(1, 3)):
            r = rng.random()
            if r < 0.35:
                self.lines.append('%sout_l(%s %s %s);' % (ind, rng.choice(['0', '1', self.iexpr(env, 'int', 1)]), rng.choice(['&&', '||']), self.iexpr(env, 'long', 2)))
            elif r < 0.55:
                self.lines.append('%sout_l(%s ? %s : %s);' % (ind, self.iexpr(env, 'int', 1), self.iexpr(env, 'long', 1), self.iexpr(env, 'long', 1)))
            elif r < 0.75:
                self.lines.append('%sif (%s) out_l(%s);' % (ind, self.iexpr(env, 'int', 2), self.iexpr(env, 'long', 1)))
            elif r < 0.9 and self.gvars:
                n, t = rng.choice(self.gvars)
                self.lines.append('%s%s = %s;' % (ind, n, self.iexpr(env, t, 2)))
            else:
                self.lines.append('%sout_d(%s);' % (ind, self.fexpr(env, 'double', 2)))

    def stmts(self, env, ind, budget, inloop=False, depth=0):
        rng = self.rng
        while budget > 0:
            budget -= 1
            r = rng.random()
            ints = env['ints']
            if r < 0.16:
                t = rng.choice([x for x, _, _ in INTS])
                n = self.fresh('v')
                self.lines.append('%s%s %s = %s;' % (ind, t, n, self.iexpr(env, t, 3)))
                ints.append((n, t))
            elif r < 0.30 and ints:
                n, t = rng.choice([v for v in ints if not v[0].startswith('i_')] or ints)
                if n.startswith('i_'):
                    continue
                op = rng.choice(['=', '=', '+=', '-=', '*=', '&=', '|=', '^=', '++', '--'])
                if op in ('++', '--'):
                    b, s = INTMAP[t]
                    if t == '_Bool':        # (cproc stores 255/2 for --/++ on _Bool: C01 finding, kept out of this stream)
                        self.lines.append('%s%s = !%s;' % (ind, n, n))
                    elif s and b >= 32:       # could overflow
                        self.lines.append('%s%s = (%s)((unsigned long)%s %s 1);' % (ind, n, t, n, op[0]))
                    else:
                        self.lines.append('%s%s%s;' % (ind, n, op) if rng.random() < 0.5 else '%s%s%s;' % (ind, op, n))
                elif op in ('+=', '-=', '*=') and INTMAP[t][1] and INTMAP[t][0] >= 32:
                    self.lines.append('%s%s = (%s)((unsigned long)%s %s (unsigned long)%s);' % (ind, n, t, n, op[0], self.iexpr(env, t, 2)))
                else:
                    self.lines.append('%s%s %s %s;' % (ind, n, op, self.iexpr(env, t, 3)))
            elif r < 0.36:
                self.out(env, ind)
            elif r < 0.44 and depth < 3:
                self.features.add('if')
                self.lines.append('%sif (%s) {' % (ind, self.iexpr(env, rng.choice(['int', 'long', 'unsigned char', '_Bool']), 3)))
                self.stmts(dict(env, ints=list(ints)), ind + '\t', rng.randint(1, 3), inloop, depth + 1)
                if rng.random() < 0.5:
                    self.lines.append('%s} else {' % ind)
                    self.stmts(dict(env, ints=list(ints)), ind + '\t', rng.randint(1, 3), inloop, depth + 1)
                self.lines.append('%s}' % ind)
            elif r < 0.52 and depth < 2:
                self.features.add('loop')
                i = self.fresh('i_')
                n = rng.randint(1, 6)
                kind = rng.choice(['for', 'while', 'do'])
                e2 = dict(env, ints=list(ints) + [(i, 'int')])
                if kind == 'for':
                    self.lines.append('%sfor (int %s = 0; %s < %d; %s++) {' % (ind, i, i, n, i))
                    self.stmts(e2, ind + '\t', rng.randint(1, 3), True, depth + 1)
                    self.lines.append('%s}' % ind)
                elif kind == 'while':
                    self.lines.append('%sint %s = %d;' % (ind, i, n))
                    ints.append((i, 'int'))
                    self.lines.append('%swhile (%s-- > 0) {' % (ind, i))
                    self.stmts(e2, ind + '\t', rng.randint(1, 3), True, depth + 1)
                    self.lines.append('%s}' % ind)
                else:
                    self.lines.append('%sint %s = 0;' % (ind, i))
                    ints.append((i, 'int'))
                    self.lines.append('%sdo {' % ind)
                    self.stmts(e2, ind + '\t', rng.randint(1, 3), True, depth + 1)
                    self.lines.append('%s} while (++%s < %d);' % (ind, i, n))
            elif r < 0.57 and inloop:
                if rng.random() < 0.35:
                    self.features.add('dead-code')
                    self.lines.append('%sif (%s) {' % (ind, self.iexpr(env, 'int', 2)))
                    self.lines.append('%s\t%s;' % (ind, rng.choice(['break', 'continue'])))
                    self.dead(env, ind + '\t')
                    self.lines.append('%s}' % ind)
                else:
                    self.lines.append('%sif (%s) %s;' % (ind, self.iexpr(env, 'int', 2), rng.choice(['break', 'continue'])))
                self.features.add('break')
            elif r < 0.64 and depth < 2:
                self.features.add('switch')
                ct = rng.choice(['int', 'unsigned', 'long', 'unsigned long', 'char', 'short', 'unsigned char'])
                self.lines.append('%sswitch ((%s)(%s)) {' % (ind, ct, self.iexpr(env, ct, 2)))
                b, s = INTMAP[ct]
                lo, hi = (-(1 << (b - 1)), (1 << (b - 1)) - 1) if s else (0, (1 << b) - 1)
                vals = set()
                for _ in range(rng.randint(1, 7)):
                    vals.add(rng.choice([0, 1, 2, 3, 4, 5, -1, lo, hi, rng.randint(lo, hi), rng.randint(-8, 8)]))
                for v in sorted(x for x in vals if lo <= x <= hi):
                    vt = '(-9223372036854775807L-1)' if v == -(1 << 63) else ('%dUL' % v if v > (1 << 63) - 1 else ('%dL' % v if abs(v) > 0x7fffffff else '%d' % v))
                    self.lines.append('%scase %s: ;' % (ind, vt))
                    self.stmts(dict(env, ints=list(ints)), ind + '\t', rng.randint(0, 2), inloop, depth + 1)
                    if rng.random() < 0.7:
                        self.lines.append('%s\tbreak;' % ind)
                if rng.random() < 0.7:
                    self.lines.append('%sdefault: ;' % ind)
                    self.stmts(dict(env, ints=list(ints)), ind + '\t', rng.randint(1, 2), inloop, depth + 1)
                self.lines.append('%s}' % ind)
            elif r < 0.68 and depth == 0:
                self.features.add('goto')
                l = self.fresh('L')
                c = self.fresh('c_')
                if rng.random() < 0.5:      # backward goto bounded by a counter
                    self.lines.append('%sint %s = 0;' % (ind, c))
                    self.lines.append('%s%s: ;' % (ind, l))
                    self.out(env, ind)
                    self.lines.append('%sif (++%s < %d) goto %s;' % (ind, c, rng.randint(1, 4), l))
                elif rng.random() < 0.5:
                    self.lines.append('%sif (%s) goto %s;' % (ind, self.iexpr(env, 'int', 2), l))
                    self.out(env, ind)
                    self.lines.append('%s%s: ;' % (ind, l))
                else:
                    self.features.add('dead-code')
                    self.lines.append('%sgoto %s;' % (ind, l))
                    self.dead(env, ind)
                    self.lines.append('%s%s: ;' % (ind, l))
            elif r < 0.74 and self.garr:
                n, et, cnt = rng.choice(self.garr)
                self.lines.append('%s%s[(unsigned)%s %% %du] = %s;' % (ind, n, self.iexpr(env, 'unsigned', 2), cnt, self.iexpr(env, et, 3)))
            elif r < 0.82 and self.gstructs:
                n, tag = rng.choice(self.gstructs)
                fs = [f for f in self.struct_fields(tag) if f[1] in INTMAP]
                if fs:
                    f = rng.choice(fs)
                    self.features.add('bitfield-write' if f[2] else 'member-write')
                    self.lines.append('%s%s.%s = %s;' % (ind, n, f[0], self.iexpr(env, f[1], 3)))
                    self.lines.append('%sout_l(%s.%s);' % (ind, n, f[0]))
            elif r < 0.86 and self.sfuncs:
                fn, tag, swap = rng.choice(self.sfuncs)
                cands = [g for g, t in self.gstructs if t == tag]
                if cands:
                    g = rng.choice(cands)
                    k = self.iexpr(env, 'int', 2)
                    self.lines.append('%s%s = %s(%s, %s);' % ((ind, g, fn, k, g) if swap else (ind, g, fn, g, k)))
            elif r < 0.90 and self.vfuncs:
                fn, kind = rng.choice(self.vfuncs)
                k = rng.randint(0, 4)
                if kind == 'mixed':
                    args = ''.join(', %s, %s, %s' % (self.iexpr(env, 'int', 2), self.fexpr(env, 'double', 1), self.iexpr(env, 'long', 2)) for _ in range(k))
                elif kind == 'double':
                    args = ''.join(', %s' % self.fexpr(env, 'double', 2) for _ in range(k))
                else:
                    args = ''.join(', %s' % self.iexpr(env, kind, 2) for _ in range(k))
                self.lines.append('%sout_l(%s(%d%s));' % (ind, fn, k, args))
            elif r < 0.94 and self.garr:
                n, et, cnt = rng.choice(self.garr)
                p = self.fresh('p')
                k = rng.randrange(cnt)
                self.lines.append('%s%s *%s = &%s[%d];' % (ind, et, p, n, k))
                env.setdefault('ptrs', [])
                env['ptrs'] = env['ptrs'] + [(p, et)]
                self.features.add('pointer')
                self.lines.append('%sout_l(%s - %s);' % (ind, p, n))
                if k + 1 < cnt:
                    self.lines.append('%sout_l(%s[1] + (*%s < %s[1]) + (%s + 1 > %s));' % (ind, p, p, p, p, p) if INTMAP[et][0] < 32 else '%sout_l(%s[1] == *%s);' % (ind, p, p))
            elif r < 0.97:
                t = rng.choice(FLTS)
                n = self.fresh('d')
                self.lines.append('%s%s %s = %s;' % (ind, t, n, self.fexpr(env, t, 3)))
                env['flts'] = env.get('flts', []) + [(n, t)]
                self.features.add('float')
            else:
                if self.structs:
                    tag = rng.choice(self.structs)[0]
                    n = self.fresh('ls')
                    self.lines.append('%sstruct %s %s = %s;' % (ind, tag, n, self.struct_init(tag)))
                    fs = [f for f in self.struct_fields(tag) if f[1] in INTMAP]
                    for f in fs[:3]:
                        self.lines.append('%sout_l(%s.%s);' % (ind, n, f[0]))
                    self.features.add('local-struct-init')

    def program(self):
        rng = self.rng
        self.lines.append('void out_l(long);')
        self.lines.append('void out_d(double);')
        self.gen_structs()
        self.gen_globals()
        self.gen_funcs()
        self.lines.append('int main(void)')
        self.lines.append('{')
        env = {'ints': []}
        self.stmts(env, '\t', 6 + 3 * self.size)
        for n, t in self.gvars:
            self.lines.append('\tout_l(%s);' % n)
        for n, et, cnt in self.garr:
            self.lines.append('\tfor (int k = 0; k < %d; k++) out_l(%s[k]);' % (cnt, n))
        for n, t in self.gflt:
            self.lines.append('\tout_d(%s);' % n)
        for n, tag in self.gstructs:
            for f in self.struct_fields(tag):
                if f[1] in INTMAP:
                    self.lines.append('\tout_l(%s.%s);' % (n, f[0]))
                elif f[1] in FLTS:
                    self.lines.append('\tout_d(%s.%s);' % (n, f[0]))
        for n, et, an, cnt, off in getattr(self, 'gptrs', []):
            self.lines.append('\tout_l(%s - %s);' % (n, an))
            self.lines.append('\tout_l(*%s);' % n)
        self.lines.append('\treturn %d;' % rng.randint(0, 200))
        self.lines.append('}')
        self.lines += self.late
        return '\n'.join(self.lines) + '\n'


def gen_program(rng, size=3):
    g = Gen(rng, size)
    src = g.program()
    return src, {'globals': g.globals, 'features': sorted(g.features)}


def layout_probe(src, meta):
    """C text that prints 'name size align' for every global of the program (compile with gcc)."""
    body = []
    for name, ct, al in meta['globals']:
        decl = ct
        if '[' in ct:
            base, dim = ct.split('[', 1)
            body.append('\t{ typedef %s T_[%s; printf("%s %%zu %%zu\\n", sizeof(T_), %s); }' % (base, dim, name, str(al) if al else '_Alignof(T_)'))
        else:
            body.append('\t{ typedef %s T_; printf("%s %%zu %%zu\\n", sizeof(T_), %s); }' % (ct, name, str(al) if al else '_Alignof(T_)'))
    structs = '\n'.join(l for l in src.split('\n') if l.startswith('struct '))
    return '#include <stdio.h>\n%s\nint main(void)\n{\n%s\n\treturn 0;\n}\n' % (structs, '\n'.join(body))


if __name__ == '__main__':
    import random, sys
    s, m = gen_program(random.Random(int(sys.argv[1]) if len(sys.argv) > 1 else 1), int(sys.argv[2]) if len(sys.argv) > 2 else 3)
    sys.stdout.write(s)
