# C04 generators: unit cases for eval.c (binary/unary/cast/eval) and typed constant expressions for the CLI,
# plus the Python big-int implementation of the C semantics (the executable specification used to decide
# violations; it is cross-checked on every run against the extracted Coq CArith and against gcc).
import struct

M64 = (1 << 64) - 1
INT_TYPES = ['bool', 'char', 'schar', 'uchar', 'short', 'ushort', 'int', 'uint', 'long', 'ulong', 'llong', 'ullong']
SIZES = {'bool': 1, 'char': 1, 'schar': 1, 'uchar': 1, 'short': 2, 'ushort': 2, 'int': 4, 'uint': 4,
         'long': 8, 'ulong': 8, 'llong': 8, 'ullong': 8, 'float': 4, 'double': 8, 'ptr': 8, 'void': 0}
SIGNED = {'bool': False, 'schar': True, 'uchar': False, 'short': True, 'ushort': False, 'int': True, 'uint': False,
          'long': True, 'ulong': False, 'llong': True, 'ullong': False}
CNAME = {'bool': '_Bool', 'char': 'char', 'schar': 'signed char', 'uchar': 'unsigned char', 'short': 'short',
         'ushort': 'unsigned short', 'int': 'int', 'uint': 'unsigned', 'long': 'long', 'ulong': 'unsigned long',
         'llong': 'long long', 'ullong': 'unsigned long long', 'float': 'float', 'double': 'double'}
BIN_OPS = ['mul', 'div', 'mod', 'add', 'sub', 'shl', 'shr', 'and', 'or', 'xor', 'lt', 'gt', 'le', 'ge', 'eq', 'ne']
CMP_OPS = ('lt', 'gt', 'le', 'ge', 'eq', 'ne')
COP = {'mul': '*', 'div': '/', 'mod': '%', 'add': '+', 'sub': '-', 'shl': '<<', 'shr': '>>', 'and': '&', 'or': '|',
       'xor': '^', 'lt': '<', 'gt': '>', 'le': '<=', 'ge': '>=', 'eq': '==', 'ne': '!=', 'lor': '||', 'land': '&&'}
SIGNEDCHAR = {'x86_64-sysv': True, 'aarch64': False, 'riscv64': False}


def is_signed(t, signedchar):
    return signedchar if t == 'char' else SIGNED[t]


def code(t, signedchar):
    """attribute code of a type name (what eval.c looks at)"""
    if t == 'bool':
        return 'b'
    if t in ('float', 'double'):
        return 'f%d' % SIZES[t]
    if t == 'ptr':
        return 'p'
    if t == 'void':
        return 'o'
    return 'i%d%s' % (SIZES[t], 's' if is_signed(t, signedchar) else 'u')


def tmin(t, sc):
    return -(1 << (8 * SIZES[t] - 1)) if is_signed(t, sc) else 0


def tmax(t, sc):
    if t == 'bool':
        return 1
    return (1 << (8 * SIZES[t] - 1)) - 1 if is_signed(t, sc) else (1 << (8 * SIZES[t])) - 1


def repr64(t, sc, v):
    """64-bit carrier of the mathematical value v in type t (sign- or zero-extended)"""
    w = 8 * SIZES[t]
    v &= (1 << w) - 1
    if is_signed(t, sc) and v >> (w - 1):
        v -= 1 << w
    return v & M64


def dbits(x):
    return struct.unpack('<Q', struct.pack('<d', x))[0]


FLOAT_BITS = [dbits(x) for x in (0.0, -0.0, 1.0, -1.0, 0.5, 1.5, -2.5, 0.1, 1e10, -1e10, 3.0e38, 3.5e38, 1e-45, 1e300, -1e300,
                                 float('inf'), float('-inf'), 2.0 ** 63, -(2.0 ** 63), 2.0 ** 64, 2.0 ** 63 - 1024, 2.0 ** 64 - 2048,
                                 -(2.0 ** 63) - 2048, 2.0 ** 53, 2.0 ** 53 + 2, 2.0 ** 31, -(2.0 ** 31) - 1, 2.0 ** 32, 255.9, -0.9, 16777217.0,
                                 4.9e-324, 2.2250738585072014e-308, 1.7976931348623157e308, 1.401298464324817e-45, 0.3333333333333333)]
FLOAT_BITS += [0x7ff8000000000000, 0xfff8000000000001, 0x7ff0000000000001, 0x36a0000000000000, 0x369fffffffffffff, 0x47efffffffffffff,
               0x47effffff0000000, 0x47efffffefffffff, 0x3ff0000010000000, 0x3ff0000030000000, 0x3ff0000010000001]


def boundary_values(t, sc, rng, nrand=3):
    """mathematical values around the case splits for type t"""
    lo, hi = tmin(t, sc), tmax(t, sc)
    w = 8 * SIZES[t]
    vs = {0, 1, 2, 3, lo, lo + 1, hi, hi - 1, hi // 2, hi // 2 + 1}
    if lo < 0:
        vs |= {-1, -2, lo // 2}
    for k in (7, 8, 15, 16, 31, 32, 33, 62, 63):
        for d in (-1, 0, 1):
            for s in (1, -1):
                x = s * (1 << k) + d
                if lo <= x <= hi:
                    vs.add(x)
    for _ in range(nrand):
        vs.add(rng.randint(lo, hi))
        vs.add(rng.randint(max(lo, -300), min(hi, 300)))
    if t == 'bool':
        vs = {0, 1}
    return sorted(vs)


def carriers(t, sc, rng, noncanon=True):
    """64-bit carriers: canonical representations of the boundary values plus a few non-canonical patterns"""
    if t in ('float', 'double'):
        cs = list(FLOAT_BITS)
        for _ in range(6):
            cs.append(rng.getrandbits(64))
            cs.append(dbits(rng.uniform(-1e6, 1e6)))
        if t == 'float':
            cs += [dbits(struct.unpack('<f', struct.pack('<f', struct.unpack('<d', struct.pack('<Q', c))[0] if abs(struct.unpack('<d', struct.pack('<Q', c))[0]) < 3e38 else 1.0))[0]) for c in cs[:12]]
        return cs
    if t in ('ptr', 'void'):
        return [0, 1, 8, M64, 1 << 63, rng.getrandbits(64)]
    cs = [repr64(t, sc, v) for v in boundary_values(t, sc, rng)]
    if noncanon:
        cs += [M64, 1 << 63, (1 << 63) - 1, 1 << 32, 0xffffffff, 0x1ff, 0x80, 0x8000, 0x80000000, rng.getrandbits(64), rng.getrandbits(64)]
    return sorted(set(cs))


# ------------------------------------------------------------------------------------------------
# specification of C integer arithmetic on Python integers (None = undefined behaviour)
def in_range(t, sc, v):
    return tmin(t, sc) <= v <= tmax(t, sc)


def arith_result(t, sc, v):
    if is_signed(t, sc):
        return v if in_range(t, sc, v) else None
    return v % (1 << (8 * SIZES[t]))


def cquot(a, b):
    q = abs(a) // abs(b)
    return q if (a < 0) == (b < 0) else -q


def binop_spec(op, t, sc, l, r):
    """t: common type of the converted operands (shifts: promoted left type); result type: int for comparisons, else t"""
    w = 8 * SIZES[t]
    if op == 'mul':
        return arith_result(t, sc, l * r)
    if op == 'add':
        return arith_result(t, sc, l + r)
    if op == 'sub':
        return arith_result(t, sc, l - r)
    if op == 'div':
        return None if r == 0 else arith_result(t, sc, cquot(l, r))
    if op == 'mod':
        if r == 0 or not in_range(t, sc, cquot(l, r)):
            return None
        return l - cquot(l, r) * r
    if op == 'shl':
        if not 0 <= r < w:
            return None
        if is_signed(t, sc):
            return l << r if l >= 0 and (l << r) <= tmax(t, sc) else None
        return (l << r) % (1 << w)
    if op == 'shr':
        return l >> r if 0 <= r < w else None
    if op == 'and':
        return l & r
    if op == 'or':
        return l | r
    if op == 'xor':
        return l ^ r
    return int({'lt': l < r, 'gt': l > r, 'le': l <= r, 'ge': l >= r, 'eq': l == r, 'ne': l != r}[op])


def unop_spec(op, t, sc, l):
    if op == 'neg':
        return arith_result(t, sc, -l)
    if op == 'plus':
        return l
    if op == 'bnot':
        return -l - 1 if is_signed(t, sc) else (1 << (8 * SIZES[t])) - 1 - l
    return int(l == 0)


def conv_spec(t, sc, v):
    if t == 'bool':
        return int(v != 0)
    w = 8 * SIZES[t]
    v %= 1 << w
    if is_signed(t, sc) and v >> (w - 1):
        v -= 1 << w
    return v


RANK = {'bool': 0, 'char': 1, 'schar': 1, 'uchar': 1, 'short': 2, 'ushort': 2, 'int': 3, 'uint': 3, 'long': 4, 'ulong': 4, 'llong': 5, 'ullong': 5}
UNSIGNED_OF = {'int': 'uint', 'long': 'ulong', 'llong': 'ullong'}


def promote(t, sc):
    if RANK[t] < 3:
        return 'int'           # every narrower type fits in int on these targets
    return t


def common(a, b, sc):
    """usual arithmetic conversions on integer types (6.3.1.8)"""
    a, b = promote(a, sc), promote(b, sc)
    if a == b:
        return a
    sa, sb = is_signed(a, sc), is_signed(b, sc)
    if sa == sb:
        return a if RANK[a] >= RANK[b] else b
    u, s = (a, b) if not sa else (b, a)
    if RANK[u] >= RANK[s]:
        return u
    if SIZES[s] > SIZES[u]:
        return s
    return UNSIGNED_OF[s]


# ------------------------------------------------------------------------------------------------
# typed random constant expressions for the CLI level.  A generated expression is (text, type, value):
# type is one of INT_TYPES / 'double' / 'float'; value a Python int or float.  Every evaluated
# subexpression has defined behaviour (the spec returned a value), so the expected value is unique.
import math, re

FLOAT_LITS = ['0.0', '1.0', '1.5', '2.25', '0.1', '3.75', '1e10', '255.9', '0.5', '100.0', '4294967296.0', '2147483648.0',
              '1e-3', '123456.789', '9007199254740993.0', '0x1p31', '0x1.8p1', '65536.0', '7.0', '1e19', '9.2e18']


def f32(x):
    return struct.unpack('<f', struct.pack('<f', x))[0]


def lit_type(v, base10, suffix):
    s = suffix.lower()
    u = 'u' in s
    l = s.replace('u', '')
    if u:
        cands = {'': ['uint', 'ulong', 'ullong'], 'l': ['ulong', 'ullong'], 'll': ['ullong']}[l]
    elif base10:
        cands = {'': ['int', 'long', 'llong'], 'l': ['long', 'llong'], 'll': ['llong']}[l]
    else:
        cands = {'': ['int', 'uint', 'long', 'ulong', 'llong', 'ullong'], 'l': ['long', 'ulong', 'llong', 'ullong'], 'll': ['llong', 'ullong']}[l]
    for t in cands:
        if 0 <= v <= tmax(t, True):
            return t
    return None


class CGen:
    def __init__(self, rng, sc, floats=True, inexact_f=False):
        self.inexact_f = inexact_f   # allow f-suffixed literals that are not exactly representable in float
        self.rng = rng
        self.sc = sc
        self.floats = floats
        self.stats = {}

    def note(self, k):
        self.stats[k] = self.stats.get(k, 0) + 1

    def is_f(self, t):
        return t in ('double', 'float')

    def literal(self):
        rng = self.rng
        r = rng.random()
        if r < 0.08:
            ch = rng.choice([("'a'", 97), ("'\\0'", 0), ("'\\377'", -1 if self.sc else 255), ("'\\x80'", -128 if self.sc else 128), ("'~'", 126), ("'\\n'", 10)])
            self.note('charconst')
            return ch[0], 'int', ch[1]
        if r < 0.14:
            e = rng.choice([('EA', 5), ('EB', -3), ('EC', 2147483647), ('ED', 0), ('EE', -2147483647 - 1)])
            self.note('enumconst')
            return e[0], 'int', e[1]
        if r < 0.20:
            t = rng.choice(INT_TYPES + ['double', 'float'])
            self.note('sizeof')
            if rng.random() < 0.5:
                return 'sizeof(%s)' % CNAME[t], 'ulong', SIZES[t]
            return '_Alignof(%s)' % CNAME[t], 'ulong', SIZES[t]
        for _ in range(20):
            t0 = rng.choice(INT_TYPES)
            v = abs(rng.choice(boundary_values(t0, self.sc, rng)))
            if rng.random() < 0.3:
                v = rng.randint(0, 70)
            base = rng.choice(['d', 'd', 'x', 'x', 'o', 'b'])
            suf = rng.choice(['', '', '', 'u', 'U', 'l', 'L', 'ul', 'UL', 'lu', 'll', 'LL', 'ull', 'ULL', 'llu', 'uLL'])
            t = lit_type(v, base == 'd', suf)
            if t is None:
                continue
            txt = {'d': '%d', 'x': '0x%x', 'o': '0%o', 'b': '0b{0:b}'}[base]
            txt = txt.format(v) if base == 'b' else txt % v
            if base == 'o' and v == 0:
                txt = '0'
            self.note('lit-' + base)
            return txt + suf, t, v
        return '1', 'int', 1

    def flit(self):
        s = self.rng.choice(FLOAT_LITS)
        v = float.fromhex(s) if s.startswith('0x') else float(s)
        if self.rng.random() < 0.25 and (self.inexact_f or f32(v) == v):
            self.note('float-f')
            return s + 'f', 'float', f32(v)
        self.note('float-d')
        return s, 'double', v

    def convert(self, v, frm, to):
        """value conversion (None when undefined)"""
        if self.is_f(to):
            x = float(v)
            if to == 'float':
                try:
                    x = f32(x)
                except OverflowError:
                    return None
            return x
        if self.is_f(frm):
            if not math.isfinite(v):
                return None
            if to == 'bool':
                return int(v != 0)
            z = int(v)
            return z if in_range(to, self.sc, z) else None
        return conv_spec(to, self.sc, v)

    def ctype(self, a, b):
        if 'double' in (a, b):
            return 'double'
        if 'float' in (a, b):
            return 'float'
        return common(a, b, self.sc)

    def gen(self, depth, want_int=False):
        """returns (text, type, value) or None"""
        for _ in range(30):
            r = self.try_gen(depth, want_int)
            if r is not None:
                return r
        return self.literal()

    def try_gen(self, depth, want_int):
        rng = self.rng
        floats = self.floats and not want_int
        r = rng.random()
        if depth <= 0 or r < 0.15:
            if floats and rng.random() < 0.2:
                return self.flit()
            return self.literal()
        if r < 0.30:   # cast
            to = rng.choice(INT_TYPES + (['double', 'float'] if floats else []))
            a = self.gen(depth - 1, want_int and not self.floats)
            if self.floats and rng.random() < 0.25:
                a = self.flit() if rng.random() < 0.5 else self.gen(depth - 1)
            v = self.convert(a[2], a[1], to)
            if v is None:
                return None
            self.note('cast-%s%s' % ('f2' if self.is_f(a[1]) else 'i2', 'f' if self.is_f(to) else ('b' if to == 'bool' else 'i')))
            return '(%s)%s' % (CNAME[to], self.par(a)), to, v
        if r < 0.42:   # unary
            op = rng.choice(['-', '-', '~', '!', '+'])
            a = self.gen(depth - 1, want_int or op == '~')
            if self.is_f(a[1]):
                if op == '~':
                    return None
                if op == '!':
                    self.note('lnot-f')
                    return '!%s' % self.par(a), 'int', int(a[2] == 0)
                self.note('neg-f')
                return '%s%s' % (op, self.par(a)), a[1], (-a[2] if op == '-' else a[2])
            if op == '!':
                self.note('lnot')
                return '!%s' % self.par(a), 'int', int(a[2] == 0)
            t = promote(a[1], self.sc)
            pv = a[2]
            v = unop_spec({'-': 'neg', '~': 'bnot', '+': 'plus'}[op], t, self.sc, pv)
            if v is None:
                return None
            self.note('unary' + op)
            return '%s%s' % (op, self.par(a)), t, v
        if r < 0.50:   # conditional
            c = self.gen(depth - 1, True)
            a = self.gen(depth - 1, want_int)
            b = self.gen(depth - 1, want_int)
            t = self.ctype(a[1], b[1])   # 6.5.15p5: usual arithmetic conversions, also when both types are equal
            pick = a if c[2] != 0 else b
            v = self.convert(pick[2], pick[1], t)
            if v is None:
                return None
            self.note('cond')
            return '%s ? %s : %s' % (self.par(c), self.par(a), self.par(b)), t, v
        if r < 0.60:   # logical
            op = rng.choice(['land', 'lor'])
            a = self.gen(depth - 1, want_int)
            b = self.gen(depth - 1, want_int)
            ta, tb = a[2] != 0, b[2] != 0
            self.note(op)
            return '%s %s %s' % (self.par(a), COP[op], self.par(b)), 'int', int((ta and tb) if op == 'land' else (ta or tb))
        op = rng.choice(BIN_OPS)
        a = self.gen(depth - 1, want_int)
        isint_only = op in ('mod', 'shl', 'shr', 'and', 'or', 'xor')
        b = self.gen(depth - 1, want_int or isint_only)
        if op in ('shl', 'shr') and rng.random() < 0.7:
            b = ('%d' % rng.randint(0, 64), 'int', 0)
            b = (b[0], 'int', int(b[0]))
        if isint_only and (self.is_f(a[1]) or self.is_f(b[1])):
            return None
        if self.is_f(a[1]) or self.is_f(b[1]):
            t = self.ctype(a[1], b[1])
            x, y = self.convert(a[2], a[1], t), self.convert(b[2], b[1], t)
            if x is None or y is None:
                return None
            if op in CMP_OPS:
                v = int({'lt': x < y, 'gt': x > y, 'le': x <= y, 'ge': x >= y, 'eq': x == y, 'ne': x != y}[op])
                self.note('fcmp')
                return '%s %s %s' % (self.par(a), COP[op], self.par(b)), 'int', v
            if op == 'div' and y == 0:
                return None
            try:
                v = {'mul': x * y, 'div': x / y if y else 0.0, 'add': x + y, 'sub': x - y}[op]
                if t == 'float':
                    v = f32(v)
            except OverflowError:
                return None
            if not math.isfinite(v):
                return None
            self.note('farith')
            return '%s %s %s' % (self.par(a), COP[op], self.par(b)), t, v
        if op in ('shl', 'shr'):
            t = promote(a[1], self.sc)
            x, y = a[2], b[2]
        else:
            t = common(a[1], b[1], self.sc)
            x, y = conv_spec(t, self.sc, a[2]), conv_spec(t, self.sc, b[2])
        v = binop_spec(op, t, self.sc, x, y)
        if v is None:
            return None
        self.note('bin-' + op + ('-s' if is_signed(t, self.sc) else '-u'))
        return '%s %s %s' % (self.par(a), COP[op], self.par(b)), ('int' if op in CMP_OPS else t), v

    def par(self, e):
        t = e[0]
        if re.fullmatch(r"[A-Za-z0-9_.]+|'[^']+'|(?:sizeof|_Alignof)\([A-Za-z_ ]+\)", t) and self.rng.random() < 0.8:
            return t
        return '(' + t + ')'


def int_literal(t, sc, v):
    """C text of the value v of integer type t (as an expression of exactly that value; type via cast)"""
    if v == -(1 << 63):
        return '((%s)(-9223372036854775807LL - 1))' % CNAME[t]
    if v < 0:
        return '((%s)-%dLL)' % (CNAME[t], -v)
    return '((%s)%dULL)' % (CNAME[t], v)
