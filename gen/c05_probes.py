# C05: generators of correspondence cases.
#   unit_cases(rng, tier)  -> command lines for harness/c05 and ocaml/c05/oracle, with metadata for the spec
#   Catalogue / cli_*      -> C probes for the real compiler (and gcc / clang as second opinions)
import c05_spec as S
from c05_spec import (BASICS, BOOL, CHAR, SCHAR, UCHAR, SHORT, USHORT, INT, UINT, LONG, ULONG, LLONG, ULLONG,
                      FLOAT, DOUBLE, LDOUBLE, BITS, NOWIDTH, M64)

CLI_WIDTHS = [1, 7, 8, 15, 16, 31, 32, 33, 63, 64]
INT_BASICS = list(range(12))
ALL_WIDTHS = [NOWIDTH] + list(range(1, 65))


def universe():
    return [('B', b) for b in range(15)] + [('E', i, b) for i in (1, 2) for b in INT_BASICS]


# ------------------------------------------------------------------ K-unit
def unit_cases(rng, thorough):
    cases = []
    add = cases.append
    uni = universe()
    ints = [t for t in uni if S.is_integer(S.erase(t))]
    # typepromote: every target x type x width (valid or not)
    for tg in range(3):
        for t in uni:
            for w in ALL_WIDTHS:
                add(dict(kind='promote', tg=tg, t=t, w=w, line='promote %d %d %s' % (tg, w, S.tok(t))))
    # typecommonreal
    ws = [NOWIDTH, 1, 7, 8, 15, 16, 31, 32, 33, 63, 64] if thorough else [NOWIDTH, 1, 8, 31, 32, 33, 64]
    ops = [(t, w) for t in uni for w in ws if w == NOWIDTH or (S.is_integer(S.erase(t)) and w <= BITS[S.erase(t)])]
    for tg in range(3):
        for t1, w1 in ops:
            for t2, w2 in ops:
                add(dict(kind='common', tg=tg, t1=t1, w1=w1, t2=t2, w2=w2,
                         line='common %d %d %d %s %s' % (tg, w1, w2, S.tok(t1), S.tok(t2))))
    # a few non-real operands (the assert)
    for t in [('P', 0, ('B', INT)), ('S', 1), ('V',), ('N',)]:
        add(dict(kind='common-nonreal', line='common 0 %d %d %s B6' % (NOWIDTH, NOWIDTH, S.tok(t))))
    # typehasint
    vals = set([0, 1, 2, M64 - 1, M64 - 2])
    for k in (7, 8, 15, 16, 31, 32, 63):
        for d in (-2, -1, 0, 1, 2):
            vals.add((1 << k) + d)
            vals.add((M64 - (1 << k) + d) % M64)
    vals = sorted(v for v in vals if 0 <= v < M64)
    for tg in range(3):
        for t in ints:
            for v in vals + [rng.randrange(M64) for _ in range(6)] + [rng.randrange(1 << rng.choice([8, 16, 32, 40])) for _ in range(4)]:
                for sg in (0, 1):
                    add(dict(kind='hasint', tg=tg, t=t, i=v, sign=sg, line='hasint %d %d %d %s' % (tg, v, sg, S.tok(t))))
    # inttype
    sfxs = ['-', 'u', 'U', 'l', 'L', 'ul', 'uL', 'Ul', 'UL', 'lu', 'lU', 'Lu', 'LU', 'll', 'LL', 'ull', 'uLL', 'Ull', 'ULL',
            'llu', 'llU', 'LLu', 'LLU', 'lL', 'Ll', 'ulL', 'lLu', 'lul', 'uu', 'lll', 'z', 'i64', 'f', 'ulll', 'lul']
    lv = set()
    for k in (31, 32, 63, 64):
        for d in (-1, 0, 1):
            lv.add((1 << k) + d)
    lv = sorted(v for v in lv if 0 <= v < M64) + [0, 1, 255, 65536, rng.randrange(M64), rng.randrange(1 << 33)]
    for tg in range(3):
        for v in lv:
            for dec in (0, 1):
                for s in sfxs:
                    add(dict(kind='inttype', tg=tg, v=v, dec=dec, sfx='' if s == '-' else s,
                             line='inttype %d %d %d %s' % (tg, v, dec, s)))
    # binop on arithmetic operands: every operator x type x type (no bit-fields here; common covers widths)
    for tg in range(3):
        for op in range(18):
            for t1 in uni:
                for t2 in uni:
                    if not thorough and t1[0] == 'E' and t2[0] == 'E' and rng.random() < 0.7:
                        continue
                    add(dict(kind='binop', tg=tg, op=op, t1=t1, w1=NOWIDTH, t2=t2, w2=NOWIDTH,
                             line='binop %d %d %d - %d - %s %s' % (tg, op, NOWIDTH, NOWIDTH, S.tok(t1), S.tok(t2))))
            for _ in range(40 if not thorough else 400):
                (t1, w1), (t2, w2) = rng.choice(ops), rng.choice(ops)
                add(dict(kind='binop', tg=tg, op=op, t1=t1, w1=w1, t2=t2, w2=w2,
                         line='binop %d %d %d - %d - %s %s' % (tg, op, w1, w2, S.tok(t1), S.tok(t2))))
    # binop with pointer / null / struct operands, exprassign, typeadjust, typecompatible on random types
    n = 6000 if not thorough else 60000
    for _ in range(n):
        a, b = rand_operand_type(rng), rand_operand_type(rng)
        if rng.random() < 0.5 and a[0] == 'P':
            b = mutate(rng, a)
        ca = rng.choice(['-', '-', '0', '0', '1'])
        cb = rng.choice(['-', '-', '0', '0', '5'])
        op = rng.choice([2, 3, 4, 5, 6, 7, 11, 12, 11, 12, 0, 1, 8, 13, 14, 16])
        add(dict(kind='binop-ptr', line='binop %d %d %d %s %d %s %s %s' % (rng.randrange(3), op, NOWIDTH, ca, NOWIDTH, cb, S.tok(a), S.tok(b))))
        tt = rng.choice([a, b, rand_operand_type(rng), ('B', BOOL), ('N',), ('S', 1)])
        add(dict(kind='assign', line='assign %s %s %s' % (ca, S.tok(a), S.tok(tt))))
    for _ in range(n):
        a = rand_type(rng, 3)
        b = mutate(rng, a) if rng.random() < 0.75 else rand_type(rng, 3)
        if rng.random() < 0.2:
            b = a
        add(dict(kind='compat', a=a, b=b, line='compat %s %s' % (S.tok(a), S.tok(b))))
        if rng.random() < 0.2:
            tq = rng.choice([0, 0, 2, 8, 10]) if a[0] != 'F' else 0
            add(dict(kind='adjust', line='adjust %d %d %s' % (tq, rng.choice([0, 2, 4]), S.tok(a))))
    return cases


def unit_spec(c):
    """what the specification says the answer to a unit case is (string as printed) or None: no opinion"""
    k = c['kind']
    if k in ('promote', 'common', 'binop', 'hasint', 'inttype'):
        abi = S.ABIS[c['tg']]
    wo = lambda w: None if w == NOWIDTH else w
    valid = lambda t, w: w == NOWIDTH or (S.is_integer(S.erase(t)) and 1 <= w <= BITS[S.erase(t)])
    if k == 'promote':
        if not valid(c['t'], c['w']):
            return None
        return 'B%d' % S.default_promote(abi, S.erase(c['t']), wo(c['w']))
    if k == 'common':
        return 'B%d' % S.uac(abi, S.erase(c['t1']), wo(c['w1']), S.erase(c['t2']), wo(c['w2']))
    if k == 'binop':
        r = S.binop_spec(abi, c['op'], S.erase(c['t1']), wo(c['w1']), S.erase(c['t2']), wo(c['w2']))
        return 'none' if r is None else 'B%d' % r
    if k == 'hasint':
        b = S.erase(c['t'])
        if b == BOOL:
            return None
        return '1' if S.hasint_spec(abi, b, c['i'], c['sign']) else '0'
    if k == 'inttype':
        r = S.literal_type(abi, c['v'], bool(c['dec']), c['sfx'])
        return 'none' if r is None else 'B%d' % r
    if k == 'compat':
        return '1' if S.compatible(c['a'], c['b']) else '0'
    return None


def unit_same(got, want):
    """answers are compared up to erasure of enum identity (an enum result stands for its base)"""
    if got == want:
        return True
    if got.startswith('E') and want.startswith('B'):
        return got.split('.')[1] == want[1:]
    return False


def known_unit_deviation(c, real):
    """classes where the code is KNOWN to differ from the spec (the *_refuted theorems); -> key or None"""
    k = c['kind']
    if k == 'inttype' and S.suffix_class(c['sfx']) is None and c['sfx'].lower() in ('ll', 'ull', 'llu'):
        return 'int-suffix-lL'
    return None


# ------------------------------------------------------------------ random types
def rand_atomic(rng):
    r = rng.random()
    if r < 0.55:
        return ('B', rng.randrange(15))
    if r < 0.7:
        return ('E', rng.choice([1, 2, 3]), rng.choice([UINT, INT, UINT, INT, SHORT, LONG, UCHAR, LLONG]))
    if r < 0.82:
        return ('S', rng.choice([1, 2]))
    if r < 0.9:
        return ('U', rng.choice([1, 2]))
    return ('V',)


def rand_q(rng):
    return rng.choice([0, 0, 0, 0, S.QCONST, S.QVOLATILE, S.QCONST | S.QVOLATILE])


def rand_type(rng, depth, param=False, obj=False):
    """a well-formed type; param: adjusted parameter type (no array/function/void at top)"""
    r = rng.random()
    if depth <= 0 or r < 0.25:
        t = rand_atomic(rng)
        while (param or obj) and t[0] == 'V':
            t = rand_atomic(rng)
        return t
    if r < 0.6:
        return ('P', rand_q(rng), rand_type(rng, depth - 1))
    if r < 0.8 and not param:
        ln = rng.choice(['i', ('c', rng.choice([1, 2, 3, 3, 4, 7]))])
        b = rand_type(rng, depth - 1, obj=True)
        while b[0] == 'F' or (b[0] == 'A' and b[2] == 'i'):
            b = rand_type(rng, depth - 1, obj=True)
        return ('A', rand_q(rng), ln, b)
    if obj or param:
        return ('P', rand_q(rng), rand_type(rng, depth - 1))
    ret = rand_type(rng, depth - 1)
    while ret[0] in 'AF':
        ret = rand_type(rng, depth - 1)
    ps = [rand_type(rng, depth - 1, param=True) for _ in range(rng.choice([0, 1, 1, 2, 3]))]
    va = bool(ps) and rng.random() < 0.25
    return ('F', 0, va, ps, ret)


def rand_operand_type(rng):
    """type an expression can have after lvalue/array/function conversion"""
    r = rng.random()
    if r < 0.35:
        return ('B', rng.randrange(15))
    if r < 0.45:
        return rng.choice([('E', 1, UINT), ('E', 2, INT), ('S', 1), ('S', 2), ('U', 1), ('N',)])
    b = rand_type(rng, 2)
    return ('P', rand_q(rng), b)


def norm(t):
    """qualifiers that C syntax cannot attach (to an array or function type as such) are dropped"""
    k = t[0]
    if k == 'P':
        b = norm(t[2])
        return ('P', 0 if b[0] in 'AF' else t[1], b)
    if k == 'A':
        b = norm(t[3])
        return ('A', 0 if b[0] in 'AF' else t[1], t[2], b)
    if k == 'F':
        r = norm(t[4])
        return ('F', 0 if r[0] in 'AF' else t[1], t[2], [norm(p) for p in t[3]], r)
    return t


def mutate(rng, t):
    k = t[0]
    r = rng.random()
    if k == 'B':
        if r < 0.4:
            return ('E', rng.choice([1, 2]), t[1]) if t[1] < 12 else t
        return ('B', rng.randrange(15)) if r < 0.8 else t
    if k == 'E':
        return ('B', t[2]) if r < 0.4 else ('E', 3 - t[1] if t[1] in (1, 2) else 1, t[2]) if r < 0.7 else t
    if k in 'SU':
        return (k, 3 - t[1]) if r < 0.5 else ('U' if k == 'S' else 'S', t[1])
    if k == 'P':
        if r < 0.3:
            return ('P', rand_q(rng), t[2])
        if r < 0.4:
            return ('P', t[1], ('V',))
        return ('P', t[1], mutate(rng, t[2]))
    if k == 'A':
        if r < 0.3:
            return ('A', t[1], rng.choice(['i', ('c', rng.choice([1, 2, 3, 4]))]), t[3])
        if r < 0.4:
            return ('A', rand_q(rng), t[2], t[3])
        b = mutate(rng, t[3])
        if b[0] in 'FV' or (b[0] == 'A' and b[2] == 'i'):
            b = t[3]
        return ('A', t[1], t[2], b)
    if k == 'F':
        ps = list(t[3])
        if r < 0.15:
            return ('F', t[1], (not t[2]) and bool(ps), ps, t[4])
        if r < 0.3:
            ps = ps + [rand_type(rng, 1, param=True)]
        elif r < 0.4 and ps:
            ps = ps[:-1]
        elif r < 0.75 and ps:
            i = rng.randrange(len(ps))
            m = mutate(rng, ps[i])
            if m[0] not in 'AFV':
                ps[i] = m
        else:
            ret = mutate(rng, t[4])
            return ('F', t[1], t[2], ps, ret if ret[0] not in 'AF' else t[4])
        return ('F', t[1], t[2] and bool(ps), ps, t[4])
    return t


# ------------------------------------------------------------------ K-CLI
GENERIC_INDEX = {INT: 1, UINT: 2, LONG: 3, ULONG: 4, LLONG: 5, ULLONG: 6, FLOAT: 7, DOUBLE: 8, LDOUBLE: 9,
                 BOOL: 20, CHAR: 21, SCHAR: 22, UCHAR: 23, SHORT: 24, USHORT: 25}
GENERIC_LIST = ', '.join('%s: %d' % (BASICS[b], i) for b, i in sorted(GENERIC_INDEX.items(), key=lambda x: x[1])) + ', default: 0'

# enums used by the CLI probes: (tag, declaration, base for the three compilers)
CLI_ENUMS = [
    ('EU', 'enum EU { eu_a, eu_b = 7 };', UINT, True),
    ('EI', 'enum EI { ei_a = -1, ei_b = 7 };', INT, True),
    ('EL', 'enum EL { el_a = -1, el_b = 0x100000000 };', LONG, True),       # GNU/C23: value beyond int
    ('EUL', 'enum EUL { eul_a, eul_b = 0x100000000 };', ULONG, True),
    ('ES', 'enum ES : short { es_a, es_b };', SHORT, False),               # fixed underlying type: not gcc 12
    ('EUC', 'enum EUC : unsigned char { euc_a, euc_b };', UCHAR, False),
    ('ELL', 'enum ELL : long long { ell_a, ell_b };', LLONG, False),
    ('EC', 'enum EC : char { ec_a, ec_b };', CHAR, False),
]


class Catalogue:
    """operands of the exhaustive CLI sweep: (C expression, basic type it behaves as, width or None, flags)"""

    def __init__(self):
        self.decls = [d for _, d, _, _ in CLI_ENUMS]
        self.ops = []       # dict(expr, b, w, enum(bool), gcc(bool): usable for the gcc comparison)
        for b in range(15):
            self.decls.append('%s v%d;' % (BASICS[b], b))
            self.ops.append(dict(expr='v%d' % b, b=b, w=None, enum=None, gcc=True))
        for tag, _, b, gcc in CLI_ENUMS:
            self.decls.append('enum %s ve_%s;' % (tag, tag))
            self.ops.append(dict(expr='ve_%s' % tag, b=b, w=None, enum=tag, gcc=gcc))
        mem = []
        for b in INT_BASICS:
            for w in CLI_WIDTHS:
                if w > BITS[b] or (b == BOOL and w > 1):
                    continue
                mem.append('%s f%d_%d : %d;' % (BASICS[b], b, w, w))
                # gcc types bit-fields wider than int its own way (implementation-defined): clang only
                self.ops.append(dict(expr='bf.f%d_%d' % (b, w), b=b, w=w, enum=None, gcc=w <= 32))
        for tag, b in (('EU', UINT), ('EI', INT)):
            for w in (3, 31, 32):
                mem.append('enum %s fe%s_%d : %d;' % (tag, tag, w, w))
                self.ops.append(dict(expr='bf.fe%s_%d' % (tag, w), b=b, w=w, enum=tag, gcc=True))
        self.decls.append('struct BF { %s } bf;' % ' '.join(mem))
        self.basic_ops = [o for o in self.ops if o['w'] is None and o['enum'] is None]

    def header(self, for_gcc=False):
        ds = self.decls
        if for_gcc:
            ds = [d for d in ds if ' : short {' not in d and ' : unsigned char {' not in d and ' : long long {' not in d
                  and ' : char {' not in d and not any(d == 'enum %s ve_%s;' % (t, t) for t, _, _, g in CLI_ENUMS if not g)]
        return '\n'.join(ds) + '\n'


def probe_generic(i, expr):
    return 'int k%d = _Generic((%s), %s);' % (i, expr, GENERIC_LIST)


def probe_sizeof(i, expr):
    return 'int k%d = sizeof(%s);' % (i, expr)


def cli_arith_probes(cat, rng, thorough, abi):
    """(expr, expected basic or None=reject, gcc_ok, meta) for op x left x right, unary ops and ?:"""
    out = []
    full = cat.ops if thorough else None

    def pairs():
        if thorough:
            for a in cat.ops:
                for b in cat.ops:
                    yield a, b
        else:
            for a in cat.basic_ops:
                for b in cat.basic_ops:
                    yield a, b
    for op in range(18):
        for a, b in pairs():
            out.append(mk_bin(op, a, b, abi))
    for a, b in pairs():
        out.append(mk_cond(a, b, abi))
    if not thorough:
        # bit-fields and enums: every operand against a spread of partners, operators sampled
        others = cat.ops
        for a in cat.ops:
            if a['w'] is None and a['enum'] is None:
                continue
            for b in rng.sample(others, 30):
                op = rng.randrange(19)
                for x, y in ((a, b), (b, a)):
                    out.append(mk_cond(x, y, abi) if op == 18 else mk_bin(op, x, y, abi))
    for a in cat.ops:
        for u in range(4):
            r = S.unop_spec(abi, u, a['b'], a['w'])
            out.append(('%s%s' % (S.UNOPS[u], a['expr']), r, a['gcc'], dict(cls='unop', u=u, a=a)))
    return out


def mk_bin(op, a, b, abi):
    r = S.binop_spec(abi, op, a['b'], a['w'], b['b'], b['w'])
    return ('%s %s %s' % (a['expr'], S.OPS[op], b['expr']), r, a['gcc'] and b['gcc'], dict(cls='binop', op=op, a=a, b=b))


def mk_cond(a, b, abi):
    r = S.cond_spec(abi, a['b'], a['w'], b['b'], b['w'])
    return ('v6 ? %s : %s' % (a['expr'], b['expr']), r, a['gcc'] and b['gcc'], dict(cls='cond', a=a, b=b))


def known_cli_deviation(meta):
    """-> key of the known defect class a deviating arithmetic probe falls in, or None"""
    c = meta.get('cls')
    if c == 'binop' and S.OPS[meta['op']] in '&|^' and (meta['a']['b'] >= FLOAT or meta['b']['b'] >= FLOAT):
        return 'bitwise-float-operand'
    if c in ('binop', 'cond'):
        ts = (meta['a'], meta['b'])
        if any(o['enum'] == 'ELL' for o in ts):
            return 'enum-llong-common-type'
    if c == 'cond' and meta['a']['b'] == meta['b']['b'] and (meta['a']['enum'] == meta['b']['enum']):
        return 'cond-same-type-no-promotion'
    return None


def rand_expr(rng, cat, abi, depth):
    """random nested arithmetic expression with the type the spec gives it: (text, basic, gcc_ok) or None"""
    if depth == 0 or rng.random() < 0.25:
        r = rng.random()
        if r < 0.6:
            o = rng.choice(cat.ops)
            return (o['expr'], o['b'], o['w'], o['gcc'], o['enum'])
        if r < 0.8:
            v = rng.choice([0, 1, 127, 255, 65535, 2147483647, 2147483648, 4294967295, 4294967296, (1 << 63) - 1, 1 << 63])
            base = rng.choice(['d', 'x', 'o'])
            sfx = rng.choice(['', '', 'u', 'l', 'ul', 'll', 'ull', 'LL', 'U', 'lu'])
            t = S.literal_type(abi, v, base == 'd', sfx)
            if t is None:
                return ('1', INT, None, True, None)
            txt = {'d': '%d', 'x': '0x%x', 'o': '0%o'}[base] % v if v or base != 'o' else '0'
            return (txt + sfx, t, None, True, None)
        if r < 0.9:
            return rng.choice([("'a'", INT), ("u'a'", USHORT), ("U'a'", UINT), ("L'a'", abi[1])]) + (None, True, None)
        return rng.choice([('1.5', DOUBLE), ('1.5f', FLOAT), ('2.5L', LDOUBLE), ('1e3', DOUBLE), ('0x1p3f', FLOAT)]) + (None, True, None)
    r = rng.random()
    if r < 0.6:
        op = rng.randrange(18)
        a, b = rand_expr(rng, cat, abi, depth - 1), rand_expr(rng, cat, abi, depth - 1)
        t = S.binop_spec(abi, op, a[1], a[2], b[1], b[2])
        if t is None:
            return a
        return ('(%s %s %s)' % (a[0], S.OPS[op], b[0]), t, None, a[3] and b[3], None)
    if r < 0.75:
        u = rng.randrange(4)
        a = rand_expr(rng, cat, abi, depth - 1)
        t = S.unop_spec(abi, u, a[1], a[2])
        if t is None:
            return a
        return ('(%s %s)' % (S.UNOPS[u], a[0]), t, None, a[3], None)
    if r < 0.85:
        a, b = rand_expr(rng, cat, abi, depth - 1), rand_expr(rng, cat, abi, depth - 1)
        return ('(v1 ? %s : %s)' % (a[0], b[0]), S.cond_spec(abi, a[1], a[2], b[1], b[2]), None, a[3] and b[3], None)
    if r < 0.93:
        b = rng.randrange(15)
        a = rand_expr(rng, cat, abi, depth - 1)
        return ('(%s)%s' % (BASICS[b], a[0] if a[0][0] == '(' else '(' + a[0] + ')'), b, None, a[3], None)
    a = rand_expr(rng, cat, abi, depth - 1)
    return rng.choice([('sizeof(%s)' % a[0] if 'bf.' not in a[0] else 'sizeof(int)', ULONG, None, a[3], None),
                       ('(v6, %s)' % a[0], a[1], a[2], a[3], a[4]) if a[2] is None else a,
                       ('(&v6 - &v6)', LONG, None, True, None),
                       ('_Alignof(%s)' % BASICS[rng.randrange(15)], ULONG, None, True, None)])


def literal_probes(abi):
    """(text, expected basic or None) for integer constants of every base / suffix / magnitude boundary,
    floating constants and character constants"""
    out = []
    vals = set([0, 1])
    for k in (7, 8, 15, 16, 31, 32, 63, 64):
        for d in (-1, 0, 1):
            v = (1 << k) + d
            if 0 <= v < M64:
                vals.add(v)
    sfxs = ['', 'u', 'U', 'l', 'L', 'ul', 'uL', 'Ul', 'UL', 'lu', 'LU', 'll', 'LL', 'ull', 'uLL', 'ULL', 'llu', 'LLU', 'llU']
    for v in sorted(vals):
        for base in 'dxob':
            txt = {'d': '%d' % v, 'x': '0x%X' % v, 'o': ('0%o' % v) if v else '0', 'b': '0b' + bin(v)[2:]}[base]
            for s in sfxs:
                out.append((txt + s, S.literal_type(abi, v, base == 'd', s), dict(cls='lit', base=base)))
    for t, b in [('1.0', DOUBLE), ('1.0f', FLOAT), ('1.0F', FLOAT), ('1.0l', LDOUBLE), ('1.0L', LDOUBLE), ('1e10', DOUBLE),
                 ('0x1p4', DOUBLE), ('0x1.8p1f', FLOAT), ('.5', DOUBLE), ('5.', DOUBLE), ('1e-3L', LDOUBLE)]:
        out.append((t, b, dict(cls='flit')))
    for t, b in [("'a'", INT), ("'\\n'", INT), ("'\\377'", INT), ("'\\x41'", INT), ("L'a'", abi[1]), ("u'a'", USHORT),
                 ("U'a'", UINT), ("L'\\xff'", abi[1]), ("u'\\x41'", USHORT), ("U'\\101'", UINT)]:
        out.append((t, b, dict(cls='clit')))
    return out
