# C05: the specification (C11 + LP64 ABIs) once more in Python, independent of the Coq model, used to
# classify disagreements (code vs spec = violation, code vs model only = drift), plus the shared type
# syntax.  Mirrors coq/Spec/CTypes.v; validated on every run against gcc and clang (props/c05.py).
#
# Types: ('V',) ('N',) ('B',i) ('E',id,i) ('S',id) ('U',id) ('P',q,T) ('A',q,len,T) ('F',q,vararg,[params],ret)
#        len: 'i' incomplete | 'n' no constant length | ('c', n)
BASICS = ['_Bool', 'char', 'signed char', 'unsigned char', 'short', 'unsigned short', 'int', 'unsigned',
          'long', 'unsigned long', 'long long', 'unsigned long long', 'float', 'double', 'long double']
BOOL, CHAR, SCHAR, UCHAR, SHORT, USHORT, INT, UINT, LONG, ULONG, LLONG, ULLONG, FLOAT, DOUBLE, LDOUBLE = range(15)
BITS = [8, 8, 8, 8, 16, 16, 32, 32, 64, 64, 64, 64, 32, 64, 128]
RANK = [0, 1, 1, 1, 2, 2, 3, 3, 4, 4, 5, 5, -1, -1, -1]
NOWIDTH = (1 << 32) - 1
M64 = 1 << 64
QCONST, QRESTRICT, QVOLATILE, QATOMIC = 2, 4, 8, 16

# ABI records: (char signed, wchar_t) for x86_64-sysv, aarch64, riscv64
ABIS = [(True, INT), (False, UINT), (False, INT)]
TARGETS = ['x86_64-sysv', 'aarch64', 'riscv64']
CLANG_TRIPLES = ['x86_64-linux-gnu', 'aarch64-linux-gnu', 'riscv64-linux-gnu']


def is_integer(b):
    return b < FLOAT


def is_signed(abi, b):
    if b == CHAR:
        return abi[0]
    return b in (SCHAR, SHORT, INT, LONG, LLONG)


def vrange(abi, b, w=None):
    if b == BOOL:
        return (0, 1)
    n = BITS[b] if w is None else w
    if is_signed(abi, b):
        return (-(1 << (n - 1)), (1 << (n - 1)) - 1)
    return (0, (1 << n) - 1)


def represents(big, small):
    return big[0] <= small[0] and small[1] <= big[1]


def int_promote(abi, b, w=None):
    """6.3.1.1p2; bit-fields wider than int keep the declared type (clang's reading)"""
    if is_integer(b) and (RANK[b] <= RANK[INT] or (w is not None and w <= 32)):
        return INT if represents(vrange(abi, INT), vrange(abi, b, w)) else UINT
    return b


def default_promote(abi, b, w=None):
    return DOUBLE if b == FLOAT else int_promote(abi, b, w)


def corresponding_unsigned(b):
    return {SCHAR: UCHAR, CHAR: UCHAR, SHORT: USHORT, INT: UINT, LONG: ULONG, LLONG: ULLONG}.get(b, b)


def uac(abi, b1, w1, b2, w2):
    """6.3.1.8"""
    for f in (LDOUBLE, DOUBLE, FLOAT):
        if b1 == f or b2 == f:
            return f
    p1, p2 = int_promote(abi, b1, w1), int_promote(abi, b2, w2)
    if p1 == p2:
        return p1
    if is_signed(abi, p1) == is_signed(abi, p2):
        return p2 if RANK[p1] < RANK[p2] else p1
    u, s = (p2, p1) if is_signed(abi, p1) else (p1, p2)
    if RANK[s] <= RANK[u]:
        return u
    if represents(vrange(abi, s), vrange(abi, u)):
        return s
    return corresponding_unsigned(s)


OPS = ['||', '&&', '==', '!=', '<', '>', '<=', '>=', '|', '^', '&', '+', '-', '%', '*', '/', '<<', '>>']
UNOPS = ['+', '-', '~', '!']


def binop_spec(abi, op, b1, w1, b2, w2):
    """result type (basic index) or None for a constraint violation; arithmetic operands"""
    o = OPS[op]
    if o in ('*', '/', '+', '-'):
        return uac(abi, b1, w1, b2, w2)
    if o in ('%', '&', '^', '|'):
        return uac(abi, b1, w1, b2, w2) if is_integer(b1) and is_integer(b2) else None
    if o in ('<<', '>>'):
        return int_promote(abi, b1, w1) if is_integer(b1) and is_integer(b2) else None
    return INT


def unop_spec(abi, op, b, w):
    o = UNOPS[op]
    if o in ('+', '-'):
        return int_promote(abi, b, w)
    if o == '~':
        return int_promote(abi, b, w) if is_integer(b) else None
    return INT


def cond_spec(abi, b1, w1, b2, w2):
    return uac(abi, b1, w1, b2, w2)


LITERAL_LISTS = {
    ('', True): [INT, LONG, LLONG], ('', False): [INT, UINT, LONG, ULONG, LLONG, ULLONG],
    ('u', True): [UINT, ULONG, ULLONG], ('u', False): [UINT, ULONG, ULLONG],
    ('l', True): [LONG, LLONG], ('l', False): [LONG, ULONG, LLONG, ULLONG],
    ('ul', True): [ULONG, ULLONG], ('ul', False): [ULONG, ULLONG],
    ('ll', True): [LLONG], ('ll', False): [LLONG, ULLONG],
    ('ull', True): [ULLONG], ('ull', False): [ULLONG],
}


def suffix_class(s):
    """6.4.4.1: class of a spelled suffix or None if it is not in the grammar"""
    u = [c for c in s if c in 'uU']
    rest = ''.join(c for c in s if c not in 'uU')
    if len(u) > 1 or rest not in ('', 'l', 'L', 'll', 'LL'):
        return None
    if u and rest and not (s[0] in 'uU' or s[-1] in 'uU'):
        return None
    return ('u' if u else '') + rest.lower()


def literal_type(abi, v, decimal, sfx):
    cls = suffix_class(sfx)
    if cls is None:
        return None
    for b in LITERAL_LISTS[(cls, decimal)]:
        lo, hi = vrange(abi, b)
        if lo <= v <= hi:
            return b
    return None


def hasint_spec(abi, b, i, sign):
    v = i - M64 if sign and i >= (1 << 63) else i
    lo, hi = vrange(abi, b)
    return lo <= v <= hi


# ------------------------------------------------------------------ types
def tok(t):
    k = t[0]
    if k in 'VN':
        return k
    if k == 'B':
        return 'B%d' % t[1]
    if k == 'E':
        return 'E%d.%d' % (t[1], t[2])
    if k in 'SU':
        return '%s%d' % (k, t[1])
    if k == 'P':
        return 'P%d %s' % (t[1], tok(t[2]))
    if k == 'A':
        l = t[2] if isinstance(t[2], str) else 'c%d' % t[2][1]
        return 'A%d %s %s' % (t[1], l, tok(t[3]))
    if k == 'F':
        return 'F%d %d %d %s%s' % (t[1], int(t[2]), len(t[3]), tok(t[4]), ''.join(' ' + tok(p) for p in t[3]))
    raise ValueError(t)


def parse_tok(s):
    toks = s.split()

    def go(i):
        t = toks[i]
        k = t[0]
        if k in 'VN':
            return (k,), i + 1
        if k == 'B':
            return ('B', int(t[1:])), i + 1
        if k == 'E':
            a, b = t[1:].split('.')
            return ('E', int(a), int(b)), i + 1
        if k in 'SU':
            return (k, int(t[1:])), i + 1
        if k == 'P':
            b, j = go(i + 1)
            return ('P', int(t[1:]), b), j
        if k == 'A':
            l = toks[i + 1]
            l = l if l in 'in' else ('c', int(l[1:]))
            b, j = go(i + 2)
            return ('A', int(t[1:]), l, b), j
        if k == 'F':
            v, n = int(toks[i + 1]), int(toks[i + 2])
            ret, j = go(i + 3)
            ps = []
            for _ in range(n):
                p, j = go(j)
                ps.append(p)
            return ('F', int(t[1:]), bool(v), ps, ret), j
        raise ValueError(s)
    if toks and toks[0] == 'none':
        return None
    return go(0)[0]


def compatible(a, b):
    """6.2.7 on the modelled fragment (coq/Spec/CTypes.v Compatible)"""
    ka, kb = a[0], b[0]
    if ka == 'E' and kb == 'B':
        return a[2] == b[1]
    if ka == 'B' and kb == 'E':
        return a[1] == b[2]
    if ka != kb:
        return False
    if ka == 'P':
        return a[1] == b[1] and compatible(a[2], b[2])
    if ka == 'A':
        la, lb = a[2], b[2]
        if isinstance(la, tuple) and isinstance(lb, tuple) and la[1] != lb[1]:
            return False
        return a[1] == b[1] and compatible(a[3], b[3])
    if ka == 'F':
        return (a[1] == b[1] and a[2] == b[2] and len(a[3]) == len(b[3])
                and all(compatible(x, y) for x, y in zip(a[3], b[3])) and compatible(a[4], b[4]))
    return a == b


def erase(t):
    return t[1] if t[0] == 'B' else t[2] if t[0] == 'E' else None


def quals(q):
    return ''.join(s for f, s in ((QCONST, 'const '), (QVOLATILE, 'volatile '), (QRESTRICT, 'restrict ')) if q & f)


def ctype(t, inner='', q=0):
    """C type name for t with declarator text `inner` (abstract if ''), q = qualifiers of t itself.
    Struct S<i> / union U<i> / enum E<i>_<b> must be declared by the prelude (see prelude())."""
    k = t[0]
    sp = (' ' + inner) if inner else ''
    if k == 'V':
        return quals(q) + 'void' + sp
    if k == 'N':
        return quals(q) + 'typeof(nullptr)' + sp
    if k == 'B':
        return quals(q) + BASICS[t[1]] + sp
    if k == 'E':
        return quals(q) + 'enum E%d_%d' % (t[1], t[2]) + sp
    if k == 'S':
        return quals(q) + 'struct S%d' % t[1] + sp
    if k == 'U':
        return quals(q) + 'union U%d' % t[1] + sp
    if k == 'P':
        d = '*' + (' ' + quals(q) if q else '') + inner
        if t[2][0] in 'AF':
            d = '(' + d + ')'
        return ctype(t[2], d, t[1])
    if k == 'A':
        l = '' if t[2] == 'i' else '*' if t[2] == 'n' else str(t[2][1])
        return ctype(t[3], inner + '[' + l + ']', t[1])
    if k == 'F':
        ps = ', '.join(ctype(p) for p in t[3])
        if t[2]:
            ps += ', ...'
        if not t[3]:
            ps = 'void'
        return ctype(t[4], inner + '(' + ps + ')', t[1])
    raise ValueError(t)


# enum declarations whose implicit base is what the id says (values chosen accordingly); a fixed
# underlying type (C23, clang extension) for the other bases
def enum_decl(i, b, fixed_ok=True):
    name = 'enum E%d_%d' % (i, b)
    if b == UINT:
        return '%s { e%d_%d_a, e%d_%d_b = 7 };' % (name, i, b, i, b)
    if b == INT:
        return '%s { e%d_%d_a = -1, e%d_%d_b = 7 };' % (name, i, b, i, b)
    if not fixed_ok:
        return None
    return '%s : %s { e%d_%d_a, e%d_%d_b = 1 };' % (name, BASICS[b], i, b, i, b)


def collect(t, acc):
    k = t[0]
    if k in 'ESU':
        acc.add(t)
    elif k == 'P':
        collect(t[2], acc)
    elif k == 'A':
        collect(t[3], acc)
    elif k == 'F':
        collect(t[4], acc)
        for p in t[3]:
            collect(p, acc)


def prelude(types):
    acc = set()
    for t in types:
        collect(t, acc)
    out = []
    for t in sorted(acc):
        if t[0] == 'E':
            out.append(enum_decl(t[1], t[2]))
        elif t[0] == 'S':
            out.append('struct S%d { int m%d; };' % (t[1], t[1]))
        else:
            out.append('union U%d { int m%d; float n%d; };' % (t[1], t[1], t[1]))
    return out
