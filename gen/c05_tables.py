# C05, G: re-read the tables of the typing code from the SNAPSHOT sources on every run and render them in
# the format of `ocaml/c05/oracle tables` (the model's tables).  A difference = the model no longer
# describes the source (ctx.broken('table', ...) in props/c05.py).
import os, re


def _strip_comments(s):
    s = re.sub(r'/\*.*?\*/', ' ', s, flags=re.S)
    return re.sub(r'//[^\n]*', ' ', s)


def _enum_values(src, name):
    """values of `enum name { A, B = expr, ... }` (expressions: integers, 1<<n, A|B)"""
    m = re.search(r'enum\s+' + name + r'\s*\{(.*?)\}', src, re.S)
    vals, nxt = {}, 0
    for item in m.group(1).split(','):
        item = item.strip()
        if not item:
            continue
        if '=' in item:
            k, e = [x.strip() for x in item.split('=', 1)]
            e = re.sub(r'[A-Za-z_]\w*', lambda mm: str(vals[mm.group(0)]), e)
            v = eval(e, {'__builtins__': {}})
        else:
            k, v = item, nxt
        vals[k] = v
        nxt = v + 1
    return vals


def _cexpr(e, env):
    e = e.strip().replace('true', '1').replace('false', '0')
    e = re.sub(r'[A-Za-z_]\w*', lambda mm: str(env[mm.group(0)]), e)
    return int(eval(e, {'__builtins__': {}}))


def _func_body(src, name):
    m = re.search(r'^' + name + r'\s*\([^)]*\)\s*\{', src, re.M)
    i = m.end()
    depth = 1
    while depth:
        c = src[i]
        depth += (c == '{') - (c == '}')
        i += 1
    return src[m.end():i]


def source_tables(snap):
    rd = lambda f: _strip_comments(open(os.path.join(snap, f), errors='replace').read())
    cc, ty, ex, tg, dc = rd('cc.h'), rd('type.c'), rd('expr.c'), rd('targ.c'), rd('decl.c')
    props = _enum_values(cc, 'typeprop')
    out = []
    # --- INTTYPE / FLTTYPE rows
    macros = {}
    for m in re.finditer(r'#define\s+(INTTYPE|FLTTYPE)\(([^)]*)\)\s*\{((?:[^\n]*\\\n)*[^\n]*)', ty):
        params = [p.strip() for p in m.group(2).split(',')]
        body = m.group(3).replace('\\\n', ' ')
        fields = dict((k.strip(), v.strip()) for k, v in re.findall(r'\.([\w\.]+)\s*=\s*([^,}]+)', body))
        macros[m.group(1)] = (params, fields)
    for m in re.finditer(r'^struct type (type\w+)\s*=\s*(INTTYPE|FLTTYPE)\(([^)]*)\);', ty, re.M):
        name, mac, args = m.group(1), m.group(2), [a.strip() for a in m.group(3).split(',')]
        params, fields = macros[mac]
        env = dict(props)
        sub = dict(zip(params, args))

        def val(field, default='0'):
            e = fields.get(field, default)
            e = re.sub(r'\b(' + '|'.join(map(re.escape, params)) + r')\b', lambda mm: sub[mm.group(1)], e)
            return e
        kind = val('kind')
        size = _cexpr(val('size'), env)
        align = _cexpr(val('align'), env)
        if size != align:
            out.append('row %s size-align-differ' % name)
        sg = _cexpr(val('u.basic.issigned'), env)
        pr = _cexpr(val('prop'), env)
        out.append('row %s %s %d %d %d' % (name, kind, size, sg, pr))
    # --- typerank
    body = _func_body(ty, 'typerank')
    head = re.sub(r'\s+', ' ', body.split('switch')[0]).strip()
    if head != 'if (t->kind == TYPEENUM) t = t->base; assert(t->prop & PROPINT);':
        out.append('rank prologue-changed %r' % head)
    ranks = re.findall(r'case\s+(TYPE\w+)\s*:\s*return\s+(\d+)\s*;', body)
    kinds = _enum_values(cc, 'typekind')
    for k, r in sorted(ranks, key=lambda kr: kinds[kr[0]]):
        out.append('rank %s %s' % (k, r))
    # --- limits[] of inttype
    body = _func_body(ex, 'inttype')
    lm = re.search(r'limits\[\]\s*=\s*\{(.*?)\};', body, re.S)
    for t, e1, e2 in re.findall(r'\{\s*&(\w+)\s*,\s*("[^"]*"|NULL)\s*,\s*("[^"]*"|NULL)\s*\}', lm.group(1)):
        f = lambda s: '-' if s in ('NULL', '""') else s.strip('"')
        out.append('limit %s %s %s' % (t, f(e1), f(e2)))
    rest = re.sub(r'\s+', ' ', body[lm.end():])
    if 'step = i % 2 || decimal ? 2 : 1;' not in rest or 'typehasint(t, val, false)' not in rest or 'tolower(end[i])' not in rest:
        out.append('limit loop-changed')
    # --- alltargs
    am = re.search(r'alltargs\[\]\s*=\s*\{(.*)\n\};', tg, re.S)
    blocks = re.split(r'\n\t\},', am.group(1))
    i = 0
    for b in blocks:
        nm = re.search(r'\.name\s*=\s*"([^"]+)"', b)
        if not nm:
            continue
        wc = re.search(r'\.typewchar\s*=\s*&(\w+)', b).group(1)
        sc = re.search(r'\.signedchar\s*=\s*(\d+)', b)
        out.append('targ %d %d %s' % (i, int(sc.group(1)) if sc else 0, wc))
        i += 1
    if 'typechar.u.basic.issigned = targ->signedchar;' not in tg:
        out.append('targ targinit-changed')
    # --- inttypes of tagspec
    im = re.search(r'inttypes\[\]\[2\]\s*=\s*\{(.*?)\};', dc, re.S)
    for u, s in re.findall(r'\{\s*&(\w+)\s*,\s*&(\w+)\s*\}', im.group(1)):
        out.append('enumtypes %s %s' % (u, s))
    # --- sizeof / ptrdiff result types
    m = re.search(r'e = mkconstexpr\(&(\w+), op == TSIZEOF \? t->size : t->align\);', ex)
    out.append('sizeof %s' % (m.group(1) if m else '?'))
    sub = _func_body(ex, 'mkbinaryexpr')
    m = re.search(r'op = TDIV;\s*t = &(\w+);', sub)
    out.append('ptrdiff %s' % (m.group(1) if m else '?'))
    out.append('end')
    return out


def names(snap):
    """target names in alltargs order (for the CLI -t option)"""
    tg = _strip_comments(open(os.path.join(snap, 'targ.c')).read())
    return re.findall(r'\.name\s*=\s*"([^"]+)"', tg)


if __name__ == '__main__':
    import sys
    print('\n'.join(source_tables(sys.argv[1] if len(sys.argv) > 1 else '/repo')))
