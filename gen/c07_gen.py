# C07 - generator of (type, initializer) pairs and the Python REFERENCE of C11 6.7.9 (the "spec machine").
#
# The reference is an incremental reading of 6.7.9p17-p22 written independently of init.c: a stack of brace
# levels, each with the aggregate it initialises and the path of "current object" positions below it.
# The generator drives it as a random walk (open brace / close brace / designator / positional expression /
# whole-aggregate expression), so every generated initializer is valid by construction and its expected
# leaf writes are known.  props/c07.py validates the reference against gcc on x86-64.
import struct as _struct

M64 = (1 << 64) - 1

# ------------------------------------------------------------------------------------------ types
class Ty:
    kind = None          # 'int' 'bool' 'flt' 'ptr' 'arr' 'struct' 'union'
    size = 0
    align = 1


class Scalar(Ty):
    def __init__(self, kind, cname, size, signed=False, ischar=False, compat=0, ptrto=None):
        self.kind, self.cname, self.size, self.align = kind, cname, size, size
        self.signed, self.ischar, self.compat, self.ptrto = signed, ischar, compat, ptrto

    def decl(self, name):
        if self.kind == 'ptr' and self.ptrto == 'fn':
            return 'fnptr %s' % name
        return '%s %s' % (self.cname, name)


class Arr(Ty):
    kind = 'arr'

    def __init__(self, elem, n):
        self.elem, self.n = elem, n            # n None = unknown size (root only)
        self.size = elem.size * n if n is not None else 0
        self.align = elem.align

    def decl(self, name):
        return self.elem.decl('%s[%s]' % (name, '' if self.n is None else self.n))


class Member:
    def __init__(self, name, ty, width=None):
        self.name, self.ty, self.width = name, ty, width     # name None + width: unnamed bit-field; name None + struct: anonymous
        self.off = 0
        self.before = self.after = 0
        self.inlist = True                     # has a `struct member` in cproc (unnamed bit-fields do not)


class Struct(Ty):
    def __init__(self, isunion, tag, members, compat):
        self.kind = 'union' if isunion else 'struct'
        self.tag, self.members, self.compat = tag, members, compat
        layout(self)

    def named(self):
        return [m for m in self.members if m.inlist]

    def body(self):
        out = []
        for m in self.members:
            if m.width is not None:
                out.append('%s %s:%d;' % (m.ty.cname, m.name or '', m.width))
            elif m.name is None:
                out.append('%s { %s };' % (m.ty.kind, m.ty.body()))
            else:
                out.append(m.ty.decl(m.name) + ';')
        return ' '.join(out)

    def decl(self, name):
        return '%s %s %s' % (self.kind, self.tag, name)

    def definition(self):
        return '%s %s { %s };' % (self.kind, self.tag, self.body())


def alignup(x, a):
    return (x + a - 1) // a * a


def layout(t):
    """x86-64 SysV / AAPCS64 / RISC-V layout of a non-packed struct or union (bit-fields as gcc lays them out)."""
    size, align, bits = 0, 1, 0          # bits = unused bits in the last byte (as in decl.c:addmember)
    for m in t.members:
        mt = m.ty
        if m.width is None:
            m.before = m.after = 0
            if t.kind == 'struct':
                m.off = alignup(size, mt.align)
                size = m.off + mt.size
            else:
                m.off = 0
                size = max(size, mt.size)
            bits = 0
            align = max(align, mt.align)
        else:
            m.inlist = m.name is not None
            w = m.width
            if t.kind == 'struct':
                end = alignup(size, mt.size)
                if w == 0 or w > (end - size) * 8 + bits:
                    size, bits = end, 0
                if m.inlist:
                    m.off = (size - (1 if bits else 0)) // mt.size * mt.size
                    m.before = (size - m.off) * 8 - bits
                    m.after = mt.size * 8 - w - m.before
                size += (w - bits + 7) // 8
                bits = (bits - w) % 8
            else:
                if m.inlist:
                    m.off, m.before, m.after = 0, 0, mt.size * 8 - w
                    size = max(size, mt.size)
                else:
                    size = max(size, (w + 7) // 8)
            if m.inlist:
                align = max(align, mt.align)
    t.align = align
    t.size = alignup(size, align)


# scalar types; compat classes: equal number = compatible types
def scalars(target):
    cs = target['char_signed']
    S = {}
    S['char'] = Scalar('int', 'char', 1, cs, True, 1)
    S['schar'] = Scalar('int', 'signed char', 1, True, True, 2)
    S['uchar'] = Scalar('int', 'unsigned char', 1, False, True, 3)
    S['short'] = Scalar('int', 'short', 2, True, False, 4)
    S['ushort'] = Scalar('int', 'unsigned short', 2, False, False, 5)
    S['int'] = Scalar('int', 'int', 4, True, False, 6)
    S['uint'] = Scalar('int', 'unsigned', 4, False, False, 7)
    S['long'] = Scalar('int', 'long', 8, True, False, 8)
    S['ulong'] = Scalar('int', 'unsigned long', 8, False, False, 9)
    S['llong'] = Scalar('int', 'long long', 8, True, False, 10)
    S['ullong'] = Scalar('int', 'unsigned long long', 8, False, False, 11)
    S['bool'] = Scalar('bool', '_Bool', 1, False, False, 12)
    S['float'] = Scalar('flt', 'float', 4, True, False, 13)
    S['double'] = Scalar('flt', 'double', 8, True, False, 14)
    S['pchar'] = Scalar('ptr', 'char *', 8, False, False, 20, 'char')
    S['pint'] = Scalar('ptr', 'int *', 8, False, False, 21, 'int')
    S['pvoid'] = Scalar('ptr', 'void *', 8, False, False, 22, 'void')
    S['pfn'] = Scalar('ptr', 'fnptr', 8, False, False, 23, 'fn')
    S['pshort'] = Scalar('ptr', 'short *', 8, False, False, 24, 'short')
    return S


TARGETS = {
    'x86_64-sysv': dict(char_signed=True, wchar='int'),
    'aarch64': dict(char_signed=False, wchar='uint'),
    'riscv64': dict(char_signed=False, wchar='int'),
}

# the fixed objects every test file declares; pointers in initializers refer to them
PRELUDE = '''void gfn(void); void gfn2(void);
int gi; int garr[8]; short gsh[5];
struct GP { char c; int m; short a[3]; struct { char x; long y; } in; } gs, gsa[3];
char gbuf[16];
'''
# symbol -> (python id, size)
SYMS = {'gfn': 0, 'gfn2': 1, 'gi': 2, 'garr': 3, 'gsh': 4, 'gs': 5, 'gsa': 6, 'gbuf': 7}
GP_SIZE = 32
# address constants: (C text, symbol, byte offset, pointer type key)
ADDRS = [
    ('&gi', 'gi', 0, 'pint'), ('garr', 'garr', 0, 'pint'), ('&garr[3]', 'garr', 12, 'pint'), ('garr + 7', 'garr', 28, 'pint'),
    ('&garr[8]', 'garr', 32, 'pint'), ('&gs.m', 'gs', 4, 'pint'), ('&gsa[2].m', 'gsa', 2 * GP_SIZE + 4, 'pint'),
    ('gsh', 'gsh', 0, 'pshort'), ('&gsh[4]', 'gsh', 8, 'pshort'), ('&gs.a[1]', 'gs', 10, 'pshort'), ('gsa[1].a + 2', 'gsa', GP_SIZE + 12, 'pshort'),
    ('gbuf', 'gbuf', 0, 'pchar'), ('&gbuf[15]', 'gbuf', 15, 'pchar'), ('gbuf + 3', 'gbuf', 3, 'pchar'), ('&gs.c', 'gs', 0, 'pchar'),
    ('&gs.in.x', 'gs', 16, 'pchar'), ('&gsa[1].in.x', 'gsa', GP_SIZE + 16, 'pchar'), ('(char *)&gi + 1', 'gi', 1, 'pchar'),
    ('&gs', 'gs', 0, 'pvoid'), ('&gsa[1]', 'gsa', GP_SIZE, 'pvoid'), ('&gs.in', 'gs', 16, 'pvoid'), ('&gs.in.y', 'gs', 24, 'pvoid'),
    ('&garr[2]', 'garr', 8, 'pvoid'), ('gbuf + 9', 'gbuf', 9, 'pvoid'), ('&gsa[2].a[2]', 'gsa', 2 * GP_SIZE + 12, 'pvoid'),
    ('&garr[4] - 2', 'garr', 8, 'pint'), ('&gbuf[5] - 5', 'gbuf', 0, 'pchar'),
    ('gfn', 'gfn', 0, 'pfn'), ('&gfn2', 'gfn2', 0, 'pfn'),
]


# --------------------------------------------------------------------------------- expressions
class Ex:
    """an assignment-expression of an initializer"""
    def __init__(self, kind, text, **kw):
        self.kind, self.text = kind, text       # 'int' 'flt' 'str' 'addr' 'agg' 'var' 'clit'
        self.__dict__.update(kw)


def f32bits(x):
    try:
        return _struct.unpack('<I', _struct.pack('<f', x))[0]
    except OverflowError:
        return 0x7f800000 if x > 0 else 0xff800000


def f64bits(x):
    return _struct.unpack('<Q', _struct.pack('<d', x))[0]


def ex_int(v, text=None, unsigned=False):
    """integer constant expression with mathematical value v (fits 64 bits)"""
    if text is None:
        if v < 0:
            text = '-%d' % -v if v >= -(1 << 31) else '(-%dl - 1)' % (-v - 1)
        else:
            text = '%d' % v if v < (1 << 31) else ('%dl' % v if v < (1 << 63) else '%dull' % v)
            unsigned = v >= (1 << 63)
    fv = float(v)
    return Ex('int', text, v=v & M64, f32=f32bits(fv), f64=f64bits(fv))


def ex_flt(x, text=None):
    if text is None:
        text = repr(float(x))
    xi = int(x) if abs(x) < 2 ** 62 else 0
    return Ex('flt', text, f32=f32bits(x), f64=f64bits(x), toint=xi & M64)


STR_PREFIX = {'': ('char', 1), 'u8': ('char', 1), 'L': ('wchar', 4), 'u': ('ushort', 2), 'U': ('uint', 4)}


def c_escape(elems, w):
    out = []
    for c in elems:
        if w == 1 and 32 <= c < 127 and chr(c) not in '"\\?':
            out.append(chr(c))
        elif w == 1:
            out.append('\\%03o' % c)
        elif 32 <= c < 127 and chr(c) not in '"\\?' and not chr(c).isdigit() and chr(c) not in 'abcdefABCDEF':
            out.append(chr(c))
        else:
            out.append('\\x%x""' % c)           # close and reopen so that a following hex digit is not absorbed
                                                 # (cproc has no universal character names: not C07's business)
    return ''.join(out)


def ex_str(prefix, elems, target):
    """string literal; elems without the terminator"""
    tkey, w = STR_PREFIX[prefix]
    if tkey == 'wchar':
        tkey = target['wchar']
    s = c_escape(elems, w)
    text = prefix + '"' + s + '"'
    if w > 1:
        text = prefix + '"' + s.replace('""', '" %s"' % prefix) + '"'
    data = list(elems) + [0]
    return Ex('str', text, w=w, ischar=(w == 1), elemkey=tkey, data=data,
              sym=lit_id(b''.join((c & ((1 << (8 * w)) - 1)).to_bytes(w, 'little') for c in data)))


# ----------------------------------------------------------------------------- the spec machine
class SpecError(Exception):
    pass


class G_Skip(Exception):
    pass


class Frame:
    """an aggregate being walked: children are members (struct/union) or elements (array)"""
    def __init__(self, ty, off, idx=0):
        self.ty, self.off, self.idx = ty, off, idx

    def nchildren(self, m):
        t = self.ty
        if t.kind == 'arr':
            return None if (t.n is None) else t.n
        return len(t.named())

    def child(self, m):
        """(type, byte offset, before, after) of the current child"""
        t = self.ty
        if t.kind == 'arr':
            return t.elem, self.off + self.idx * t.elem.size, 0, 0
        mem = t.named()[self.idx]
        return mem.ty, self.off + mem.off, mem.before, mem.after


class Level:
    def __init__(self, base, scalar=None):
        self.base = base            # Frame of the braced aggregate (idx = current child), or None for a braced scalar
        self.scalar = scalar        # (ty, off, before, after) for a braced scalar
        self.path = []              # frames below base (brace elision / designators)
        self.started = False
        self.count = 0


class Leaf:
    def __init__(self, pos, width, kind, **kw):
        self.pos, self.width, self.kind = pos, width, kind     # bit position / width; kind 'int' 'str' 'addr' 'opq'
        self.__dict__.update(kw)


def is_agg(t):
    return t.kind in ('arr', 'struct', 'union')


class SpecMachine:
    def __init__(self, root, target):
        self.root, self.target = root, target
        self.levels = []
        self.leaves = []
        self.rootn = 0                 # elements of a root array of unknown size seen so far
        self.done = False
        self.union_active = {}         # byte offset, id(type) of a union -> index of its initialised member
        self.elided = False            # some aggregate was initialised without its own braces
        self.switched = False

    # -- helpers
    def frames(self):
        L = self.levels[-1]
        return [L.base] + L.path

    def bump_root(self, fr):
        if fr.ty is self.root and self.root.kind == 'arr' and self.root.n is None:
            self.rootn = max(self.rootn, fr.idx + 1)

    def exhausted(self, fr):
        n = fr.nchildren(self)
        return n is not None and fr.idx >= n

    def select_next(self):
        """move to the next sub-object of the current brace level (6.7.9p17, p20); returns its (ty, off, before, after)"""
        L = self.levels[-1]
        if getattr(L, 'full', False):
            raise SpecError('excess elements after string')
        if L.base is None:
            if L.started:
                raise SpecError('excess elements in scalar initializer')
            L.started = True
            return L.scalar
        if not L.started:
            L.started = True
            L.base.idx = 0
            L.path = []
            if L.base.nchildren(self) == 0:
                raise SpecError('excess elements')
        else:
            fs = self.frames()
            while True:
                fr = fs[-1]
                if fr.ty.kind == 'union':
                    fr.idx = len(fr.ty.named())          # a union has one initialised member: it is finished
                else:
                    fr.idx += 1
                if not self.exhausted(fr):
                    break
                if len(fs) == 1:
                    raise SpecError('excess elements')
                fs.pop()
                L.path.pop()
        fr = self.frames()[-1]
        self.bump_root(fr)
        return fr.child(self)

    allow_union_switch = False

    def touch_unions(self):
        """record the member of every union on the way to the current position; a second member of the same
        union object is outside the reference's domain (D18) unless allow_union_switch"""
        frs = [fr for L in self.levels for fr in ([L.base] if L.base else []) + L.path]
        for fr in frs:
            if fr.ty.kind == 'union' and fr.idx < len(fr.ty.named()):
                key = (fr.off, id(fr.ty))
                if self.union_active.get(key, fr.idx) != fr.idx:
                    self.switched = True
                    if not self.allow_union_switch:
                        raise SpecError('second member of a union')
        for fr in frs:
            if fr.ty.kind == 'union' and fr.idx < len(fr.ty.named()):
                self.union_active[(fr.off, id(fr.ty))] = fr.idx

    # -- actions
    def open_brace(self, sub=None):
        """`{`: the current sub-object (or the root) gets its own brace level"""
        if not self.levels:
            sub = (self.root, 0, 0, 0)
        elif sub is None:
            sub = self.select_next()
        t, off, b, a = sub
        if self.levels:
            self.touch_unions()
        if is_agg(t):
            self.levels.append(Level(Frame(t, off)))
        else:
            if self.levels and self.levels[-1].base is None:
                raise SpecError('nested braces around scalar')
            self.levels.append(Level(None, scalar=sub))

    def close_brace(self):
        self.levels.pop()
        if not self.levels:
            self.done = True

    def designate(self, desigs):
        """designator list inside the current brace level; returns the designated sub-object"""
        L = self.levels[-1]
        if L.base is None:
            raise SpecError('designator in scalar initializer')
        L.started = True
        L.path = []
        fr = L.base
        for k, d in enumerate(desigs):
            t = fr.ty
            if d[0] == 'idx':
                if t.kind != 'arr':
                    raise SpecError('index designator for non-array')
                if d[1] < 0 or (t.n is not None and d[1] >= t.n):
                    raise SpecError('index out of range')
                fr.idx = d[1]
                self.bump_root(fr)
            else:
                if t.kind not in ('struct', 'union'):
                    raise SpecError('member designator for non-struct')
                chain = find_member(t, d[1])
                if chain is None:
                    raise SpecError('no such member')
                for j, i in enumerate(chain):
                    fr.idx = i
                    if j + 1 < len(chain):
                        ct, coff, _, _ = fr.child(self)
                        fr = Frame(ct, coff)
                        L.path.append(fr)
            if k + 1 < len(desigs):
                ct, coff, _, _ = fr.child(self)
                if not is_agg(ct):
                    raise SpecError('designator into scalar')
                fr = Frame(ct, coff)
                L.path.append(fr)
        return fr.child(self)

    def current_after_designator(self):
        return self.frames()[-1].child(self)

    def expr(self, e, sub=None):
        """an assignment-expression for the next (or the designated) sub-object"""
        if not self.levels:
            sub = (self.root, 0, 0, 0)
            self.done = True
            toplevel = True
        else:
            toplevel = False
            L = self.levels[-1]
            if sub is None and not L.started and L.base is not None and L.base.ty.kind == 'arr' and e.kind == 'str' \
                    and L.base.ty.elem.kind == 'int' and self.str_ok(L.base.ty.elem, e):
                # a string literal "optionally enclosed in braces" (6.7.9p14)
                sub = (L.base.ty, L.base.off, 0, 0)
                L.started = True
                L.full = True
            elif sub is None:
                sub = self.select_next()
        while True:
            t, off, b, a = sub
            if t.kind == 'arr' and e.kind == 'str' and t.elem.kind == 'int' and self.str_ok(t.elem, e):
                n = t.n
                if n is None:
                    n = len(e.data)
                    self.rootn = n
                self.touch_unions()
                self.leaves.append(Leaf(8 * off, 8 * n * t.elem.size, 'str', w=e.w, data=e.data))
                return
            if t.kind in ('struct', 'union') and e.kind == 'agg' and e.ty is t:
                self.touch_unions()
                self.leaves.append(Leaf(8 * off, 8 * t.size, 'opq', id=e.id))
                return
            if not is_agg(t):
                lf = scalar_leaf(t, off, b, a, e)
                self.touch_unions()
                self.leaves.append(lf)
                return
            if toplevel:
                raise SpecError('aggregate needs braces')
            # brace elision: descend into the first sub-object
            L = self.levels[-1]
            if L.base is None:
                raise SpecError('aggregate in scalar braces')
            fr = Frame(t, off)
            if fr.nchildren(self) == 0:
                raise SpecError('empty aggregate')
            self.elided = True
            L.path.append(fr)
            self.bump_root(fr)
            sub = fr.child(self)

    def str_ok(self, elem, e):
        if e.w != elem.size:
            return False
        if e.w == 1:
            return elem.ischar
        return elem.compat == self.scal[e.elemkey].compat

    def size(self):
        if self.root.kind == 'arr' and self.root.n is None:
            return self.rootn * self.root.elem.size
        return self.root.size


def find_member(t, name):
    """chain of member indices (through anonymous members) leading to `name`, or None"""
    for i, m in enumerate(t.named()):
        if m.name == name:
            return [i]
        if m.name is None:
            r = find_member(m.ty, name)
            if r is not None:
                return [i] + r
    return None


def scalar_leaf(t, off, b, a, e):
    width = 8 * t.size - b - a
    pos = 8 * off + b
    if e.kind == 'var':
        return Leaf(pos, width, 'opq', id=e.id)
    if t.kind == 'ptr':
        if e.kind == 'int' and e.v == 0:
            return Leaf(pos, width, 'int', v=0)
        if e.kind == 'str':
            if e.w != 1 or t.ptrto != 'char':
                raise SpecError('string literal for an incompatible pointer')
            return Leaf(pos, width, 'addr', sym=e.sym, off=0)
        if e.kind in ('addr', 'clit'):
            return Leaf(pos, width, 'addr', sym=e.sym, off=e.off)
        raise SpecError('bad pointer initializer')
    if e.kind not in ('int', 'flt'):
        raise SpecError('bad scalar initializer')
    if t.kind == 'bool':
        nz = (e.v != 0) if e.kind == 'int' else (e.f64 & ((1 << 63) - 1)) != 0
        return Leaf(pos, width, 'int', v=int(nz))
    if t.kind == 'flt':
        return Leaf(pos, width, 'int', v=e.f32 if t.size == 4 else e.f64)
    return Leaf(pos, width, 'int', v=e.v if e.kind == 'int' else e.toint)


def symaddr(sym):
    return (0x5a00000000000000 + (sym + 1) * (1 << 24)) & M64


def leaf_num(lf, opaque):
    if lf.kind == 'int':
        return lf.v
    if lf.kind == 'addr':
        return (symaddr(lf.sym) + lf.off) & M64
    if lf.kind == 'str':
        n = 0
        for i, c in enumerate(lf.data):
            n |= (c & ((1 << (8 * lf.w)) - 1)) << (8 * lf.w * i)
        return n
    return int.from_bytes(opaque[lf.id], 'little')


def image(leaves, size, opaque):
    """overlay of the leaf writes on a zero object; returns (bytes, {offset: (sym, addend)})"""
    img = 0
    rel = {}
    for lf in leaves:
        mask = ((1 << lf.width) - 1) << lf.pos
        img = (img & ~mask) | ((leaf_num(lf, opaque) << lf.pos) & mask)
        lo, hi = lf.pos // 8, (lf.pos + lf.width + 7) // 8
        for k in [k for k in rel if k < hi and k + 8 > lo]:
            del rel[k]
        if lf.kind == 'addr':
            rel[lf.pos // 8] = (lf.sym, lf.off & M64)
    img &= (1 << (8 * size)) - 1
    return img.to_bytes(size, 'little'), rel


# ------------------------------------------------------------------------------------ generator
BF_WIDTHS = [1, 2, 3, 5, 7, 8, 9, 12, 15, 16, 17, 24, 31, 32, 33, 40, 63, 64]


class Gen:
    def __init__(self, rng, target_name, uid):
        self.rng, self.tname, self.target, self.uid = rng, target_name, TARGETS[target_name], uid
        self.S = scalars(self.target)
        self.ntag = 0
        self.nmem = 0
        self.structs = []          # in definition order
        self.compat = 100
        self.names = {}            # member name -> id

    # -- types
    def tag(self):
        self.ntag += 1
        return 'T%d_%d' % (self.uid, self.ntag)

    def mname(self):
        self.nmem += 1
        n = 'm%d' % self.nmem
        self.names[n] = self.nmem
        return n

    def scalar(self, ptr_ok=True):
        r = self.rng
        keys = ['char', 'schar', 'uchar', 'short', 'ushort', 'int', 'int', 'uint', 'long', 'ulong', 'llong', 'ullong', 'bool', 'float', 'double']
        if ptr_ok:
            keys += ['pchar', 'pint', 'pvoid', 'pfn', 'pshort', 'pvoid']
        return self.S[r.choice(keys)]

    def gen_struct(self, depth, isunion=None, anon=False):
        r = self.rng
        if isunion is None:
            isunion = r.random() < 0.18
        nm = r.randint(1, 6) if not isunion else r.randint(1, 4)
        members = []
        for k in range(nm):
            x = r.random()
            if x < 0.30:
                # a run of bit-fields
                for _ in range(r.randint(1, 4)):
                    base = self.S[r.choice(['char', 'uchar', 'short', 'ushort', 'int', 'uint', 'long', 'ulong', 'llong', 'bool', 'schar'])]
                    maxw = 1 if base.kind == 'bool' else base.size * 8
                    w = r.choice([w for w in BF_WIDTHS if w <= maxw])
                    y = r.random()
                    if y < 0.08 and members:
                        members.append(Member(None, base, 0))
                    elif y < 0.16 and (members or not self.avoid_lead_unnamed):
                        members.append(Member(None, base, w))
                    else:
                        members.append(Member(self.mname(), base, w))
            elif x < 0.60 or depth <= 0:
                members.append(Member(self.mname(), self.scalar()))
            elif x < 0.75:
                members.append(Member(self.mname(), self.gen_array(depth - 1)))
            elif x < 0.90:
                members.append(Member(self.mname(), self.gen_struct(depth - 1)))
            else:
                members.append(Member(None, self.gen_struct(depth - 1, anon=True)))
        if not any(m.name is not None or (m.width is None) for m in members):
            members.append(Member(self.mname(), self.S['int']))
        self.compat += 1
        t = Struct(isunion, None if anon else self.tag(), members, self.compat)
        if not t.named():
            t.members.append(Member(self.mname(), self.S['int']))
            layout(t)
        if not anon:
            self.structs.append(t)
        return t

    avoid_lead_unnamed = False     # (finding focus-first-member-offset-zero, fixed in /repo)

    def gen_array(self, depth, n=None):
        r = self.rng
        x = r.random()
        if x < 0.35:
            elem = self.S[r.choice(['char', 'char', 'uchar', 'schar', 'ushort', 'int', 'uint'])]     # string-initialisable
        elif x < 0.7 or depth <= 0:
            elem = self.scalar()
        elif x < 0.85:
            elem = self.gen_struct(depth - 1, isunion=False if r.random() < 0.9 else None)
        else:
            elem = self.gen_array(depth - 1)
        if n is None:
            n = r.choice([1, 2, 2, 3, 3, 4, 5, 8])
        return Arr(elem, n)

    def gen_root(self):
        r = self.rng
        x = r.random()
        if x < 0.55:
            return self.gen_struct(2, isunion=False)
        if x < 0.62:
            return self.gen_struct(2, isunion=True)
        if x < 0.80:
            return self.gen_array(2)
        if x < 0.92:
            a = self.gen_array(2)
            return Arr(a.elem, None)
        return self.scalar()

    # -- values
    def int_value(self, t, width):
        r = self.rng
        bits = width
        pool = [0, 1, 2, -1, -2, 5, 7, 42, 100, 127, 128, 255, 256, 300, 32767, 32768, 65535, 65536, 0x12345678,
                (1 << 31) - 1, 1 << 31, (1 << 32) - 1, 1 << 32, 0x123456789abcdef0, (1 << 63) - 1, -(1 << 63), M64, -(1 << 31), -129, -32769,
                (1 << bits) - 1, (1 << max(bits - 1, 0)) - 1, 1 << max(bits - 1, 0), -(1 << max(bits - 1, 0)), 0x55555555 & ((1 << bits) - 1), 0xaaaaaaaaaaaaaaaa & ((1 << bits) - 1)]
        v = r.choice(pool) if r.random() < 0.8 else r.getrandbits(bits) - (r.random() < 0.3) * (1 << max(bits - 1, 0))
        if v > M64:
            v &= M64
        if v < -(1 << 63):
            v = -(1 << 63)
        if 32 <= v < 127 and chr(v) not in "'\\" and r.random() < 0.3:
            return ex_int(v, "'%s'" % chr(v))
        if 0 <= v < (1 << 63) and r.random() < 0.2:
            return ex_int(v, '0x%x%s' % (v, '' if v < (1 << 31) else 'l'))
        return ex_int(v)

    def scalar_value(self, t, b, a, auto):
        r = self.rng
        width = 8 * t.size - b - a
        if auto and r.random() < (0.12 if not (b or a) else 0.05):
            return self.var_value(t)
        if t.kind == 'ptr':
            x = r.random()
            if x < 0.12:
                return ex_int(0, r.choice(['0', '(void *)0', '0'])) if t.ptrto != 'fn' else ex_int(0, '0')
            cands = [ad for ad in ADDRS if ad[3] == ('p' + t.ptrto) or (t.ptrto == 'void' and ad[3] != 'pfn')]
            if t.ptrto == 'char' and x < 0.45 and not getattr(self, 'avoid_str', False):
                s = self.string_value(1, r.randint(0, 6), prefix='')
                s.sym = lit_id(bytes(s.data))
                k = r.choice([0, 0, 1, len(s.data) - 1])
                if k:
                    return Ex('clit', '%s + %d' % (s.text, k), sym=s.sym, off=k, lit=('str', s))
                return s
            if t.ptrto in ('int', 'short') and x < 0.30 and not auto:
                n = r.randint(1, 4)
                vals = [r.randint(-5, 300) for _ in range(n)]
                k = r.choice([0, 0, n - 1])
                text = '(%s[]){%s}' % (t.ptrto, ', '.join(map(str, vals)))
                if k:
                    text += ' + %d' % k
                sz = 4 if t.ptrto == 'int' else 2
                data = b''.join((v & ((1 << (8 * sz)) - 1)).to_bytes(sz, 'little') for v in vals)
                return Ex('clit', text, sym=lit_id(data), off=k * sz, lit=('bytes', data, sz))
            tx, sym, off, _ = r.choice(cands)
            return Ex('addr', tx, sym=SYMS[sym], off=off & M64)
        if t.kind == 'flt':
            x = r.random()
            if x < 0.3:
                return self.int_value(t, r.choice([8, 16, 24, 31]))
            fl = r.choice([0.0, 1.0, -1.0, 1.5, -2.5, 0.1, 3.141592653589793, 1e10, -1e-10, 65536.0, 16777217.0, 1e38, 123456.789])
            if t.size == 4 and r.random() < 0.5:
                return ex_flt(_struct.unpack('<f', _struct.pack('<f', fl))[0], repr(fl) + 'f')
            return ex_flt(fl)
        if t.kind == 'bool':
            if r.random() < 0.15:
                return ex_flt(r.choice([0.0, 0.5, 2.0]))
            return self.int_value(t, r.choice([1, 8, 32]))
        if r.random() < 0.06:
            # a floating value whose integral part does not fit the (bit-field's) type is undefined behaviour (6.3.1.4)
            lo, hi = (-(1 << (width - 1)), (1 << (width - 1)) - 1) if t.signed else (0, (1 << width) - 1)
            pool = [x for x in [0.0, 1.0, -1.0, 2.75, -100.5, 100.99, 65.0, -0.75] if lo <= int(x) <= hi]
            return ex_flt(r.choice(pool))
        return self.int_value(t, width)

    def var_value(self, t):
        self.nvar += 1
        vid = self.nvar
        name = 'v%d' % vid
        if t.kind == 'ptr':
            val = r_bytes(self.rng, 8)
        else:
            val = r_bytes(self.rng, t.size)
            if t.kind == 'bool':
                val = bytes([self.rng.randint(0, 1)])
            if t.kind == 'flt':
                val = _struct.pack('<f', 1.25) if t.size == 4 else _struct.pack('<d', -7.5)
        self.params.append((t.decl(name), vid, val, t))
        return Ex('var', name, id=vid)

    def agg_value(self, t):
        self.nvar += 1
        vid = self.nvar
        name = 'v%d' % vid
        self.params.append((t.decl(name), vid, r_bytes(self.rng, t.size), t))
        return Ex('agg', name, id=vid, ty=t)

    def string_value(self, w, n, prefix=None):
        r = self.rng
        if prefix is None:
            prefix = {1: r.choice(['', '', 'u8']), 2: 'u', 4: 'U'}[w]
        if w == 1:
            pool = list(range(97, 123)) + [32, 33, 34, 39, 63, 92, 48, 57, 1, 7, 10, 127, 128, 200, 255]
        elif w == 2:
            pool = list(range(97, 123)) + [48, 0x100, 0x7ff, 0x800, 0xd7ff, 0xe000, 0xffff, 0xe9, 1]
        else:
            pool = list(range(97, 123)) + [48, 0x100, 0xffff, 0x10000, 0x10ffff, 0xe9, 1, 0x800]
        elems = [r.choice(pool) for _ in range(n)]
        if prefix == 'u8':
            elems = [c if c < 128 else 97 for c in elems]
        return ex_str(prefix, elems, self.target)

    # -- the random walk
    def gen_init(self, root, auto, style):
        """returns (tokens, machine) where tokens = list of ('{',) ('}',) (',',) ('d', desigs) ('e', Ex)"""
        r = self.rng
        self.nlit = getattr(self, 'nlit', 0)
        self.nvar = getattr(self, 'nvar', 0)
        if not hasattr(self, 'params'):
            self.params = []
        m = SpecMachine(root, self.target)
        m.scal = self.S
        toks = []
        self.budget = r.randint(4, 40)
        if not is_agg(root):
            e = self.scalar_value(root, 0, 0, auto)
            if r.random() < 0.25:
                toks += [('{',), ('e', e), ('}',)]
                m.open_brace(); m.expr(e); m.close_brace()
            else:
                toks.append(('e', e))
                m.expr(e)
            return toks, m
        if root.kind == 'arr' and root.elem.kind == 'int' and r.random() < 0.35:
            e = self.string_for(root, m)
            if e is not None:
                if r.random() < 0.3:
                    toks += [('{',), ('e', e), ('}',)]
                    m.open_brace(); m.expr(e); m.close_brace()
                else:
                    toks.append(('e', e))
                    m.expr(e)
                return toks, m
        if auto and root.kind in ('struct', 'union') and root.tag is not None and r.random() < 0.08:
            e = self.agg_value(root)
            toks.append(('e', e))
            m.expr(e)
            return toks, m
        toks.append(('{',))
        m.open_brace()
        self.fill_level(m, toks, auto, style, 0)
        return toks, m

    def string_for(self, arr, m):
        r = self.rng
        el = arr.elem
        w = el.size
        if w == 1 and not el.ischar:
            return None
        if w == 8:
            return None
        if w == 4:
            wc = self.S[self.target['wchar']]
            if el.compat == wc.compat:
                prefix = 'L'
            elif el.compat == self.S['uint'].compat:
                prefix = 'U'
            else:
                return None
        elif w == 2:
            if el.compat != self.S['ushort'].compat:
                return None
            prefix = 'u'
        else:
            prefix = None
        if arr.n is None:
            n = r.randint(0, 7)
        else:
            n = r.choice([0, max(arr.n - 2, 0), max(arr.n - 1, 0), arr.n, arr.n, r.randint(0, arr.n)])     # n == arr.n: no room for the terminator
            if r.random() < 0.04:
                n = arr.n + 1                                                                        # too long: truncated
        return self.string_value(w, n, prefix)

    def fill_level(self, m, toks, auto, style, depth):
        """emit the items of the innermost brace level and its closing brace"""
        r = self.rng
        L = m.levels[-1]
        if L.base is None:
            t, off, b, a = L.scalar
            e = self.scalar_value(t, b, a, auto)        # `{}` for a scalar is C23 only (gcc 12 rejects it)
            toks.append(('e', e))
            m.expr(e)
            if r.random() < 0.2:
                toks.append((',',))
            toks.append(('}',))
            m.close_brace()
            return
        p_stop = {'full': 0.02, 'part': 0.12, 'desig': 0.10, 'mixed': 0.10}[style]
        p_desig = {'full': 0.0, 'part': 0.0, 'desig': 0.75, 'mixed': 0.30}[style]
        p_brace = {'full': 0.95, 'part': 0.6, 'desig': 0.5, 'mixed': 0.35}[style]
        nitems = 0
        fails = 0
        prev_desig = False
        while self.budget > 0 and fails < 4:
            if nitems and r.random() < p_stop:
                break
            self.budget -= 1
            saved = self.save(m)
            item = [] if nitems == 0 else [(',',)]
            try:
                desig = r.random() < p_desig
                if not desig and not L.path:
                    L.tainted = False
                if desig:
                    L.tainted = True
                    d = self.random_designators(m, L, auto)
                    if d is None:
                        raise G_Skip()
                    sub = m.designate(d)
                    item.append(('d', d))
                else:
                    sub = m.select_next()
                t, off, b, a = sub
                # -- whole-aggregate expressions
                e = None
                # (gcc mis-places a string literal that follows a designated item in an implicit level: not generated)
                leaving_chars = bool(L.path) and L.path[-1].ty.kind == 'arr' and L.path[-1].ty.elem.kind == 'int'
                self.avoid_str = leaving_chars and not desig      # (gcc: "excess elements" for a string after a full implicit array)
                if t.kind == 'arr' and t.elem.kind == 'int' and r.random() < 0.6 and (desig or not (getattr(L, 'tainted', False) or leaving_chars)):
                    e = self.string_for(t, m)
                if e is not None:
                    if r.random() < 0.15 and self.fresh(m, t, off):
                        m.open_brace(sub); m.expr(e); m.close_brace()
                        item += [('{',), ('e', e), ('}',)]
                    else:
                        m.expr(e, sub)
                        item.append(('e', e))
                elif auto and t.kind in ('struct', 'union') and t.tag is not None and r.random() < 0.15:
                    e = self.agg_value(t)
                    m.expr(e, sub)
                    item.append(('e', e))
                elif is_agg(t) and r.random() < p_brace and depth < 6 and self.fresh(m, t, off):
                    m.open_brace(sub)
                    sub_toks = [('{',)]
                    if r.random() < 0.04 and (nitems > 0 or self.allow_empty_first):
                        sub_toks.append(('}',))           # empty braces (C23 / GNU)
                        m.close_brace()
                    else:
                        self.fill_level(m, sub_toks, auto, style, depth + 1)
                    item += sub_toks
                elif is_agg(t):
                    # brace elision: the expression lands in the first leaf below
                    lt, loff, lb, la = first_leaf(t, off)
                    if lt is None:
                        raise G_Skip()
                    e = self.scalar_value(lt, lb, la, auto)
                    m.expr(e, sub)
                    item.append(('e', e))
                elif r.random() < 0.05:
                    m.open_brace(sub)
                    sub_toks = [('{',)]
                    self.fill_level(m, sub_toks, auto, style, depth + 1)
                    item += sub_toks
                else:
                    e = self.scalar_value(t, b, a, auto)
                    m.expr(e, sub)
                    item.append(('e', e))
            except (SpecError, G_Skip) as ex:
                self.restore(m, saved)
                fails += 1
                if isinstance(ex, SpecError) and 'excess' in str(ex):
                    break
                continue
            toks.extend(item)
            nitems += 1
            prev_desig = desig
        if nitems and r.random() < 0.15:
            toks.append((',',))
        toks.append(('}',))
        m.close_brace()

    def fresh(self, m, t, off):
        """no part of the sub-object initialised so far: a braced list for a sub-object of which some part is already
        initialised re-initialises all of it (gcc, clang); cproc keeps the earlier members
        (finding braced-override-keeps-earlier-members)"""
        if t.kind == 'arr' and t.n is None:
            return False
        return self.allow_braced_override or not any(lf.pos < 8 * (off + t.size) and 8 * off < lf.pos + lf.width for lf in m.leaves)

    allow_empty_first = False      # finding empty-braces-first-item-not-consumed

    def save(self, m):
        return (len(m.levels), [(L, L.started, getattr(L, 'full', False), L.base.idx if L.base else None, list(L.path), [f.idx for f in L.path])
                                for L in m.levels], m.rootn, dict(m.union_active), len(m.leaves), m.elided, m.switched,
                self.nvar, self.nlit, len(self.params))

    def restore(self, m, s):
        del m.levels[s[0]:]
        for L, started, full, bidx, path, idxs in s[1]:
            L.started, L.full = started, full
            if L.base:
                L.base.idx = bidx
            L.path = path
            for f, i in zip(path, idxs):
                f.idx = i
        m.rootn = s[2]
        m.union_active = s[3]
        del m.leaves[s[4]:]
        m.elided, m.switched = s[5], s[6]
        self.nvar, self.nlit = s[7], s[8]
        del self.params[s[9]:]
        m.done = False

    allow_braced_override = False

    def path_into(self, t, off, lo, hi):
        """designators from aggregate t (at byte offset off) to a scalar inside the byte range [lo, hi), or None"""
        r = self.rng
        out = []
        while is_agg(t):
            if t.kind == 'arr':
                n = t.n if t.n is not None else 0
                idx = [i for i in range(n) if off + i * t.elem.size < hi and lo < off + (i + 1) * t.elem.size]
                if not idx:
                    return None
                i = r.choice(idx)
                out.append(('idx', i))
                off += i * t.elem.size
                t = t.elem
            else:
                ms = [mm for mm in t.named() if off + mm.off < hi and lo < off + mm.off + mm.ty.size]
                if t.kind == 'union':
                    ms = ms[:1]
                if not ms:
                    return None
                mm = r.choice(ms)
                off += mm.off
                t = mm.ty
                if mm.name is not None:
                    out.append(('fld', mm.name))
                elif not is_agg(t):
                    return None
                else:
                    # an anonymous member: name one of its members instead
                    sub = self.path_into(t, off, lo, hi)
                    return out + sub if sub else None
        return out or None

    def random_designators(self, m, L, auto):
        """a random designator path below the braced aggregate"""
        r = self.rng
        t = L.base.ty
        if r.random() < 0.3:
            # an element inside a sub-object that a string literal / struct value initialised as a whole
            whole = [lf for lf in m.leaves if lf.kind in ('str', 'opq') and lf.width > 8 and lf.pos % 8 == 0
                     and 8 * L.base.off <= lf.pos and lf.pos + lf.width <= 8 * (L.base.off + (t.size or 10 ** 9))]
            if whole:
                lf = r.choice(whole)
                p = self.path_into(t, L.base.off, lf.pos // 8, (lf.pos + lf.width) // 8)
                if p:
                    return p
        out = []
        depth = 0
        while True:
            if t.kind == 'arr':
                n = t.n if t.n is not None else r.choice([1, 2, 4, 7])
                if n == 0:
                    return None
                out.append(('idx', r.randrange(n)))
                t = t.elem
            elif t.kind in ('struct', 'union'):
                names = all_names(t)
                if not names:
                    return None
                nm = r.choice(names)
                out.append(('fld', nm))
                t = member_type(t, nm)
            else:
                break
            depth += 1
            if not is_agg(t) or r.random() < 0.45 or depth >= 4:
                break
        return out


def lit_id(content):
    """the symbol id of an anonymous object = a hash of its bytes (cproc pools equal string literals)"""
    import hashlib
    return 1000 + int(hashlib.sha1(content).hexdigest()[:5], 16)


def r_bytes(rng, n):
    return bytes(rng.randrange(1, 256) for _ in range(n))


def all_names(t):
    out = []
    for mem in t.named():
        if mem.name is None:
            out += all_names(mem.ty)
        else:
            out.append(mem.name)
    return out


def member_type(t, name):
    for mem in t.named():
        if mem.name == name:
            return mem.ty
        if mem.name is None:
            r = member_type(mem.ty, name) if name in all_names(mem.ty) else None
            if r is not None:
                return r
    return None


def first_leaf(t, off):
    b = a = 0
    while is_agg(t):
        if t.kind == 'arr':
            if t.n == 0:
                return None, 0, 0, 0
            t = t.elem
        else:
            ms = t.named()
            if not ms:
                return None, 0, 0, 0
            off += ms[0].off
            b, a = ms[0].before, ms[0].after
            t = ms[0].ty
    return t, off, b, a


# ---------------------------------------------------------------------------- rendering
def c_init(toks):
    out = []
    for t in toks:
        if t[0] in '{},':
            out.append(t[0])
        elif t[0] == 'd':
            out.append(''.join('[%d]' % (d[1] if d[1] < (1 << 63) else d[1] - (1 << 64)) if d[0] == 'idx' else '.' + d[1] for d in t[1]) + ' =')
        elif t[0] == 'raw':
            out.append(t[1])
        else:
            out.append(t[1].text)
    return ' '.join(out)


class TypeTable:
    """flattening of the Python types into the oracle's indexed table"""
    def __init__(self, gen):
        self.gen = gen
        self.lines = []
        self.mlines = []
        self.index = {}
        self.n = 0

    def add(self, t):
        key = id(t)
        if key in self.index:
            return self.index[key]
        if t.kind == 'arr':
            b = self.add(t.elem)
            i = self.n
            self.n += 1
            self.index[key] = i
            self.lines.append((i, 'T a %d %d %d %d 0 0 0 0 0 0 %d' % (t.size, t.align, 1 if t.n is None else 0, b, 50 + i)))
            return i
        if t.kind in ('struct', 'union'):
            i = self.n
            self.n += 1
            self.index[key] = i
            self.lines.append((i, 'T %s %d %d 0 0 0 0 0 0 0 0 %d' % ('S' if t.kind == 'struct' else 'U', t.size, t.align, t.compat)))
            for m in t.named():
                mi = self.add(m.ty)
                self.mlines.append('M %d %s %d %d %d %d' % (i, '-' if m.name is None else self.gen.names[m.name], mi, m.off, m.before, m.after))
            return i
        i = self.n
        self.n += 1
        self.index[key] = i
        self.lines.append((i, 'T s %d %d 0 0 %d %d %d %d %d %d %d' % (
            t.size, t.align, int(t.kind in ('int', 'bool')), int(t.ischar), int(t.kind == 'flt'), int(t.signed), int(t.kind == 'bool'),
            int(t.kind == 'ptr'), t.compat)))
        return i

    def text(self):
        return '\n'.join(l for _, l in sorted(self.lines)) + '\n' + ''.join(l + '\n' for l in self.mlines)


def oracle_tokens(toks, gen):
    out = []
    for t in toks:
        if t[0] in '{},':
            out.append(t[0])
        elif t[0] == 'd':
            for d in t[1]:
                out.append('[%d' % (d[1] & M64) if d[0] == 'idx' else '.%d' % gen.names.get(d[1], 999999))
            out.append('=')
        elif t[0] == 'raw':
            out.append(t[2])
        else:
            e = t[1]
            if e.kind == 'int':
                out.append('i:%d:%d:%d' % (e.v, e.f32, e.f64))
            elif e.kind == 'flt':
                out.append('f:%d:%d:%d' % (e.f32, e.f64, e.toint))
            elif e.kind == 'str':
                out.append('s:%d:%d:%d:%d:%s' % (e.w, int(e.ischar), gen.S[e.elemkey].compat, getattr(e, 'sym', 0), '.'.join(map(str, e.data))))
            elif e.kind in ('addr', 'clit'):
                out.append('a:%d:%d' % (e.sym, e.off & M64))
            elif e.kind == 'agg':
                out.append('g:%d:%d:%d:%d' % (e.ty.compat, e.ty.size, e.ty.align, e.id))
            else:
                out.append('v:%d' % e.id)
    return ' '.join(out)


def brace_complete(toks, m):
    """no designators, every aggregate/union written with its own braces, complete root type"""
    return all(t[0] != 'd' for t in toks) and not m.elided and not (m.root.kind == 'arr' and m.root.n is None)


# ------------------------------------------------------------------------------- replaying tokens
def replay_tokens(root, toks, gen, allow_union_switch=False):
    """run the reference over a token list (as produced by Gen.gen_init); raises SpecError when invalid"""
    m = SpecMachine(root, gen.target)
    m.scal = gen.S
    m.allow_union_switch = allow_union_switch
    pos = [0]

    def init(sub):
        t = toks[pos[0]]
        if t[0] == '{':
            pos[0] += 1
            m.open_brace(sub)
            first = True
            while toks[pos[0]][0] != '}':
                if not first:
                    if toks[pos[0]][0] != ',':
                        raise SpecError('expected , or }')
                    pos[0] += 1
                    if toks[pos[0]][0] == '}':
                        break
                first = False
                s2 = None
                if toks[pos[0]][0] == 'd':
                    s2 = m.designate(toks[pos[0]][1])
                    pos[0] += 1
                init(s2)
            pos[0] += 1
            m.close_brace()
        elif t[0] == 'e':
            m.expr(t[1], sub)
            pos[0] += 1
        else:
            raise SpecError('expected initializer')
    init(None)
    if pos[0] != len(toks):
        raise SpecError('trailing tokens')
    return m


def item_spans(toks):
    """token spans [a, b) whose removal deletes one item of some brace level together with one adjacent comma"""
    spans = []

    def skip_init(i):
        if toks[i][0] == '{':
            i = plist(i + 1)
            return i + 1
        return i + 1

    def plist(i):
        items = []
        while toks[i][0] != '}':
            a = i
            if toks[i][0] == 'd':
                i += 1
            i = skip_init(i)
            items.append((a, i))
            if toks[i][0] == ',':
                i += 1
        for k, (a, b) in enumerate(items):
            if toks[b][0] == ',':
                spans.append((a, b + 1))
            elif k > 0:
                spans.append((a - 1, b))
            else:
                spans.append((a, b))
        return i
    if toks and toks[0][0] == '{':
        plist(1)
    return spans
