# C08 - generator of C types, signatures and call programs, with the layout cproc's front end gives them
# (a port of decl.c:addmember, cross-checked on every run against gcc/clang and against the C-side of the Coq
# development through the oracle's CINFO).  Every random choice comes from the rng passed in.
import itertools

# ----------------------------------------------------------------------------- scalar universe
# (C spelling, model kind token, size, is float, is signed on x86 (char: target dependent), printable via)
SCAL = {
    'bool':   ('_Bool', 's bool', 1, False),
    'char':   ('char', 's char', 1, False),
    'schar':  ('signed char', 's schar', 1, False),
    'uchar':  ('unsigned char', 's uchar', 1, False),
    'short':  ('short', 's short', 2, False),
    'ushort': ('unsigned short', 's ushort', 2, False),
    'int':    ('int', 's int', 4, False),
    'uint':   ('unsigned', 's uint', 4, False),
    'long':   ('long', 's long', 8, False),
    'ulong':  ('unsigned long', 's ulong', 8, False),
    'llong':  ('long long', 's llong', 8, False),
    'ullong': ('unsigned long long', 's ullong', 8, False),
    'float':  ('float', 's float', 4, True),
    'double': ('double', 's double', 8, True),
    'ptr':    ('void *', 's ptr', 8, False),
    'eu':     ('enum EU', 'e uint', 4, False),
    'es':     ('enum ES', 'e int', 4, False),
    'el':     ('enum EL', 'e ulong', 8, False),
}
ENUMS = 'enum EU { EU0, EU1 = 5 };\nenum ES { ES0 = -1, ES1 = 7 };\nenum EL { EL0 = 0x100000000, EL1 };\n'
INT_KINDS = ['bool', 'char', 'schar', 'uchar', 'short', 'ushort', 'int', 'uint', 'long', 'ulong', 'llong', 'ullong', 'eu', 'es', 'el']
SIGNED = {'schar', 'short', 'int', 'long', 'llong', 'es'}          # plus 'char' when targ->signedchar
ALL_KINDS = list(SCAL)
BF_KINDS = ['bool', 'char', 'schar', 'uchar', 'short', 'ushort', 'int', 'uint', 'long', 'ulong', 'eu']


class Scalar:
    def __init__(self, kind):
        self.kind = kind
        self.c, self.tok, self.size, self.flt = SCAL[kind]
        self.align = self.size
    def decl(self, name): return '%s %s' % (self.c, name) if name else self.c
    def enc(self): return self.tok
    def has_bf(self): return False
    def natural(self): return True
    def leaves(self, path, off): return [(path, off, self.size, 'f' if self.flt else 'i')]
    def records(self): return []


class Array:
    def __init__(self, elem, n):
        self.elem, self.n = elem, n
        self.size, self.align = elem.size * n, elem.align
        self.flt = False
    def decl(self, name):
        # int a[2][3]: innermost dimension last
        dims, t = '', self
        while isinstance(t, Array):
            dims += '[%s]' % (t.n if t.n is not None and t.n >= 0 else '')
            t = t.elem
        return t.decl((name or '') + dims)
    def enc(self): return 'a %d %s' % (self.size, self.elem.enc())
    def has_bf(self): return self.elem.has_bf()
    def natural(self): return self.n >= 1 and self.elem.natural() and self.elem.size > 0
    def leaves(self, path, off):
        r = []
        for i in range(self.n):
            r += self.elem.leaves('%s[%d]' % (path, i), off + i * self.elem.size)
        return r
    def records(self): return self.elem.records() + ([self.elem] if isinstance(self.elem, Record) else [])


class Member:
    def __init__(self, name, type, width=None, alignas=0):
        self.name, self.type, self.width, self.alignas = name, type, width, alignas
        self.offset = self.before = self.after = None       # filled by Record.layout for members that exist in cproc's list


def alignup(x, a): return (x + a - 1) // a * a


class Record:
    """struct or union; members: list of Member (name None: anonymous record member or unnamed bit-field)"""
    _uid = itertools.count(1)

    def __init__(self, tag, is_struct, members, packed=False, flexible=None):
        self.tag, self.is_struct, self.members, self.packed = tag, is_struct, members, packed
        self.uid = next(Record._uid)
        self.valist = False
        self.flt = False
        self.layout()

    # decl.c addmember / tagspec, x86-64 and riscv64 rules (C06: Model/Layout.v)
    def layout(self):
        size = align = bits = 0
        self.mlist = []          # members as cproc's list has them (unnamed bit-fields create none)
        for m in self.members:
            t = m.type
            if m.width is None:
                a = m.alignas if m.alignas else (1 if self.packed else t.align)
                if self.is_struct:
                    off = alignup(size, a)
                    size = off + t.size
                else:
                    off = 0
                    size = max(size, t.size)
                align = max(align, a)
                m.offset, m.before, m.after = off, 0, 0
                self.mlist.append(m)
                bits = 0
            else:
                w = m.width
                has_m = m.name is not None
                if has_m:
                    align = max(align, t.align)
                if self.is_struct:
                    e = alignup(size, t.size)
                    if w == 0 or (e - size) * 8 + bits < w:
                        size, bits = e, 0
                    if has_m:
                        off = (size - (1 if bits else 0)) // t.size * t.size
                        m.offset = off
                        m.before = (size - off) * 8 - bits
                        m.after = t.size * 8 - w - m.before
                        self.mlist.append(m)
                    size += (w - bits + 7) // 8
                    bits = (bits - w) % 8
                elif has_m:
                    m.offset, m.before, m.after = 0, 0, t.size * 8 - w
                    size = max(size, t.size)
                    self.mlist.append(m)
                else:
                    size = max(size, (w + 7) // 8)
        self.size = size if self.packed else alignup(size, max(align, 1))
        self.align = max(align, 1)

    def name(self): return ('struct ' if self.is_struct else 'union ') + self.tag
    def decl(self, name): return '%s %s' % (self.name(), name) if name else self.name()

    def body(self):
        s = '{ '
        for m in self.members:
            al = '_Alignas(%d) ' % m.alignas if m.alignas else ''
            if m.width is not None:
                s += '%s%s : %d; ' % (al, m.type.decl(m.name or ''), m.width)
            elif isinstance(m.type, Record) and m.type.tag == '':       # untagged struct/union defined inline (anonymous member when unnamed)
                s += '%s%s %s %s; ' % (al, 'struct' if m.type.is_struct else 'union', m.type.body(), m.name or '')
            else:
                s += '%s%s; ' % (al, m.type.decl(m.name))
        return s + '}'

    def define(self):
        return '%s%s %s;\n' % (('struct ' if self.is_struct else 'union ') + ('__attribute__((packed)) ' if self.packed else ''),
                               self.tag, self.body())

    def enc(self):
        s = 'r %d %s %s %d %d %d %d' % (self.uid, self.tag or '-', 'S' if self.is_struct else 'U', 1 if self.valist else 0,
                                        self.size, self.align, len(self.mlist))
        for m in self.mlist:
            s += ' %s %d %s' % (m.type.enc(), m.offset, '-' if m.width is None else '%d,%d' % (m.before, m.after))
        return s

    def has_bf(self):
        return any(m.width is not None or m.type.has_bf() for m in self.members)

    def special(self):
        """features outside natural layout, directly in this record"""
        f = set()
        if self.packed: f.add('packed')
        for m in self.members:
            if m.alignas: f.add('alignas')
            if m.width is not None: f.add('bitfield')
            if isinstance(m.type, Array) and m.type.n in (0, None): f.add('flexible')
        return f

    def all_special(self):
        f = set(self.special())
        for r in self.records():
            f |= r.special()
        return f

    def leaves(self, path, off):
        """(path, offset, size, kind); a bit-field has kind 'b' and carries its storage unit"""
        r = []
        for m in self.mlist:
            p = path + '.' + m.name if m.name else path      # members of an anonymous record are reached directly
            if m.width is not None:
                r.append((p, off + m.offset, m.type.size, 'b'))
            else:
                r += m.type.leaves(p, off + m.offset)
        return r

    def records(self):
        """nested record types, innermost first, without duplicates"""
        out = []
        for m in self.members:
            for r in m.type.records() + ([m.type] if isinstance(m.type, Record) else []):
                if r not in out:
                    out.append(r)
        return out


def strip(t):
    while isinstance(t, Array):
        t = t.elem
    return t


# ----------------------------------------------------------------------------- va_list per target (targ.c)
class VaList:
    """__builtin_va_list: x86_64-sysv: array of one member-less struct of 24 bytes; aarch64: the struct that is
    targ->typevalist (32 bytes, printed opaque); riscv64: pointer"""
    TABLE = {'x86_64-sysv': ('array-of-struct', 24, 8), 'aarch64': ('struct', 32, 8), 'riscv64': ('pointer', 8, 8)}

    def __init__(self, target='x86_64-sysv'):
        self.uid = next(Record._uid)
        self.flt = False
        self.tag = 'va_list'
        self.set_target(target)

    def set_target(self, target):
        self.target = target
        _, self.size, self.align = VaList.TABLE[target]
    def decl(self, name): return '__builtin_va_list %s' % name if name else '__builtin_va_list'
    def enc(self):
        if self.target == 'x86_64-sysv':
            return 'a 24 r %d - S 0 24 8 0' % self.uid
        if self.target == 'aarch64':
            return 'r %d va_list S 1 32 8 0' % self.uid
        return 's ptr'
    def has_bf(self): return False
    def natural(self): return self.target != 'x86_64-sysv'
    def leaves(self, path, off): return [(path, off, self.size, 'o' if self.target != 'riscv64' else 'i')]
    def records(self): return []


# ----------------------------------------------------------------------------- random types
class TypeGen:
    def __init__(self, rng, maxsize=64, p_bf=0.25, p_special=0.0):
        self.rng, self.maxsize, self.p_bf, self.p_special = rng, maxsize, p_bf, p_special
        self.records = []
        self.n = 0
        self.mn = 0

    def mname(self):
        # member names are unique in the whole unit: members of anonymous records share their parent's name space
        self.mn += 1
        return 'm%d' % self.mn

    def scalar(self, pool=None):
        r = self.rng
        pool = pool or r.choice([ALL_KINDS, ALL_KINDS, ['float', 'double'], ['char', 'uchar', 'short', 'int', 'long'], ['float', 'int'], ['double', 'long', 'ptr']])
        return Scalar(r.choice(pool))

    def member_type(self, depth, budget):
        r = self.rng
        x = r.random()
        if x < 0.50 or budget < 2:
            t = self.scalar()
        elif x < 0.72:
            e = self.scalar() if r.random() < 0.7 or depth >= 2 or not self.records else r.choice(self.records)
            n = r.choice([1, 2, 2, 3, 4, 5, 7, 8])
            t = Array(e, n)
            if r.random() < 0.2:
                t = Array(t, r.choice([1, 2, 3]))
        elif x < 0.90 and self.records:
            t = r.choice(self.records)
        else:
            t = self.record(depth + 1, budget, anonymous=r.random() < 0.5)
        return t

    def record(self, depth=0, budget=None, anonymous=False, force=None):
        """a new struct/union of 1..budget bytes (retries until it fits)"""
        r = self.rng
        budget = budget or self.maxsize
        for attempt in range(50):
            is_struct = r.random() < 0.75
            nm = r.choice([1, 1, 2, 2, 3, 3, 4, 5, 6]) if is_struct else r.choice([1, 2, 2, 3])
            with_bf = r.random() < self.p_bf or force == 'bitfield'
            # cproc supports packed on tagged structs only (no bit-fields inside)
            packed = is_struct and not anonymous and (force == 'packed' or (self.p_special and not with_bf and r.random() < self.p_special))
            members = []
            for i in range(nm):
                if with_bf and r.random() < 0.55:
                    k = r.choice(BF_KINDS)
                    t = Scalar(k)
                    maxw = 1 if k == 'bool' else t.size * 8
                    w = r.choice([1, 1, 2, 3, 4, 7, 8, 9, 15, 16, 17, 24, 31, 32, 33, 40, 63, 64, maxw, maxw])
                    w = min(w, maxw)
                    if r.random() < 0.12 and k != 'eu':       # `enum EU : 0` would be an enum specifier with a fixed underlying type
                        members.append(Member(None, t, 0 if r.random() < 0.5 else min(w, 7)))
                    else:
                        members.append(Member(self.mname(), t, w))
                else:
                    t = self.member_type(depth, budget // 2 if depth else budget)
                    al = 0
                    if (force == 'alignas' or (self.p_special and r.random() < self.p_special)) and not with_bf and not packed:
                        al = r.choice([a for a in (2, 4, 8, 16) if a >= t.align] or [0])
                    if isinstance(t, Record) and t.tag == '' and not t.valist:
                        members.append(Member(None if r.random() < 0.7 else self.mname(), t, None, al))
                    else:
                        members.append(Member(self.mname(), t, None, al))
            if not any(m.name is not None or m.width is None for m in members):
                continue
            if force == 'flexible' and is_struct and members[-1].width is None:
                members.append(Member('flex', Array(self.scalar(), 0)))
            if anonymous and any(m.name is None and m.width is None for m in members):
                continue            # keep inline definitions one level deep
            self.n += 1
            rec = Record('' if anonymous else ('S%d' % self.n if is_struct else 'U%d' % self.n), is_struct, members, packed=bool(packed))
            if 1 <= rec.size <= budget and rec.mlist:
                if not anonymous:
                    self.records.append(rec)
                return rec
        # fall back to something small
        self.n += 1
        rec = Record('' if anonymous else 'S%d' % self.n, True, [Member('f0', Scalar(r.choice(['char', 'int', 'float', 'double'])))])
        if not anonymous:
            self.records.append(rec)
        return rec


def tagged_records(types):
    """all tagged record types reachable from `types`, in an order fit for definition (inner first)"""
    out = []
    def visit(t):
        t = strip(t)
        if isinstance(t, Record):
            for m in t.members:
                visit(m.type)
            if t.tag and t not in out and not t.valist:
                out.append(t)
    for t in types:
        visit(t)
    return out


# ----------------------------------------------------------------------------- static units: signatures and calls
class Func:
    def __init__(self, name, ret, params, vararg):
        self.name, self.ret, self.params, self.vararg = name, ret, params, vararg   # ret None = void

    def proto(self, names=False):
        ps = [p.decl('p%d' % i if names else '') for i, p in enumerate(self.params)]
        if self.vararg:
            ps.append('...')
        return '%s %s(%s)' % (self.ret.c if isinstance(self.ret, Scalar) else (self.ret.decl('') if self.ret else 'void'),
                              self.name, ', '.join(ps) if ps else 'void')


def gen_static_unit(rng, nfuncs=6, p_bf=0.25, p_special=0.0, maxparams=12):
    """returns dict(src, events, types): events are ('FUNC', func) / ('CALL', callee, [(argtype, argexpr, bfwidth)])"""
    tg = TypeGen(rng, p_bf=p_bf, p_special=p_special)
    for _ in range(rng.randint(3, 7)):
        tg.record()
    recs = list(tg.records)
    va = VaList()

    def anytype(ret=False):
        x = rng.random()
        if x < 0.45:
            return Scalar(rng.choice(ALL_KINDS))
        if x < 0.92 or ret:
            return rng.choice(recs)
        if x < 0.96:
            return va if not ret else rng.choice(recs)
        return Array(Scalar(rng.choice(['int', 'char', 'double'])), rng.choice([2, 3]))      # adjusted to a pointer

    funcs = []
    for i in range(nfuncs):
        np = rng.choice([0, 1, 1, 2, 2, 3, 3, 4, 5, 6, 8, 12])
        np = min(np, maxparams)
        vararg = rng.random() < 0.35
        ret = None if rng.random() < 0.2 else anytype(ret=True)
        if isinstance(ret, Array):
            ret = Scalar('ptr')
        funcs.append(Func('f%d' % i, ret, [anytype() for _ in range(np)], vararg))

    # globals providing values of every type
    glob = {}
    decls = []
    def gvar(t):
        key = id(t) if not isinstance(t, Scalar) else t.kind
        if key not in glob:
            glob[key] = 'g%d' % len(glob)
            decls.append('extern %s;' % t.decl(glob[key]))
        return glob[key]
    bf_sources = []     # (record, member) with named bit-fields, for promoted bit-field arguments
    for r_ in recs:
        for m in r_.mlist:
            if m.width is not None and m.name:
                bf_sources.append((r_, m))

    events = []
    body_funcs = []
    ndefs = rng.randint(2, 4)
    for d in range(ndefs):
        f = rng.choice(funcs)
        g = Func('d%d' % d, f.ret, f.params, f.vararg)
        events.append(('FUNC', g))
        # every sub-word integer parameter is read once, first thing (the load opcode shows its signedness)
        lines = ['\tgsink = p%d;' % i for i, p in enumerate(g.params) if isinstance(p, Scalar) and p.size < 4 and not p.flt]
        for c in range(rng.randint(1, 4)):
            callee = rng.choice(funcs)
            args = []
            for p in callee.params:
                pt = Scalar('ptr') if isinstance(p, Array) else p
                if isinstance(pt, Scalar) and pt.kind != 'ptr' and rng.random() < 0.5:
                    # an argument of another arithmetic type: converted to the parameter type
                    src = Scalar(rng.choice([k for k in ALL_KINDS if k != 'ptr']))
                    args.append((src, gvar(src), None))
                else:
                    args.append((pt, gvar(pt) if not (isinstance(pt, Scalar) and pt.kind == 'ptr') else '(void *)0', None))
            if callee.vararg:
                for _ in range(rng.choice([0, 0, 1, 2, 3, 5])):
                    x = rng.random()
                    if x < 0.15 and bf_sources:
                        r_, m = rng.choice(bf_sources)
                        args.append((m.type, '%s.%s' % (gvar(r_), m.name), m.width))
                    elif x < 0.8:
                        t = Scalar(rng.choice(ALL_KINDS))
                        args.append((t, gvar(t) if t.kind != 'ptr' else '(void *)0', None))
                    else:
                        t = rng.choice(recs)
                        args.append((t, gvar(t), None))
            events.append(('CALL', callee, args))
            lines.append('\t%s(%s);' % (callee.name, ', '.join(a[1] for a in args)))
        retv = ''
        if g.ret is not None:
            retv = '\treturn %s;\n' % (gvar(g.ret) if not (isinstance(g.ret, Scalar) and g.ret.kind == 'ptr') else '(void *)0')
        body_funcs.append('%s\n{\n%s\n%s}\n' % (g.proto(names=True), '\n'.join(lines), retv))

    alltypes = [t for f in funcs for t in ([f.ret] if f.ret else []) + f.params] + recs
    src = ENUMS
    for r_ in tagged_records(alltypes):
        src += r_.define()
    src += ''.join(f.proto() + ';\n' for f in funcs)
    src += 'extern int gsink;\n' + '\n'.join(decls) + '\n'
    src += '\n'.join(body_funcs)
    return dict(src=src, events=events, records=tagged_records(alltypes), va=va)


# ----------------------------------------------------------------------------- dynamic programs (caller + callee)
def access_paths(t, path):
    """(lvalue path, Scalar, bit-field width or None) of every scalar reachable from an object; a union through its first member"""
    if isinstance(t, Scalar):
        return [(path, t, None)]
    if isinstance(t, Array):
        r = []
        for i in range(t.n):
            r += access_paths(t.elem, '%s[%d]' % (path, i))
        return r
    r = []
    ms = t.mlist if t.is_struct else t.mlist[:1]
    for m in ms:
        p = path + '.' + m.name if m.name else path
        if m.width is not None:
            r.append((p, m.type, m.width))
        else:
            r += access_paths(m.type, p)
    return r


def value_for(s, width, n):
    """a C expression of a value representable in the scalar (restricted to the bit-field width), varying with n"""
    k = s.kind
    if k == 'bool':
        return '%d' % (n & 1)
    if s.flt:
        return '%d.%s%s' % (n * 3 + 1, '25' if n & 1 else '5', 'f' if k == 'float' else '')
    if k == 'ptr':
        return '(void *)%d' % (4096 + 16 * n)
    bits = width if width is not None else s.size * 8
    signed = k in SIGNED or k == 'char'      # plain char: keep the value in 0..127 so that both signednesses agree
    if k == 'char':       # plain char (also as a bit-field) is signed on x86-64, unsigned elsewhere: stay in the common range
        return '%d' % ((1 + n * 5 % 120) % (1 << (bits - 1)) if bits > 1 else 0)
    if k in ('eu', 'es', 'el'):
        hi = min(bits, 31) - 1
        return '(%s)%d' % (s.c, (n * 11 + 3) % (1 << max(hi, 1)) if bits > 1 else n & 1)
    if signed:
        lim = 1 << (bits - 1)
        v = (n * 37 + 11) % lim
        if n % 3 == 0 and bits > 1:
            v = -v - 1 if v < lim else v
        return '(%s)%d' % (s.c, v) if bits < 64 else '%dL' % v
    lim = 1 << bits
    v = (n * 41 + 7) % lim
    if n % 4 == 0:
        v = lim - 1 - (n % min(lim, 97))
    return '(%s)%uU' % (s.c, v) if bits <= 32 else '%dUL' % v


def dump_stmt(s, expr):
    if s.flt:
        return 'out_d(%s);' % expr
    if s.kind == 'ptr':
        return 'out_l((long)%s);' % expr
    return 'out_l(%s);' % expr


PROMOTED = {'bool': 'int', 'char': 'int', 'schar': 'int', 'uchar': 'int', 'short': 'int', 'ushort': 'int', 'float': 'double',
            'eu': 'uint', 'es': 'int', 'el': 'ulong'}


def gen_dynamic(rng, p_bf=0.15, ncallees=3):
    """a program whose trace (out_l/out_d) shows every value that crosses a call by value, in both directions"""
    tg = TypeGen(rng, p_bf=p_bf)
    for _ in range(rng.randint(2, 5)):
        tg.record()
    recs = list(tg.records)
    lines = ['void out_l(long);', 'void out_d(double);', ENUMS.rstrip()]
    ctr = [0]

    def anytype(allow_rec=True):
        if allow_rec and rng.random() < 0.5:
            return rng.choice(recs)
        return Scalar(rng.choice(ALL_KINDS))

    funcs = []
    bodies = []
    main = []
    for ci in range(ncallees):
        np = rng.choice([0, 1, 2, 3, 3, 4, 5, 6, 8, 12])
        params = [anytype() for _ in range(np)]
        vararg = rng.random() < 0.4 and np >= 1       # gcc 12 (the reference) has no f(...) without a named parameter
        extras = [Scalar(rng.choice(ALL_KINDS)) for _ in range(rng.choice([0, 1, 2, 3, 5]))] if vararg else []
        ret = None if rng.random() < 0.15 else anytype()
        f = Func('callee%d' % ci, ret, params, vararg)
        funcs.append(f)
        b = ['%s' % f.proto(names=True), '{']
        for i, p in enumerate(params):
            for path, s, w in access_paths(p, 'p%d' % i):
                b.append('\t' + dump_stmt(s, path))
        if vararg:
            b.append('\t__builtin_va_list ap;')
            b.append('\t__builtin_va_start(ap%s);' % (', p%d' % (np - 1) if np else ''))
            for j, e in enumerate(extras):
                pk = PROMOTED.get(e.kind, e.kind)
                ps = Scalar(pk)
                b.append('\t{ %s v = __builtin_va_arg(ap, %s); %s }' % (ps.c if pk != 'ptr' else 'void *', ps.c, dump_stmt(ps, 'v')))
            b.append('\t__builtin_va_end(ap);')
        if ret is not None:
            b.append('\t%s;' % ret.decl('r'))
            for path, s, w in access_paths(ret, 'r'):
                ctr[0] += 1
                b.append('\t%s = %s;' % (path, value_for(s, w, ctr[0])))
            b.append('\treturn r;')
        b.append('}')
        bodies.append('\n'.join(b))
        # the call
        main.append('\t{')
        args = []
        for i, p in enumerate(params):
            main.append('\t\t%s;' % p.decl('a%d' % i))
            for path, s, w in access_paths(p, 'a%d' % i):
                ctr[0] += 1
                main.append('\t\t%s = %s;' % (path, value_for(s, w, ctr[0])))
            args.append('a%d' % i)
        for j, e in enumerate(extras):
            main.append('\t\t%s;' % e.decl('x%d' % j))
            ctr[0] += 1
            main.append('\t\tx%d = %s;' % (j, value_for(e, None, ctr[0])))
            args.append('x%d' % j)
        call = '%s(%s)' % (f.name, ', '.join(args))
        if ret is not None:
            main.append('\t\t%s = %s;' % (ret.decl('r'), call))
            for path, s, w in access_paths(ret, 'r'):
                main.append('\t\t' + dump_stmt(s, path))
        else:
            main.append('\t\t%s;' % call)
        main.append('\t}')
    alltypes = [t for f in funcs for t in ([f.ret] if f.ret else []) + f.params]
    for r_ in tagged_records(alltypes):
        lines.append(r_.define().rstrip())
    # callees are defined after main so that calls go through the prototypes only
    for f in funcs:
        lines.append(f.proto() + ';')
    lines.append('int main(void)\n{')
    lines += main
    lines.append('\treturn 0;\n}')
    lines += bodies
    return dict(src='\n'.join(lines) + '\n', records=tagged_records(alltypes), funcs=funcs)
