# C10 - the catalogue of violating templates: loading, host programs, instantiation, expected messages.
#
# The data lives in catalogue/c10/*.py (a tiny DSL: site(...), T(...), J(...)); this module
#   * loads it                                   load()            -> list of Entry
#   * associates entries with the census         associate(...)    -> exact / reworded / dangling / uncovered
#   * renders the Coq side                       write_coq(...)    -> coq/Gen/SitesCat.v
#   * generates valid host programs with holes   gen_host(rng)
#   * instantiates a template at a position      positions(tpl), instantiate(host, tpl, pos, rng)
#   * builds the expected-diagnostic regex       expected_regex(entry, tokstr)
#
#   python3 gen/c10_catalogue.py check [repo] [filter]    development aid: every template at every position
import difflib, glob, os, random, re, subprocess, sys

HERE = os.path.dirname(os.path.abspath(__file__))
VERIF = os.path.dirname(HERE)
CATDIR = os.path.join(VERIF, 'catalogue', 'c10')
sys.path.insert(0, HERE)
import c10_sites

JCLASSES = ('internal', 'io', 'forwarder', 'duplicate')


class Tpl:
    def __init__(self, kind, code, args=(), pre='', gcc=True, need=None, cg=False, skip=(), only=None, cli=(), note='',
                 gccpre=None, target=None, anyty=False, finding=None):
        self.kind = kind          # decl | fdecl | bdecl | stmt | expr | pp | tail | raw
        self.code = code
        self.args = [args] if isinstance(args, str) else list(args)   # substrings the diagnostic must contain too
        self.pre = pre            # valid file-scope prelude
        self.gcc = gcc            # True: gcc -std=c11 -pedantic-errors must reject too; str: waiver with reason
        self.need = need or {}    # hole attributes required, e.g. {'loop': False}
        self.cg = cg              # the diagnostic comes from code generation (evaluated contexts inside functions only)
        self.skip = dict((s, '') for s in skip) if not isinstance(skip, dict) else skip   # position -> reason
        self.only = only          # restrict to these positions
        self.cli = list(cli)      # extra command-line arguments (raw)
        self.note = note
        self.gccpre = gccpre
        self.target = target
        self.finding = finding    # key of a recorded finding: cproc is known to accept this template
        self.anyty = anyty        # expression of non-scalar/void type whose diagnostic comes late
        self.entry = None
        self.idx = 0

    @property
    def tid(self):
        e = self.entry
        return '%s:%s:%s:%s#%d' % (e.file, e.func, e.kind, e.text, self.idx)


class Entry:
    def __init__(self, file, func, kind, text, items, count=1):
        self.file, self.func, self.kind, self.text, self.count = file, func, kind, text, count
        self.templates = [x for x in items if isinstance(x, Tpl)]
        self.just = [x for x in items if isinstance(x, tuple)]
        for i, t in enumerate(self.templates):
            t.entry = self
            t.idx = i
        self.cur_text = text      # text of the associated census site (differs when the message was reworded)

    @property
    def key(self):
        return (self.file, self.func, self.kind, self.text)


def load(catdir=CATDIR):
    entries = []

    def site(file, func, kind, text, *items, n=1):
        entries.append(Entry(file, func, kind, text, items, n))

    def T(kind, code, args=(), **kw):
        return Tpl(kind, code, args, **kw)

    def more(file, func, kind, text, *items):
        """further templates for a site that an earlier catalogue file declared (one per clause of its guard)"""
        for e in entries:
            if e.key == (file, func, kind, text):
                for t in items:
                    t.entry = e
                    t.idx = len(e.templates)
                    e.templates.append(t)
                return
        raise KeyError('more(): no catalogue entry %r' % ((file, func, kind, text),))

    def J(cls, reason):
        assert cls in JCLASSES, cls
        return (cls, reason)
    env = dict(site=site, T=T, J=J, more=more)
    for p in sorted(glob.glob(os.path.join(catdir, '*.py'))):
        exec(compile(open(p).read(), p, 'exec'), dict(env))
    return entries


# ------------------------------------------------------------------ association with the census
def associate(entries, sites):
    """sites: list of (file, func, kind, text, count).  Returns dict(exact=[(e,s)], reworded=[(e,s)], dangling=[e],
    uncovered=[s], miscount=[(e,s)]).  A catalogue entry whose exact key is gone is re-associated with the most
    similar unclaimed site of the same file/function/kind (a reworded diagnostic); the K run then demands that the
    entry's templates produce the site's *current* text, so a wrong re-association cannot pass silently."""
    bykey = {s[:4]: s for s in sites}
    claimed = set()
    res = dict(exact=[], reworded=[], dangling=[], uncovered=[], miscount=[])
    pending = []
    for e in entries:
        s = bykey.get(e.key)
        if s is not None:
            claimed.add(s[:4])
            res['exact'].append((e, s))
            e.cur_text = s[3]
            if s[4] != e.count:
                res['miscount'].append((e, s))
        else:
            pending.append(e)
    for e in pending:
        cands = [s for s in sites if s[:3] == (e.file, e.func, e.kind) and s[:4] not in claimed]
        rivals = [x for x in pending if (x.file, x.func, x.kind) == (e.file, e.func, e.kind)]
        best, br = None, 0.0
        for s in cands:
            r = difflib.SequenceMatcher(None, e.text, s[3]).ratio()
            if r > br:
                best, br = s, r
        if len(cands) == 1 and len(rivals) == 1:
            br = 1.0          # one message of this function and kind disappeared, one appeared: the same check reworded
        if best is not None and br >= 0.5:
            claimed.add(best[:4])
            e.cur_text = best[3]
            res['reworded'].append((e, best))
            if best[4] != e.count:
                res['miscount'].append((e, best))
        else:
            res['dangling'].append(e)
    res['uncovered'] = [s for s in sites if s[:4] not in claimed]
    return res


def write_coq(entries, path):
    """the catalogue as Coq data: (site key with the text it is currently associated with, #templates, justified?)"""
    cs = c10_sites.coqstr
    lines = ['(* rendered from catalogue/c10/*.py by gen/c10_catalogue.py on every run.  DO NOT EDIT. *)',
             'From Coq Require Import String List.', 'From Cproc Require Import Spec.Constraints.',
             'Import ListNotations.', 'Open Scope string_scope.', '',
             'Definition catalogue : list cat_entry := [']
    body = []
    for e in sorted(entries, key=lambda e: e.key):
        body.append('  mk_cat (mk_site %s %s K%s %s %d) %d %s' % (
            cs(e.file), cs(e.func), e.kind, cs(e.cur_text), e.count, len(e.templates),
            'true' if e.just else 'false'))
    lines.append(';\n'.join(body))
    lines.append('].')
    text = '\n'.join(lines) + '\n'
    old = open(path).read() if os.path.exists(path) else None
    if old != text:
        with open(path, 'w') as o:
            o.write(text)
    return text


# ------------------------------------------------------------------ expected diagnostics
def read_tokstr(snap):
    """token spellings from token.c (tokstr[]) and the token classes of tokendesc()"""
    t = open(os.path.join(snap, 'token.c'), errors='replace').read()
    d = {m.group(1): m.group(2).encode().decode('unicode_escape') for m in re.finditer(r'\[(T\w+)\]\s*=\s*"((?:\\.|[^"\\])*)"', t)}
    for m in re.finditer(r'case (T\w+):\s*class = "([^"]*)"', t):
        d[m.group(1)] = '@' + m.group(2)
    return d


FMT = re.compile(r'%(?:%|[-+ #0]*(?:\d+|\*)?(?:\.(?:\d+|\*))?(?:hh|h|ll|l|z|j|t|L)?[diouxXeEfgGcspn])')


def fmt_regex(fmt):
    """regex matching any instantiation of a printf format (given in C source spelling)"""
    try:
        s = fmt.encode('latin1', 'replace').decode('unicode_escape')
    except Exception:
        s = fmt
    out, pos = [], 0
    for m in FMT.finditer(s):
        out.append(re.escape(s[pos:m.start()]))
        out.append('%' if m.group() == '%%' else '.*?')
        pos = m.end()
    out.append(re.escape(s[pos:]))
    return ''.join(out)


def expected_regex(e, tokstr):
    """what stderr must contain for a template of entry e (using the text the entry is currently associated with)"""
    text = e.cur_text
    if e.kind == 'error':
        return r': error: ' + fmt_regex(text) + r'$'
    if e.kind == 'fatal':
        core = fmt_regex(text)
        if text.endswith(':'):
            core += ' .+'
        return r'^cproc-qbe: ' + core + r'$'
    if e.kind in ('expect', 'tokencheck'):
        tk, _, msg = text.partition(' ')
        sp = tokstr.get(tk)
        if sp is None:
            want = r'.*?'
        elif sp.startswith('@'):
            want = re.escape(sp[1:])
        else:
            want = re.escape("'%s'" % sp)
        if msg.startswith('<expr'):
            m = r'.*?'
        elif msg.startswith('<'):
            m = '(?:' + '|'.join(re.escape(x) for x in msg[1:-1].split('|')) + ')'
        else:
            m = fmt_regex(msg)
        return r': error: expected ' + want + ' ' + m + r', saw .*$'
    return None


DIAG = re.compile(r'^(?:[^\n]*:\d+:\d+: error: |cproc-qbe: )')


def judge(e, tpl, rc, err, tokstr):
    """-> (verdict, detail); verdict in ok | accepted | crash | nodiag | othermsg"""
    if rc == 0:
        return 'accepted', 'status 0'
    if rc != 1:
        return 'crash', 'status %r: %s' % (rc, err[:200])
    line = err.lstrip('\n').split('\n')[0] if err.strip() else ''      # keep trailing blanks: an empty %s leaves one
    if not DIAG.match(line):
        return 'nodiag', 'no diagnostic in the standard form: %r' % err[:200]
    rx = expected_regex(e, tokstr)
    if rx is None or not re.search(rx, line, re.M):
        return 'othermsg', 'diagnostic %r does not match /%s/' % (line, rx)
    for a in tpl.args:
        if a not in line:
            return 'othermsg', 'diagnostic %r lacks %r' % (line, a)
    return 'ok', line


# ------------------------------------------------------------------ host programs
class Host:
    def __init__(self, text, holes):
        self.text = text          # with markers /*@n*/
        self.holes = holes        # list of dict(id, scope 'F'|'B', loop, switch, depth)

    def fill(self, hid, repl, pre=''):
        def sub(m):
            return repl if int(m.group(1)) == hid else ''
        t = re.sub(r'/\*@(\d+)\*/', sub, self.text)
        return t.replace('/*@PRE*/', pre)

    def plain(self, pre=''):
        return self.fill(-1, '', pre)

    def cut(self, hid, tail, pre=''):
        m = re.search(r'/\*@%d\*/' % hid, self.text)
        t = self.text[:m.start()]
        t = re.sub(r'/\*@(\d+)\*/', '', t).replace('/*@PRE*/', pre)
        return t + tail


def gen_host(rng, size=2):
    """a small valid translation unit; every identifier starts with h_; functions return int;
    h_v is an int object visible everywhere, h_sink a variadic function"""
    holes = []
    out = ['/*@PRE*/']

    def hole(scope, loop=False, switch=False, depth=0):
        hid = len(holes)
        holes.append(dict(id=hid, scope=scope, loop=loop, switch=switch, depth=depth))
        return '/*@%d*/' % hid
    cnt = [0]

    def fresh(p):
        cnt[0] += 1
        return 'h_%s%d' % (p, cnt[0])
    out.append('int h_v;')
    out.append('int h_sink(int, ...);')
    types = ['int', 'unsigned', 'long', 'char', 'short', 'unsigned long long', 'double', 'float', '_Bool']
    objs = []

    def filedecl():
        r = rng.random()
        if r < 0.2:
            n = fresh('t')
            out.append('typedef %s %s;' % (rng.choice(types), n))
            types.append(n)
        elif r < 0.4:
            n = fresh('s')
            out.append('struct %s { %s a; %s b : %d; char c[%d]; };' % (n, rng.choice(types[:6]), rng.choice(['int', 'unsigned']), rng.randint(1, 31), rng.randint(1, 9)))
        elif r < 0.5:
            n = fresh('e')
            out.append('enum %s { %s_A, %s_B = %d };' % (n, n, n, rng.randint(-5, 500)))
        elif r < 0.8:
            n = fresh('g')
            t = rng.choice(types[:6])
            out.append('%s%s %s%s;' % (rng.choice(['', 'static ', 'extern ']), t, n, rng.choice(['', ' = %d' % rng.randint(0, 99)]) if rng.random() < 0.5 else ''))
            objs.append(n)
        else:
            n = fresh('a')
            out.append('static int %s[%d] = {%s};' % (n, rng.randint(2, 6), ', '.join(str(rng.randint(0, 9)) for _ in range(2))))

    def expr():
        r = rng.random()
        a = rng.choice(['h_v', 'h_p', 'h_l', str(rng.randint(0, 99))])
        b = rng.choice(['h_v', 'h_p', 'h_l', str(rng.randint(1, 99))])
        if r < 0.5:
            return '%s %s %s' % (a, rng.choice(['+', '-', '*', '&', '|', '^', '<', '==', '<<']), b)
        if r < 0.7:
            return 'h_sink(%s, %s)' % (a, b)
        return a

    def stmts(ind, depth, loop, switch):
        n = rng.randint(1, 3)
        for _ in range(n):
            r = rng.random()
            if rng.random() < 0.6:
                out.append(ind + hole('B', loop, switch, depth))
            if depth >= 3 or r < 0.35:
                out.append(ind + '%s = %s;' % (rng.choice(['h_v', 'h_l']), expr()))
            elif r < 0.5:
                out.append(ind + 'if (%s) {' % expr())
                stmts(ind + '\t', depth + 1, loop, switch)
                if rng.random() < 0.5:
                    out.append(ind + '} else {')
                    stmts(ind + '\t', depth + 1, loop, switch)
                out.append(ind + '}')
            elif r < 0.62:
                out.append(ind + 'while (h_l < %d) {' % rng.randint(1, 9))
                stmts(ind + '\t', depth + 1, True, switch)
                out.append(ind + '\t++h_l;')
                out.append(ind + '}')
            elif r < 0.72:
                out.append(ind + 'for (int h_i = 0; h_i < %d; ++h_i) {' % rng.randint(1, 9))
                stmts(ind + '\t', depth + 1, True, switch)
                out.append(ind + '}')
            elif r < 0.8:
                out.append(ind + 'do {')
                stmts(ind + '\t', depth + 1, True, switch)
                out.append(ind + '} while (--h_l > 0);')
            elif r < 0.9:
                out.append(ind + 'switch (%s) {' % expr())
                out.append(ind + 'case %d:' % rng.randint(0, 5))
                out.append(ind + '\t;')
                stmts(ind + '\t', depth + 1, loop, True)
                out.append(ind + '\tbreak;')
                out.append(ind + 'default:')
                out.append(ind + '\tbreak;')
                out.append(ind + '}')
            else:
                out.append(ind + '{')
                out.append(ind + '\t%s %s = %d;' % (rng.choice(types[:6]), fresh('b'), rng.randint(0, 9)))
                stmts(ind + '\t', depth + 1, loop, switch)
                out.append(ind + '}')
        if rng.random() < 0.6:
            out.append(ind + hole('B', loop, switch, depth))

    for _ in range(rng.randint(1, 2 + size)):
        filedecl()
    for k in range(rng.randint(1, size)):
        out.append(hole('F'))
        fn = fresh('f')
        out.append('%sint %s(int h_p%s)' % (rng.choice(['', 'static ']), fn, rng.choice(['', ', char *h_q', ', double h_d'])))
        out.append('{')
        out.append('\tint h_l = %d;' % rng.randint(0, 9))
        out.append('\t' + hole('B', False, False, 0))
        stmts('\t', 1, False, False)
        out.append('\treturn h_l;')
        out.append('}')
        for _ in range(rng.randint(0, 2)):
            filedecl()
    out.append(hole('F'))
    return Host('\n'.join(out) + '\n', holes)


# ------------------------------------------------------------------ positions
MACRO_HEAD1 = '#define H_TPL %s\n'
MACRO_HEAD2 = '#define H_ID(...) __VA_ARGS__\n'

EXPR_CTX = {           # name -> (format with %s for the expression, evaluated?, file scope?)
    'XS': ('%s;', True, False),
    'XV': ('(void)(%s);', True, False),
    'XA': ('h_sink(1, (%s), 2);', True, False),
    'XI': ('if (%s) ; else ;', True, False),
    'XW': ('while (%s) break;', True, False),
    'XR': ('return (%s);', True, False),
    'XL': ('int h_x = (%s);', True, False),
    'XQ': ('h_v = (%s) ? 1 : 2;', True, False),
    'XB': ('h_v = 1 + (%s);', True, False),
    'XSW': ('switch (%s) { default: break; }', True, False),
    'XZ': ('h_v = sizeof(%s);', False, False),
    'XF': ('int h_fs = (%s);', False, True),
    'XFZ': ('int h_fs = sizeof(%s);', False, True),
}
ANYTY_CTX = ('XS', 'XV')


def macro_ok(code):
    if '\n' in code or '#' in code:
        return False
    d = 0
    for c in re.sub(r'"(?:\\.|[^"\\])*"|\'(?:\\.|[^\'\\])*\'', '', code):
        if c == '(':
            d += 1
        elif c == ')':
            d -= 1
            if d < 0:
                return False
    return d == 0


def positions(tpl):
    k = tpl.kind
    ps = []
    if k in ('decl', 'fdecl'):
        ps += ['F', 'F.m1', 'F.m2']
    if k in ('decl', 'bdecl', 'stmt'):
        ps += ['B0', 'B1', 'B.m1', 'B.m2']
    if k == 'stmt':
        ps += ['SUBIF'] + ([] if tpl.need.get('loop') is False else ['SUBWH'])
    if k == 'expr':
        names = list(EXPR_CTX)
        if tpl.anyty:
            names = list(ANYTY_CTX)
        for n in names:
            f, ev, fs = EXPR_CTX[n]
            if tpl.cg and not ev:
                continue
            ps.append(n)
        ps += ['XS.m1', 'XS.m2', 'XB.m1' if not tpl.anyty else 'XV.m1', 'XB.m2' if not tpl.anyty else 'XV.m2']
        if not tpl.cg:
            ps += ['XF.m1']
    if k == 'pp':
        ps += ['P0', 'PF', 'PB', 'PX']
    if k == 'tail':
        ps += ['TF', 'TB']
    if k == 'raw':
        ps += ['RAW']
    if not macro_ok(tpl.code):
        ps = [p for p in ps if '.m' not in p]
    if tpl.only is not None:
        ps = [p for p in ps if p in tpl.only]
    if '*' in tpl.skip:
        return []
    ps = [p for p in ps if p not in tpl.skip]
    return ps


def pick_hole(host, rng, scope, need, nested=None):
    hs = [h for h in host.holes if h['scope'] == scope and all(h.get(k) == v for k, v in need.items())]
    if nested is True:
        hs2 = [h for h in hs if h['depth'] >= 1]
        hs = hs2 or hs
    elif nested is False:
        hs2 = [h for h in hs if h['depth'] == 0]
        hs = hs2 or hs
    return rng.choice(hs) if hs else None


def instantiate(host, tpl, pos, rng):
    """-> (source text, description) or None when the host has no suitable hole"""
    base, _, mm = pos.partition('.')
    code = tpl.code
    pre = tpl.pre + ('\n' if tpl.pre and not tpl.pre.endswith('\n') else '')
    use = code
    if mm == 'm1':
        pre = MACRO_HEAD1 % code + pre
        use = 'H_TPL'
    elif mm == 'm2':
        pre = MACRO_HEAD2 + pre
        use = 'H_ID(%s)' % code
    if base == 'RAW':
        return code, 'raw'
    if base == 'F':
        h = pick_hole(host, rng, 'F', {})
        return (host.fill(h['id'], use + '\n', pre), 'file scope') if h else None
    if base in ('B', 'B0', 'B1', 'SUBIF', 'SUBWH'):
        h = pick_hole(host, rng, 'B', tpl.need, nested={'B0': False, 'B1': True}.get(base))
        if not h:
            return None
        if base == 'SUBIF':
            use = 'if (h_v) %s else ;' % use
        elif base == 'SUBWH':
            if tpl.need.get('loop') is False:
                return None
            use = 'while (h_v--) %s' % use
        return host.fill(h['id'], use + '\n', pre), 'block scope depth %d loop=%s switch=%s' % (h['depth'], h['loop'], h['switch'])
    if base in EXPR_CTX:
        f, ev, fs = EXPR_CTX[base]
        h = pick_hole(host, rng, 'F' if fs else 'B', {} if fs else tpl.need)
        if not h:
            return None
        return host.fill(h['id'], f % use + '\n', pre), 'expression context %s' % f
    if base == 'P0':
        return code.rstrip('\n') + '\n' + host.plain(pre), 'first line'
    if base == 'PF':
        h = pick_hole(host, rng, 'F', {})
        return host.fill(h['id'], '\n' + code.rstrip('\n') + '\n', pre), 'directive at file scope'
    if base == 'PB':
        h = pick_hole(host, rng, 'B', {})
        return (host.fill(h['id'], '\n' + code.rstrip('\n') + '\n', pre), 'directive inside a function') if h else None
    if base == 'PX':
        h = pick_hole(host, rng, 'B', {})
        return (host.fill(h['id'], 'h_v = 1 +\n' + code.rstrip('\n') + '\n2;\n', pre), 'directive inside an expression') if h else None
    if base == 'TF':
        h = pick_hole(host, rng, 'F', {})
        return host.cut(h['id'], code, pre), 'tail at file scope'
    if base == 'TB':
        h = pick_hole(host, rng, 'B', tpl.need)
        return (host.cut(h['id'], code, pre), 'tail inside a function') if h else None
    raise ValueError(pos)


def gcc_program(tpl):
    """the template in the simplest host, for the second opinion"""
    pre = (tpl.gccpre if tpl.gccpre is not None else tpl.pre)
    pre = 'int h_v; int h_sink(int, ...);\n' + pre + '\n'
    k = tpl.kind
    if k in ('decl', 'fdecl'):
        return pre + tpl.code + '\n'
    if k in ('bdecl', 'stmt'):
        if tpl.need.get('loop') or tpl.need.get('switch'):
            return pre + 'int h_f(int h_p) { int h_l = 0; while (h_p) switch (h_p) { default: { %s } } return h_l; }\n' % tpl.code
        return pre + 'int h_f(int h_p) { int h_l = 0; { %s } return h_l; }\n' % tpl.code
    if k == 'expr':
        return pre + 'int h_f(int h_p) { int h_l = 0; %s; return h_l; }\n' % tpl.code
    if k == 'pp':
        return pre + tpl.code.rstrip('\n') + '\nint h_z;\n'
    if k == 'tail':
        return pre + tpl.code
    return tpl.code


def run_gcc(src):
    if isinstance(src, str):
        src = src.encode('utf-8', 'surrogateescape')
    p = subprocess.run(['gcc', '-std=c11', '-pedantic-errors', '-fsyntax-only', '-x', 'c', '-'], input=src,
                       stdout=subprocess.PIPE, stderr=subprocess.PIPE, timeout=30)
    return p.returncode, p.stderr.decode('utf-8', 'replace')


# ------------------------------------------------------------------ development aid
def _run(binary, src, cli=(), target='x86_64-sysv'):
    if isinstance(src, str):
        src = src.encode('utf-8', 'surrogateescape')
    try:
        p = subprocess.run(['timeout', '-s', 'KILL', '10', binary, '-t', target] + list(cli), input=src,
                           stdout=subprocess.PIPE, stderr=subprocess.PIPE)
        return p.returncode, p.stderr.decode('utf-8', 'replace')[:4000]
    except Exception as ex:
        return -1, str(ex)


def main():
    repo = sys.argv[2] if len(sys.argv) > 2 else '/repo'
    flt = sys.argv[3] if len(sys.argv) > 3 else ''
    entries = load()
    ss = c10_sites.sites(repo)
    a = associate(entries, ss)
    print('sites %d, entries %d: exact %d reworded %d dangling %d uncovered %d miscount %d' % (
        len(ss), len(entries), len(a['exact']), len(a['reworded']), len(a['dangling']), len(a['uncovered']), len(a['miscount'])))
    for e in a['dangling']:
        print('DANGLING', e.key)
    for e, s in a['miscount']:
        print('MISCOUNT', e.key, e.count, s[4])
    for e, s in a['reworded']:
        print('REWORDED', e.key, '->', s[3])
    if sys.argv[1] == 'todo':
        for s in a['uncovered']:
            print('UNCOVERED', s)
        return
    for e in entries:
        if not e.templates and not e.just:
            print('EMPTY', e.key)
    tokstr = read_tokstr(repo)
    binary = os.path.join(repo, 'cproc-qbe')
    rng = random.Random(7)
    hosts = [gen_host(rng) for _ in range(4)]
    for h in hosts:
        rc, err = _run(binary, h.plain())
        if rc != 0:
            print('HOST DOES NOT COMPILE', rc, err)
            print(h.plain())
            return
    nrun = nbad = 0
    for e in entries:
        for t in e.templates:
            if flt and flt not in t.tid:
                continue
            if t.pre:
                rc, err = _run(binary, hosts[0].plain(t.pre + '\n'))
                if rc != 0:
                    print('PRE BAD  ', t.tid, err.strip())
                    nbad += 1
            if t.gcc is True:
                rc, err = run_gcc(gcc_program(t))
                if rc == 0:
                    print('GCC ACCEPTS', t.tid)
                    print('    ' + gcc_program(t).replace('\n', '\n    '))
                    nbad += 1
            elif not isinstance(t.gcc, str) or len(t.gcc) < 8:
                print('WAIVER WITHOUT REASON', t.tid)
            ps = positions(t)
            if not ps and '*' not in t.skip:
                print('NO POSITION', t.tid)
            bad = {}
            for p in ps:
                host = rng.choice(hosts)
                r = None
                for hh in [host] + hosts:
                    r = instantiate(hh, t, p, rng)
                    if r:
                        break
                if not r:
                    bad.setdefault(('nohole', ''), []).append(p)
                    continue
                src, desc = r
                rc, err = _run(binary, src, t.cli, t.target or 'x86_64-sysv')
                v, d = judge(e, t, rc, err, tokstr)
                nrun += 1
                if v != 'ok':
                    m = re.search(r"""diagnostic ['"](?:[^:'"]*:\d+:\d+: )?(.*?)['"] does not match""", d)
                    bad.setdefault((v, m.group(1) if m else d), []).append(p)
                    if os.environ.get('C10_SHOW'):
                        print(src)
            if bad:
                nbad += 1
                print('%s  [%s]%s' % (t.tid, t.code, '  FINDING ' + t.finding if t.finding else ''))
                for (v, d), pl in bad.items():
                    print('    %-8s %s: %s' % (v.upper(), ' '.join(pl), d))
    print('%d runs, %d problems' % (nrun, nbad))


if __name__ == '__main__':
    main()
