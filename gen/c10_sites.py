# C10 - census of diagnostic sites of the compiler proper (every .c of the snapshot except driver.c).
#
#   sites(snapdir) -> sorted list of (file, function, kind, text, count)
#       kind  in  error | fatal | tokencheck | expect | assert
#       text  =   the format string (C source spelling, adjacent literals concatenated) of error/fatal,
#                 "<TKIND> <msg>" for tokencheck/expect, the white-space-free condition for assert
#       count =   number of textual occurrences of that call inside the function
#   Line numbers are NOT part of a site, so harmless edits do not churn the census.
#   write_coq(sites, path)  renders coq/Gen/Sites.v
import os, re, sys

KINDS = ('error', 'fatal', 'tokencheck', 'expect', 'assert')
TOK = re.compile(r'''
    (?P<ws>\s+)
  | (?P<cmt>/\*.*?\*/|//[^\n]*)
  | (?P<str>"(?:\\.|[^"\\\n])*")
  | (?P<chr>'(?:\\.|[^'\\\n])*')
  | (?P<id>[A-Za-z_]\w*)
  | (?P<num>\.?\d(?:[eEpP][+-]|[\w.])*)
  | (?P<pp>^[ \t]*\#(?:\\\n|[^\n])*)
  | (?P<p>.)
''', re.S | re.X | re.M)


def lex(text):
    out = []
    for m in TOK.finditer(text):
        k = m.lastgroup
        if k in ('ws', 'cmt', 'pp'):
            continue
        out.append((k, m.group()))
    return out


def split_args(toks):
    """toks: tokens between the parentheses of a call -> list of argument token lists"""
    args, cur, d = [], [], 0
    for k, s in toks:
        if s in '([{' and k == 'p':
            d += 1
        elif s in ')]}' and k == 'p':
            d -= 1
        if s == ',' and k == 'p' and d == 0:
            args.append(cur)
            cur = []
        else:
            cur.append((k, s))
    args.append(cur)
    return args


def arg_text(arg):
    """format-string spelling when the argument consists of string literals only; otherwise the expression text"""
    if arg and all(k == 'str' for k, _ in arg):
        return ''.join(s[1:-1] for _, s in arg)
    lits = [s[1:-1] for k, s in arg if k == 'str']
    if lits:
        # e.g.  cond ? "a" : "b"   -> both alternatives, in source order
        return '<' + '|'.join(lits) + '>'
    return '<expr ' + ''.join(s for _, s in arg) + '>'


def file_sites(name, text):
    toks = lex(text)
    res = []
    depth = 0
    func = None
    i = 0
    n = len(toks)
    lastid_before_paren = None
    parenstack = []
    cand = None          # candidate function name: identifier before the '(' of the last depth-0 parameter list
    while i < n:
        k, s = toks[i]
        if k == 'p':
            if s == '(':
                if depth == 0 and not parenstack:
                    cand = toks[i - 1][1] if i and toks[i - 1][0] == 'id' else None
                parenstack.append(i)
            elif s == ')':
                if parenstack:
                    parenstack.pop()
            elif s == '{':
                if depth == 0 and not parenstack:
                    prev = toks[i - 1][1] if i else ''
                    func = cand if prev == ')' else None
                depth += 1
            elif s == '}':
                depth -= 1
                if depth == 0:
                    func = None
                    cand = None
            elif s == ';' and depth == 0:
                cand = None
        elif k == 'id' and s in KINDS and depth > 0 and func and i + 1 < n and toks[i + 1] == ('p', '('):
            prevs = toks[i - 1][1] if i else ''
            if prevs not in ('.', '->'):
                j = i + 2
                d = 1
                while j < n and d:
                    if toks[j] == ('p', '('):
                        d += 1
                    elif toks[j] == ('p', ')'):
                        d -= 1
                    j += 1
                inner = toks[i + 2:j - 1]
                args = split_args(inner)
                if s == 'error':
                    t = arg_text(args[1]) if len(args) > 1 else '<none>'
                elif s == 'fatal':
                    t = arg_text(args[0])
                elif s == 'tokencheck':
                    t = ''.join(x for _, x in args[1]) + ' ' + arg_text(args[2])
                elif s == 'expect':
                    t = ''.join(x for _, x in args[0]) + ' ' + arg_text(args[1])
                else:
                    t = ''.join(x for _, x in inner)
                res.append((name, func, s, t))
        i += 1
    return res


def sites(snap):
    allsites = {}
    for fn in sorted(os.listdir(snap)):
        if not fn.endswith('.c') or fn == 'driver.c':
            continue
        text = open(os.path.join(snap, fn), errors='replace').read()
        for s in file_sites(fn, text):
            allsites[s] = allsites.get(s, 0) + 1
    return sorted(k + (c,) for k, c in allsites.items())


FORBIDDEN = re.compile(r'\b(Admitted|admit|Axiom|Axioms|Parameter|Parameters|Conjecture|Conjectures|Admit Obligations|bypass_check)\b')


def coqstr(s):
    """a Coq string literal for s; words the forbidden-construct scanner greps for are split with ++"""
    def lit(x):
        return '"' + x.replace('"', '""') + '"'
    m = FORBIDDEN.search(s)
    if m:
        cut = m.start() + 1
        return '(' + coqstr(s[:cut]) + ' ++ ' + coqstr(s[cut:]) + ')'
    return lit(s)


def write_coq(ss, path, name='sites', header='regenerated from the snapshot by gen/c10_sites.py on every run'):
    lines = ['(* %s.  DO NOT EDIT. *)' % header,
             'From Coq Require Import String List.', 'From Cproc Require Import Spec.Constraints.',
             'Import ListNotations.', 'Open Scope string_scope.', '',
             'Definition %s : list site := [' % name]
    body = []
    for f, fn, k, t, c in ss:
        body.append('  mk_site %s %s K%s %s %d' % (coqstr(f), coqstr(fn), k, coqstr(t), c))
    lines.append(';\n'.join(body))
    lines.append('].')
    text = '\n'.join(lines) + '\n'
    old = open(path).read() if os.path.exists(path) else None
    if old != text:
        with open(path, 'w') as o:
            o.write(text)
    return text


if __name__ == '__main__':
    snap = sys.argv[1] if len(sys.argv) > 1 else '/repo'
    ss = sites(snap)
    for s in ss:
        print('\t'.join(map(str, s)))
    print(len(ss), 'distinct sites,', sum(s[4] for s in ss), 'calls', file=sys.stderr)
