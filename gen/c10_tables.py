# C10, G: the tables of decl.c that the modelled checkers use, re-read from the SNAPSHOT on every run:
#   enum typespec / enum storageclass values, the `switch ((int)ts)` of declspecs (accepted bit sets -> type),
#   the `switch (*sc)` of storageclass() (current set -> allowed mask), the keyword -> bit assignments of both.
# Rendered as coq/Gen/ChecksTables.v; Model/Checks.v computes with them, Proofs/ChecksProofs.v re-proves
# typespec_table_spec / storageclass_table_spec against whatever the source says now.
import os, re, sys


def _strip_comments(s):
    s = re.sub(r'/\*.*?\*/', ' ', s, flags=re.S)
    return re.sub(r'//[^\n]*', ' ', s)


def enum_values(src, name):
    m = re.search(r'enum\s+' + name + r'\s*\{(.*?)\}', src, re.S)
    vals, nxt = {}, 0
    for item in m.group(1).split(','):
        item = item.strip()
        if not item:
            continue
        if '=' in item:
            k, e = [x.strip() for x in item.split('=', 1)]
            e = re.sub(r'[A-Za-z_]\w*', lambda mm: str(vals[mm.group(0)]), e)
            v = eval(e, {'__builtins__': {}})
        else:
            k, v = item, nxt
        vals[k] = v
        nxt = v + 1
    return vals


def cexpr(e, env):
    e = re.sub(r'[A-Za-z_]\w*', lambda mm: str(env[mm.group(0)]), e.strip())
    return int(eval(e, {'__builtins__': {}})) & 0xffffffff


def func_body(src, name):
    m = re.search(r'^' + name + r'\s*\([^)]*\)\s*\{', src, re.M)
    i = m.end()
    depth = 1
    while depth:
        c = src[i]
        depth += (c == '{') - (c == '}')
        i += 1
    return src[m.end():i]


def switch_cases(body, head_rx):
    """-> list of ([case label expressions], statement text up to break) for the first switch matching head_rx;
    a `default` label is the expression 'default'"""
    m = re.search(head_rx, body)
    i = body.index('{', m.end()) + 1
    depth, j = 1, i
    while depth:
        depth += (body[j] == '{') - (body[j] == '}')
        j += 1
    text = body[i:j - 1]
    groups, labels = [], []
    pos = 0
    rx = re.compile(r'\b(?:case\s+([^:]+?)|(default))\s*:')
    ms = list(rx.finditer(text))
    for k, mm in enumerate(ms):
        labels.append(mm.group(1).strip() if mm.group(1) else 'default')
        end = ms[k + 1].start() if k + 1 < len(ms) else len(text)
        stmt = text[mm.end():end].strip()
        if stmt:
            groups.append((labels, stmt))
            labels = []
    return groups


def tables(snap):
    dc = _strip_comments(open(os.path.join(snap, 'decl.c'), errors='replace').read())
    spec = enum_values(dc, 'typespec')
    scv = enum_values(dc, 'storageclass')
    ds = func_body(dc, 'declspecs')
    rows = []
    for labels, stmt in switch_cases(ds, r'switch\s*\(\s*\(int\)\s*ts\s*\)'):
        m = re.match(r't\s*=\s*&(\w+)\s*;\s*break\s*;', stmt)
        if m:
            name = m.group(1)
        elif re.match(r'break\s*;', stmt):
            name = ''
        elif 'error(' in stmt:
            name = None
        else:
            raise ValueError('unrecognised statement in switch ((int)ts): %r' % stmt)
        for l in labels:
            if l == 'default':
                if name is not None:
                    raise ValueError('default of switch ((int)ts) does not report an error')
                continue
            if name is None:
                continue
            rows.append((cexpr(l, spec), name))
    # keyword -> what declspecs does with it, for the keywords that only set bits / count types
    kw = {}
    for labels, stmt in switch_cases(ds, r'switch\s*\(\s*op\s*\)'):
        for l in labels:
            kw[l] = stmt
    sc = func_body(dc, 'storageclass')
    newbits = {}
    for labels, stmt in switch_cases(sc, r'switch\s*\(\s*tok\.kind\s*\)'):
        m = re.match(r'new\s*=\s*(\w+)\s*;', stmt)
        for l in labels:
            if m and l != 'default':
                newbits[l] = scv[m.group(1)]
    allowed = []
    for labels, stmt in switch_cases(sc, r'switch\s*\(\s*\*sc\s*\)'):
        m = re.match(r'allowed\s*=\s*([^;]+);', stmt)
        v = cexpr(m.group(1), scv)
        for l in labels:
            allowed.append((None if l == 'default' else cexpr(l, scv), v))
    return dict(spec=spec, sc=scv, rows=rows, kwstmts=kw, newbits=newbits, allowed=allowed)


def render(t):
    L = ['(* regenerated from decl.c of the snapshot by gen/c10_tables.py on every run.  DO NOT EDIT. *)',
         'From Coq Require Import String List NArith.', 'Import ListNotations.', 'Open Scope string_scope.', 'Open Scope N_scope.', '']
    L.append('(* enum typespec *)')
    L.append('Definition spec_bits : list (string * N) := [%s].' % '; '.join('("%s", %d)' % kv for kv in sorted(t['spec'].items(), key=lambda kv: kv[1])))
    L.append('(* switch ((int)ts) of declspecs: accepted value of ts -> type object assigned ("" = keep t) *)')
    L.append('Definition typespec_switch : list (N * string) := [\n  %s].' % ';\n  '.join('(%d, "%s")' % r for r in t['rows']))
    L.append('(* enum storageclass *)')
    L.append('Definition sc_bits : list (string * N) := [%s].' % '; '.join('("%s", %d)' % kv for kv in sorted(t['sc'].items(), key=lambda kv: kv[1])))
    L.append('(* storageclass(): token -> new *)')
    L.append('Definition sc_new : list (string * N) := [%s].' % '; '.join('("%s", %d)' % kv for kv in sorted(t['newbits'].items())))
    L.append('(* storageclass(): switch ( *sc ): value -> allowed mask (32-bit), None = default *)')
    L.append('Definition sc_allowed : list (option N * N) := [%s].' % '; '.join(
        '(%s, %d)' % ('None' if k is None else 'Some %d' % k, v) for k, v in t['allowed']))
    return '\n'.join(L) + '\n'


def write_coq(t, path):
    text = render(t)
    old = open(path).read() if os.path.exists(path) else None
    if old != text:
        with open(path, 'w') as o:
            o.write(text)
    return text


if __name__ == '__main__':
    t = tables(sys.argv[1] if len(sys.argv) > 1 else '/repo')
    print(render(t))
    for k in sorted(t['kwstmts']):
        print('//', k, '->', ' '.join(t['kwstmts'][k].split())[:100])


def guards(snap, files=('decl.c', 'pp.c')):
    """{(file, message): sorted list of normalised guard conditions} for every `if (COND) error(loc, "MSG"...)`"""
    res = {}
    for fn in files:
        src = _strip_comments(open(os.path.join(snap, fn), errors='replace').read())
        for m in re.finditer(r'if\s*\(([^\n]*)\)\s*\n?\s*error\(\s*[^,]+,\s*"((?:\\.|[^"\\])*)"', src):
            cond = ' '.join(m.group(1).split())
            res.setdefault((fn, m.group(2)), []).append(cond)
    return {k: sorted(v) for k, v in res.items()}


def norm_stmt(s):
    return ' '.join(s.split())
