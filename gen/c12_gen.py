# C12 generators: macro sets + invocation text (free token sequences), redefinition pairs, malformed inputs,
# and small C programs whose macros expand to valid C.  Every random choice comes from the rng passed in.

OBJ = ['A', 'B', 'C', 'D', 'E0', 'N1']
FUN = ['f', 'g', 'h', 'k', 'id', 'S2']
PLAIN = ['x', 'y', 'z', 'int', 'w1']
PUNCT = ['+', '-', '*', ';', '=', '<<', '[', ']', '.', '->', '?', ':', '{', '}', '&&', '%=']
LITS = ['1', '2', '0x1f', '1.5e+3', '"s"', '"a\\"b"', "'c'", "'\\''", '"\\\\"', 'L"w"', '""']
PARAMS = ['p', 'q', 'r', 's']
REDEF_SPELLINGS = [("','", "';'"), ("'\\0'", "L'\\0'"), ("'a'", "'b'"), ('@', '`'), ('x @ y', 'x ` y'), ('1', '01'), ('0x10', '0X10'), ('1.0', '1.00'),
                   ('"a"', '"b"'), ('"a"', 'L"a"'), ('u8"a"', 'u"a"'), ('ab', 'aB'), ("L'x'", "U'x'"), ('1 + 2', '1 - 2'), ('<<', '<< =')]
AVOID = set()    # experiments: names of known deviation patterns the generator should not produce


def sp(rng, lo=0.5):
    """separator between two tokens: mostly one space, sometimes none (when safe is decided by caller), tabs, comments"""
    r = rng.random()
    if r < lo:
        return ' '
    if r < lo + 0.1:
        return '  '
    if r < lo + 0.15:
        # a comment IS white space (5.1.1.2 phase 3): also with nothing else around it
        return rng.choice([' /* c */ ', '/* c */', '/**/', '/*/ */'])
    if r < lo + 0.2:
        return '\t'
    return ''


def needs_space(a, b):
    """would a and b fuse (or form a comment / different token) when written without white space?"""
    if not a or not b:
        return False
    x, y = a[-1], b[0]
    if (x.isalnum() or x == '_') and (y.isalnum() or y == '_' or y in '"\''):
        return True
    if (x.isalnum() or x == '.') and y == '.':
        return True
    if x == '.' and (y.isdigit() or y == '.'):
        return True
    if x in '+-' and (y.isalnum() or y == '.') and a[:1].isdigit():
        return True
    if a[:1].isdigit() and y in '+-' and a[-1] in 'eEpP':
        return True
    if x in '+-*/%<>=!&|^#:.' and y in '+-*/%<>=!&|^#:.>':
        return True
    if x == '-' and y == '>':
        return True
    if x in 'LuU8' and y in '"\'':
        return True
    return False


def join(rng, toks, nl_prob=0.0, lo=0.5):
    out = ''
    prev = ''
    for t in toks:
        if t == '\n':
            out += '\n'
            prev = ''
            continue
        s = sp(rng, lo) if prev else (' ' if rng.random() < 0.1 else '')
        if prev and nl_prob and rng.random() < nl_prob:
            s = rng.choice(['\n', ' \n', '\n ', '\n\n'])
        if not s and needs_space(prev, t):
            s = ' '
        if s.startswith('/') and prev.endswith('/'):
            s = ' ' + s               # `/` followed by a comment opener would read as `//`
        out += s + t
        prev = t
    return out


class MacroSet:
    def __init__(self):
        self.m = {}      # name -> (params or None, variadic, body tokens)

    def funs(self):
        return [n for n, d in self.m.items() if d[0] is not None]

    def objs(self):
        return [n for n, d in self.m.items() if d[0] is None]


def gen_args(rng, ms, nparams, variadic, depth, params=()):
    """argument token lists for a call"""
    n = nparams
    if variadic:
        n = nparams - 1 + rng.choice([1, 1, 2, 3])
        if rng.random() < 0.08:
            n = nparams - 1          # too few for strict C11 (constraint violation)
    elif rng.random() < 0.04:
        n = max(0, nparams + rng.choice([-1, 1]))
    args = []
    for _ in range(n):
        args.append(gen_seq(rng, ms, rng.choice([0, 1, 1, 2, 3]), depth + 1, params, inarg=True))
    return args


def gen_call(rng, ms, name, depth, params=()):
    ps, var, _ = ms.m.get(name, ([], False, []))
    ps = ps or []
    args = gen_args(rng, ms, len(ps), var, depth, params)
    out = [name, '(']
    for i, a in enumerate(args):
        if i:
            out.append(',')
        out += a
    out.append(')')
    return out


def gen_seq(rng, ms, n, depth, params=(), inarg=False):
    out = []
    for _ in range(n):
        r = rng.random()
        funs, objs = ms.funs() or FUN[:2], ms.objs() or OBJ[:2]
        if params and r < 0.3:
            out.append(rng.choice(params))
        elif r < 0.45:
            out.append(rng.choice(objs + OBJ[:3]))
        elif r < 0.65 and depth < 3:
            out += gen_call(rng, ms, rng.choice(funs), depth, params)
        elif r < 0.70:
            out.append(rng.choice(funs))          # bare function-like name
        elif r < 0.78:
            out.append(rng.choice(LITS))
        elif r < 0.86:
            out.append(rng.choice(PLAIN))
        elif r < 0.90 and inarg:
            out += ['('] + gen_seq(rng, ms, rng.randint(0, 3), depth + 1, params, True) + [',' if rng.random() < 0.5 else '+'] + gen_seq(rng, ms, 1, depth + 1, params, True) + [')']
        elif r < 0.93:
            out.append(rng.choice(['(', ')', ',']))
        else:
            out.append(rng.choice(PUNCT))
    return out


def gen_define(rng, ms, name=None, allow_bad=False):
    """returns (name, params|None, variadic, body tokens, text)"""
    func = rng.random() < 0.55
    if name is None:
        name = rng.choice(FUN if func else OBJ)
    elif name in ms.m:
        func = ms.m[name][0] is not None if rng.random() < 0.8 else func
    params, var = None, False
    if func:
        k = rng.choice([0, 1, 1, 2, 2, 3, 4])
        params = rng.sample(PARAMS, k)
        if rng.random() < 0.25:
            var = True
            params = params[:rng.randint(0, 3)] + ['__VA_ARGS__']
    body = []
    n = rng.choice([0, 1, 2, 2, 3, 4, 6])
    ps = params or []
    for _ in range(n):
        r = rng.random()
        if ps and r < 0.35:
            c = rng.choice(ps)
            if 'both-uses' in AVOID and ('#', c) in zip(body, body[1:]):
                continue
            body.append(c)
        elif ps and r < 0.50:
            c = rng.choice(ps)
            if 'both-uses' in AVOID and any(b == c and (i == 0 or body[i - 1] != '#') for i, b in enumerate(body)):
                continue
            body += ['#', c]
        elif r < 0.62:
            body.append(rng.choice(OBJ[:4] + [name]))
        elif r < 0.75:
            g = rng.choice(FUN[:4] + [name])
            if rng.random() < 0.7:
                gp = ms.m.get(g, ([None], False, []))[0] or []
                body += [g, '(']
                for i in range(len(gp) if gp != [None] else rng.randint(0, 2)):
                    if i:
                        body.append(',')
                    body += [rng.choice(ps + PLAIN + OBJ[:2])] if rng.random() < 0.8 else []
                body.append(')')
            else:
                body.append(g)
        elif r < 0.83:
            body.append(rng.choice(LITS + PLAIN))
        elif r < 0.87 and ps:
            body += [rng.choice(ps), '(', rng.choice(LITS[:3]), ')']      # parameter followed by a parenthesised list
        elif r < 0.91:
            body.append(rng.choice(['(', ')', ',']))
        else:
            body.append(rng.choice(PUNCT))
    if rng.random() < 0.12:
        body.append(rng.choice(FUN[:4] + [name]))      # function-like name at the very end
    if allow_bad and rng.random() < 0.3:
        body.insert(rng.randint(0, len(body)), rng.choice(['##', '#', '__VA_ARGS__']))
    head = '#' + rng.choice(['', ' ', '  ']) + 'define ' + name
    if func:
        shown = [('...' if p == '__VA_ARGS__' else p) for p in params]
        head += '(' + join(rng, [x for i, p in enumerate(shown) for x in ([','] if i else []) + [p]], lo=0.3) + ')'
    text = head
    if body:
        b = join(rng, body)
        if not func and (body[0] == '(') and not b.startswith(' '):
            b = ' ' + b
        text += (' ' if (not func or rng.random() < 0.8 or needs_space(')', body[0])) else '') + b
        if not func and not text[len(head)].isspace():
            text = head + ' ' + b
    return name, params, var, body, text


def gen_free_case(rng, small=False):
    """macro definitions, text lines with invocations, #undef/#define histories, other directives"""
    ms = MacroSet()
    lines = []
    nm = rng.randint(1, 4 if small else 12)
    for _ in range(nm):
        name, ps, var, body, text = gen_define(rng, ms)
        if name in ms.m:
            lines.append('#undef ' + name)
        ms.m[name] = (ps, var, body)
        lines.append(text)
    ntext = rng.randint(1, 3 if small else 8)
    for _ in range(ntext):
        r = rng.random()
        if r < 0.12 and ms.m:
            n = rng.choice(list(ms.m))
            lines.append('#undef ' + n)
            if rng.random() < 0.7:
                name, ps, var, body, text = gen_define(rng, ms, n)
                ms.m[name] = (ps, var, body)
                lines.append(text)
            else:
                del ms.m[n]
        elif r < 0.04 + 0.12 and ms.m:
            # macro names on a #pragma line are not expanded (and a function-like name at its end takes no arguments
            # from the next line): the line after it is ordinary text
            n = rng.choice(list(ms.m))
            lines.append(rng.choice(['#pragma %s', '#pragma p %s', '#pragma %s (', '#pragma x ( %s , 1']) % n)
            lines.append(join(rng, ['(', rng.choice(LITS), ')'] + gen_seq(rng, ms, rng.randint(1, 3), 0)))
        elif r < 0.24:
            lines.append(rng.choice(['#', '# ', '#pragma once', '#pragma STDC FP_CONTRACT ON', '#line 77', '#line 5 "q.c"', '# 3 "z.c"', '# 4 "z.c" 3', '#undef NOSUCH']))
        else:
            toks = gen_seq(rng, ms, rng.randint(1, 5), 0)
            lines.append(join(rng, toks, nl_prob=0.12))
            if rng.random() < 0.15 and ms.funs():
                # function-like name at the end of a line, then a directive or another line
                lines[-1] += ' ' + rng.choice(ms.funs())
                r2 = rng.random()
                if r2 < 0.4 and 'dir-after-name' not in AVOID:
                    lines.append(rng.choice(['#define ZZ 9', '#', '#pragma p', '#undef NOSUCH2']))
                if rng.random() < 0.5:
                    lines.append(join(rng, ['(', rng.choice(LITS), ')'] + gen_seq(rng, ms, 1, 0)))
    text = '\n'.join(lines) + '\n'
    if 'nl-before-rparen' in AVOID:
        import re
        text = re.sub(r'\n\s*\)', ' )', text)
        text = re.sub(r'\(\s*\n', '( ', text)
    if 'dir-after-name' in AVOID:
        import re
        text = re.sub(r'\n(#[^\n]*)\n(\s*\()', r'\n\1\nx\2', text)
    return text


def gen_span_case(rng):
    """invocations that BEGIN inside a replacement list and are completed by the tokens that follow it
    (6.10.3.4p1 'along with all subsequent preprocessing tokens of the source file'), with arguments whose expansion
    contains commas and parentheses, and names that are painted inside the argument"""
    L = ['#define C2 1 , 2', '#define P2 ( 3 )', '#define RP )', '#define E0']
    nparam = rng.choice([1, 1, 2, 3])
    ps = PARAMS[:nparam]
    var = rng.random() < 0.3
    shown = ps + (['...'] if var else [])
    body = []
    for p in ps + (['__VA_ARGS__'] if var else []):
        body += rng.choice([['[', p, ']'], [p], ['#', p], ['<', p, p, '>']])
    if rng.random() < 0.3:
        body.append(rng.choice(['OPEN', 'f', 'C2']))
    L.append('#define f(%s) %s' % (','.join(shown), ' '.join(body)))
    pre = []
    for i in range(rng.randint(0, nparam - 1)):
        pre += [rng.choice(['a', 'C2', 'P2', 'OPEN', 'E0', 'f'])] + [',']
    L.append('#define OPEN %s f ( %s' % (rng.choice(['', 'x', 'E0']), ' '.join(pre)))
    L.append('#define G(x) x OPEN')
    for _ in range(rng.randint(1, 4)):
        n = nparam - pre.count(',') + (rng.choice([0, 1, 2]) if var else 0) + (1 if rng.random() < 0.05 else 0)
        args = []
        for i in range(max(1, n)):
            if i:
                args.append(',')
            args += [rng.choice(['a', 'C2', 'P2', 'OPEN b )', 'E0', '( C2 )', 'f', 'G ( c )', '"s,"', 'f ( C2 )' if nparam == 1 and not var else 'k'])
                     for _ in range(rng.choice([0, 1, 1, 2]))]
        start = rng.choice(['OPEN', 'OPEN', 'G ( 1 )', 'z OPEN'])
        L.append(join(rng, (start + ' ' + ' '.join(args) + ' ) ' + rng.choice(['', 'OPEN C2 )', ';', 'f'])).split(), nl_prob=0.1))
    return '\n'.join(L) + '\n'


def gen_redef_pair(rng):
    """(text, expected) expected in {'ok','reject'}: a macro defined twice (6.10.3p2)"""
    if rng.random() < 0.08:
        # spelling differences inside every kind of token that has a spelling (character constants, other characters,
        # numbers, strings, identifiers), and the same pairs written identically
        a, b = rng.choice(REDEF_SPELLINGS)
        same = rng.random() < 0.3
        head = rng.choice(['#define RD ', '#define RD(x) x ', '#define RD(...) __VA_ARGS__ '])
        return head + a + '\n' + head + (a if same else b) + '\nRD\n', 'ok' if same else 'reject', 'spelling'
    ms = MacroSet()
    name, ps, var, body, text = gen_define(rng, ms)
    while '\n' in text:
        name, ps, var, body, text = gen_define(rng, ms)

    def render(ps, var, body, seps, lead):
        head = '#define ' + name
        if ps is not None:
            head += '(' + ','.join('...' if p == '__VA_ARGS__' else p for p in ps) + ')'
        t = head
        for i, b in enumerate(body):
            t += (lead if i == 0 else seps[i]) + b
        return t
    seps = [' ' if (i == 0 or rng.random() < 0.6 or needs_space(body[i - 1], body[i])) else '' for i in range(len(body))]
    lead = ' '
    first = render(ps, var, body, seps, lead)
    kind = rng.choice(['same', 'ws-amount', 'ws-presence', 'token', 'param-name', 'kind', 'count', 'lead', 'lead'])
    ps2, body2, seps2, lead2 = (list(ps) if ps is not None else None), list(body), list(seps), lead
    expect = 'ok'
    if kind == 'ws-amount':
        seps2 = [(s * 3 if s else s) for s in seps]
        seps2 = [(rng.choice([' /* x */ ', '/* x */', '/**/']) if (s and rng.random() < 0.3 and i > 0 and not body[i - 1].endswith('/')) else s)
                 for i, s in enumerate(seps2)]
    elif kind == 'lead':
        # white space before the replacement list is not part of it (6.10.3p7): any amount, and for a function-like macro
        # also none at all (`#define NEG(x)-(x)` against `#define NEG(x) -(x)`), in either order
        lead2 = rng.choice(['   \t ', '' if ps is not None else ' /**/ ', '' if ps is not None else '\t'])
        if rng.random() < 0.5 and not (ps is None and not lead2):
            first = render(ps, var, body, seps, lead2)
            lead2 = lead
    elif kind == 'ws-presence':
        idx = [i for i in range(1, len(body)) if not needs_space(body[i - 1], body[i])]
        if idx:
            i = rng.choice(idx)
            seps2[i] = '' if seps[i] else ' '
            expect = 'reject'
    elif kind == 'token' and body:
        i = rng.randrange(len(body))
        repl = rng.choice(['x', '7', '+', '"s"', "'c'", "'d'", "L'c'", '@', '`', '"t"', '8', '-'])
        if body[i][:1] == "'" and rng.random() < 0.7:
            repl = rng.choice(["'d'", "L" + body[i], "'\\0'"])      # same kind of token, another spelling
        if repl != body[i] and not (i > 0 and body[i - 1] == '#'):
            body2[i] = repl
            if i + 1 < len(body2) and needs_space(repl, body2[i + 1]) and not seps2[i + 1]:
                pass
            else:
                expect = 'reject'
            if i > 0 and needs_space(body2[i - 1], repl) and not seps2[i]:
                expect = None
            if expect == 'ok':
                expect = None
    elif kind == 'param-name' and ps:
        cand = [i for i, p in enumerate(ps) if p != '__VA_ARGS__']
        if cand:
            i = rng.choice(cand)
            new = 'zz'
            body2 = [new if b == ps[i] else b for b in body]
            ps2[i] = new
            expect = 'reject'
    elif kind == 'kind':
        if ps is None:
            ps2 = []
        else:
            if any(b in ps for b in body) or '#' in body:
                expect = None
            ps2 = None
        if expect == 'ok':
            expect = 'reject'
    elif kind == 'count' and body:
        body2 = body[:-1]
        seps2 = seps[:-1]
        if body2 and body2[-1] == '#':
            expect = None
        else:
            expect = 'reject'
    if expect is None:
        return gen_redef_pair(rng)
    second = render(ps2, var, body2, seps2, lead2)
    if ps2 is None and body2 and body2[0] == '(' and not lead2:
        return gen_redef_pair(rng)
    return first + '\n' + second + '\n' + name + '\n', expect, kind


MALFORMED = [
    '#define f(x) x ## x\nf(1)\n', '#define A a ## b\nA\n', '#if 1\n#endif\n', '#ifdef A\n#endif\n', '#ifndef A\n#endif\n',
    '#include <stdio.h>\n', '#include "x.h"\n', '#error stop\n', '#elif 1\n', '#endif\n', '#else\n', '#foo\n',
    '#define f(x) #y\n', '#define f(x) x #\n', '#define f(x,) x\n', '#define f(x y) x\n', '#define f(... , x) x\n', '#define f(x\n',
    '#define\n', '#define 3 4\n', '#undef\n', '#undef 3\n', '#undef A B\n', '#define f(x) x\nf(1,2)\n', '#define f(x,y) x\nf(1)\n',
    '#define f(x) x\nf(1\n', '#define f() 1\nf(2)\n', '#define A __VA_ARGS__ 1\n', '#define f(x) __VA_ARGS__\n', '#define A 1\n#define A 2\n',
    '#define f(x) x\n#define f(y) y\n', '#define f(x) x\n#define f x\n', '#line x\n', '#define A 1', '#define f(x,...) x\nf(1)\n',
    '#define f(x) x\nf(1,)\n', '#define f(x, x) x\nf(1,2)\n', '#define X __VA_ARGS__\nX\n', '#define A(x) x\nA (1\n',
]


# ------------------------------------------------------------------------------------------------ programs
def gen_program(rng):
    """A valid C translation unit that uses macros everywhere; returns the text.  The fully expanded text is obtained
    from the specification (oracle) or `cpp -P`; compiling both must give the same IL."""
    L = []
    L.append('enum { SELF = 4 };')
    L.append('int PING(int); int PONG(int);')
    L.append('#define ZERO 0')
    L.append('#define ONE (ZERO + 1)')
    L.append('#define TYPE ' + rng.choice(['int', 'long', 'unsigned', 'short']))
    L.append('#define ID(x) x')
    L.append('#define ADD(a, b) ((a) + (b))')
    L.append('#define MUL(a,b) ((a)*(b))')
    L.append('#define STR(x) #x')
    L.append('#define XSTR(x) STR(x)')
    L.append('#define APPLY(m, ...) m(__VA_ARGS__)')
    L.append('#define FIRST(a, ...) a')
    L.append('#define REST(a, ...) __VA_ARGS__')
    L.append('#define SELF SELF + 1')
    L.append('#define PING(x) PONG(x) + 1')
    L.append('#define PONG(x) PING(x) + 2')
    L.append('#define DECL(t, n, v) t n = v')
    L.append('#define EMPTY')
    L.append('#define LPAREN (')
    L.append('#define CALL ID')
    L.append('#define FN(name) TYPE name(TYPE a, TYPE b)')

    def expr(d):
        r = rng.random()
        if d > 3 or r < 0.2:
            return rng.choice(['a', 'b', 'ZERO', 'ONE', '3', '0x10', 'ID(a)', 'ID(ID(b))', 'EMPTY 5', 'CALL (7)', 'CALL\n(b)', 'FIRST(a, b, 1)', 'REST(1, b)', 'PING(a)', 'PONG(ONE)', 'sizeof(STR(a b))', 'sizeof XSTR(ONE)', 'sizeof(STR("q\\n" \'"\'))'])
        if r < 0.45:
            return 'ADD(%s, %s)' % (expr(d + 1), expr(d + 1))
        if r < 0.6:
            return 'MUL(%s,\n %s)' % (expr(d + 1), expr(d + 1))
        if r < 0.7:
            return 'APPLY(ADD, %s, %s)' % (expr(d + 1), expr(d + 1))
        if r < 0.8:
            return 'ID(%s)' % expr(d + 1)
        if r < 0.9:
            return '(%s %s %s)' % (expr(d + 1), rng.choice('+-*|&^'), expr(d + 1))
        return 'APPLY(ID, %s)' % expr(d + 1)
    nf = rng.randint(1, 4)
    for i in range(nf):
        L.append('FN(fn%d)' % i)
        L.append('{')
        L.append('\tDECL(TYPE, v, %s);' % expr(0))
        for j in range(rng.randint(1, 4)):
            L.append('\tv = %s;' % expr(0))
            if rng.random() < 0.3:
                L.append('#undef ONE')
                L.append('#define ONE %d' % rng.randint(1, 9))
            if rng.random() < 0.2:
                L.append('#define TMP%d_%d(q) ADD(q, v)' % (i, j))
                L.append('\tv = TMP%d_%d(%s);' % (i, j, expr(2)))
        L.append('\treturn v + SELF;')
        L.append('}')
    L.append('const char *s1 = XSTR(ADD(1, ONE));')
    L.append('const char *s2 = STR(ADD(1, ONE)   "x\\\\" \'\\\'\');')
    L.append('const char *s3 = STR(  a   +   b  );')
    return '\n'.join(L) + '\n'
