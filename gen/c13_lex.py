# Reference lexer written from C11 6.4 / 5.1.1.2 (phases 1-3) and 6.10.4 (line control), independent of scan.c.
# Shared by props/c13.py (token kinds, spellings) and props/c11.py (locations).
#
#   lex(text)  ->  (tokens, end)      text: bytes;  end in {'eof', 'error:<what>'}
#   token = (kind_name, spelling(str, latin-1), space(bool), raw_offset)
#
# Kind names are those of cproc's `enum tokenkind` (the mapping spelling -> name below is part of the
# specification side: it says which enumerator *means* which C token; it is cross-checked against the
# regenerated tokstr[] on every run).
import re

WS = ' \t\f\v'          # 6.4p3 white space other than new-line (CR is not white space)

# 6.4.6 punctuators, digraphs excluded (README "What's missing"), plus C23 '::'
PUNCT = {
    '[': 'TLBRACK', ']': 'TRBRACK', '(': 'TLPAREN', ')': 'TRPAREN', '{': 'TLBRACE', '}': 'TRBRACE',
    '.': 'TPERIOD', '->': 'TARROW', '++': 'TINC', '--': 'TDEC', '&': 'TBAND', '*': 'TMUL', '+': 'TADD',
    '-': 'TSUB', '~': 'TBNOT', '!': 'TLNOT', '/': 'TDIV', '%': 'TMOD', '<<': 'TSHL', '>>': 'TSHR',
    '<': 'TLESS', '>': 'TGREATER', '<=': 'TLEQ', '>=': 'TGEQ', '==': 'TEQL', '!=': 'TNEQ', '^': 'TXOR',
    '|': 'TBOR', '&&': 'TLAND', '||': 'TLOR', '?': 'TQUESTION', ':': 'TCOLON', '::': 'TCOLONCOLON',
    ';': 'TSEMICOLON', '...': 'TELLIPSIS', '=': 'TASSIGN', '*=': 'TMULASSIGN', '/=': 'TDIVASSIGN',
    '%=': 'TMODASSIGN', '+=': 'TADDASSIGN', '-=': 'TSUBASSIGN', '<<=': 'TSHLASSIGN', '>>=': 'TSHRASSIGN',
    '&=': 'TBANDASSIGN', '^=': 'TXORASSIGN', '|=': 'TBORASSIGN', ',': 'TCOMMA', '#': 'THASH', '##': 'THASHHASH',
}
PUNCT_ALPHABET = sorted(set(''.join(PUNCT)))   # 24 characters

# 6.4.1 keywords (C11), the C23 additions cproc has token kinds for, and the GNU alternative spellings
# cproc documents.  `_BitInt` has an enumerator but no support at all (identifier; see notes/C13.md).
KEYWORD = {
    'auto': 'TAUTO', 'break': 'TBREAK', 'case': 'TCASE', 'char': 'TCHAR', 'const': 'TCONST', 'continue': 'TCONTINUE',
    'default': 'TDEFAULT', 'do': 'TDO', 'double': 'TDOUBLE', 'else': 'TELSE', 'enum': 'TENUM', 'extern': 'TEXTERN',
    'float': 'TFLOAT', 'for': 'TFOR', 'goto': 'TGOTO', 'if': 'TIF', 'inline': 'TINLINE', 'int': 'TINT', 'long': 'TLONG',
    'register': 'TREGISTER', 'restrict': 'TRESTRICT', 'return': 'TRETURN', 'short': 'TSHORT', 'signed': 'TSIGNED',
    'sizeof': 'TSIZEOF', 'static': 'TSTATIC', 'struct': 'TSTRUCT', 'switch': 'TSWITCH', 'typedef': 'TTYPEDEF',
    'union': 'TUNION', 'unsigned': 'TUNSIGNED', 'void': 'TVOID', 'volatile': 'TVOLATILE', 'while': 'TWHILE',
    '_Alignas': 'TALIGNAS', '_Alignof': 'TALIGNOF', '_Atomic': 'T_ATOMIC', '_Bool': 'TBOOL', '_Complex': 'T_COMPLEX',
    '_Generic': 'T_GENERIC', '_Imaginary': 'T_IMAGINARY', '_Noreturn': 'T_NORETURN', '_Static_assert': 'TSTATIC_ASSERT',
    '_Thread_local': 'TTHREAD_LOCAL',
    # C23
    'alignas': 'TALIGNAS', 'alignof': 'TALIGNOF', 'bool': 'TBOOL', 'constexpr': 'TCONSTEXPR', 'false': 'TFALSE',
    'nullptr': 'TNULLPTR', 'static_assert': 'TSTATIC_ASSERT', 'thread_local': 'TTHREAD_LOCAL', 'true': 'TTRUE',
    'typeof': 'TTYPEOF', 'typeof_unqual': 'TTYPEOF_UNQUAL', '_Decimal128': 'T_DECIMAL128', '_Decimal32': 'T_DECIMAL32',
    '_Decimal64': 'T_DECIMAL64',
    # GNU
    '__alignof__': 'TALIGNOF', '__asm': 'T__ASM__', '__asm__': 'T__ASM__', '__attribute__': 'T__ATTRIBUTE__',
    '__inline': 'TINLINE', '__inline__': 'TINLINE', '__signed': 'TSIGNED', '__signed__': 'TSIGNED',
    '__thread': 'TTHREAD_LOCAL', '__typeof': 'TTYPEOF', '__typeof__': 'TTYPEOF', '__volatile__': 'TVOLATILE',
}
# canonical spelling printed for a keyword kind (what -E prints): the C23/plain spelling
CANON = {
    'TALIGNAS': 'alignas', 'TALIGNOF': 'alignof', 'TBOOL': 'bool', 'TSTATIC_ASSERT': 'static_assert',
    'TTHREAD_LOCAL': 'thread_local', 'T_ATOMIC': '_Atomic', 'T_COMPLEX': '_Complex', 'T_GENERIC': '_Generic',
    'T_IMAGINARY': '_Imaginary', 'T_NORETURN': '_Noreturn', 'T__ASM__': '__asm__', 'T__ATTRIBUTE__': '__attribute__',
    'T_DECIMAL128': '_Decimal128', 'T_DECIMAL32': '_Decimal32', 'T_DECIMAL64': '_Decimal64',
    'TINLINE': 'inline', 'TSIGNED': 'signed', 'TTYPEOF': 'typeof', 'TVOLATILE': 'volatile',
}
for _s, _k in KEYWORD.items():
    CANON.setdefault(_k, _s)

_ESC = r"""\\(?:['"?\\abfnrtv]|[0-7]{1,3}|x[0-9a-fA-F]+)"""
_TOKEN = re.compile('|'.join([
    r'(?P<nl>\n)',
    r'(?P<ws>[ \t\f\v]+)',
    r'(?P<bc>/\*.*?\*/)',                       # 6.4.9: a comment is replaced by one space (phase 3)
    r'(?P<lc>//[^\n]*)',
    r'(?P<str>(?:u8|u|U|L)?"(?:[^"\\\n\x00]|' + _ESC + r')*")',    # 6.4.5: the prefix binds to an immediately following quote
    r"(?P<chr>(?:u8|u|U|L)?'(?:[^'\\\n\x00]|" + _ESC + r")*')",
    r'(?P<num>\.?[0-9](?:[eEpP][+-]|[0-9A-Za-z_.])*)',         # 6.4.8 pp-number
    r'(?P<id>[A-Za-z_][A-Za-z0-9_]*)',                          # 6.4.2 (no UCNs / extended characters: unsupported by design)
    '(?P<p>' + '|'.join(re.escape(p) for p in sorted(PUNCT, key=lambda p: -len(p))) + ')',   # longest punctuator first
    r'(?P<other>.)',
]), re.S)


def phase2(text):
    """5.1.1.2 phase 2: delete each backslash immediately followed by new-line.  Returns (logical str, offset map)."""
    s = text.decode('latin-1') if isinstance(text, (bytes, bytearray)) else text
    if '\\\n' not in s:
        return s, None
    out, omap = [], []
    i, n = 0, len(s)
    while i < n:
        if s[i] == '\\' and i + 1 < n and s[i + 1] == '\n':
            i += 2
            continue
        out.append(s[i]); omap.append(i)
        i += 1
    omap.append(n)
    return ''.join(out), omap


def lex(text, keywords=True):
    s, omap = phase2(text)
    toks = []
    pos, n = 0, len(s)
    space = False
    end = 'eof'
    while pos < n:
        m = _TOKEN.match(s, pos)
        g = m.lastgroup
        v = m.group()
        off = pos if omap is None else omap[pos]
        npos = m.end()
        if g in ('ws', 'bc', 'lc'):
            space = True
            pos = npos
            continue
        if g == 'nl':
            toks.append(('TNEWLINE', '', space, off))
        elif g == 'str':
            toks.append(('TSTRINGLIT', v, space, off))
        elif g == 'chr':
            toks.append(('TCHARCONST', v, space, off))
        elif g == 'num':
            toks.append(('TNUMBER', v, space, off))
        elif g == 'id':
            if v in ('u8', 'u', 'U', 'L') and npos < n and s[npos] in '"\'':
                end = 'error:literal'       # prefix directly followed by a quote but no well-formed literal
                break
            k = KEYWORD.get(v) if keywords else None
            toks.append((k, CANON[k], space, off) if k else ('TIDENT', v, space, off))
        elif g == 'p':
            if v == '/' and s.startswith('/*', pos):
                end = 'error:comment'       # unterminated comment
                break
            toks.append((PUNCT[v], v, space, off))
        else:
            if v in '"\'':
                end = 'error:literal'       # unterminated / ill-formed character constant or string literal
                break
            toks.append(('TOTHER', v, space, off))
        space = False
        pos = npos
    return toks, end


# ------------------------------------------------------------------------------------------ locations (C11)
def physical(text):
    """(line, col) of every raw offset, 1-based; every new-line character (also inside a splice or a comment)
    ends a physical line.  Offset len(text) is included (EOF position)."""
    s = text.decode('latin-1') if isinstance(text, (bytes, bytearray)) else text
    res = []
    line, col = 1, 1
    for ch in s:
        res.append((line, col))
        if ch == '\n':
            line += 1; col = 1
        else:
            col += 1
    res.append((line, col))
    return res


def digit_sequence(sp):
    return int(sp) if re.fullmatch(r'[0-9]+', sp) else None


def presumed(text, fname, toks=None, decode_file=True):
    """Walk the token list as 6.10 / 6.10.4 prescribe.  Returns (out, end) where out is the list of
    (kind, spelling, space, off, file, line, col) for every token that is NOT part of a directive, and
    end is 'eof', 'error:...' or 'unsupported:<directive>' (the walk stops there).
    `# N "f" flags` (GNU line marker) is treated like `#line N "f"`."""
    if toks is None:
        toks, end = lex(text, keywords=False)
    else:
        end = 'eof'
    ph = physical(text)
    out = []
    delta, file = 0, fname
    i, n = 0, len(toks)
    bol = True
    while i < n:
        k, sp, space, off = toks[i]
        if bol and k == 'THASH':
            j = i + 1
            while j < n and toks[j][0] != 'TNEWLINE':
                j += 1
            d = toks[i + 1:j]
            if j >= n:
                return out, 'error:directive-at-eof' if d else end
            nlline = ph[toks[j][3]][0]
            if d and d[0][0] == 'TIDENT' and d[0][1] == 'line':
                d = d[1:]
                if not d or d[0][0] != 'TNUMBER':
                    return out, 'error:line'
                isline = True
            else:
                isline = bool(d) and d[0][0] == 'TNUMBER'
            if isline:
                nval = digit_sequence(d[0][1])
                if nval is None:
                    return out, 'unsupported:line-number-not-digits'
                d = d[1:]
                nf = None
                if d and d[0][0] == 'TSTRINGLIT' and d[0][1].startswith('"'):
                    nf = d[0][1][1:-1]
                    if decode_file:
                        nf = re.sub(r'\\(.)', lambda m: m.group(1) if m.group(1) in '\\"\'?' else m.group(0), nf)
                    d = d[1:]
                while d and d[0][0] == 'TNUMBER':
                    d = d[1:]
                if d:
                    return out, 'error:line-extra'
                delta = nval - (nlline + 1)
                if nf is not None:
                    file = nf
            elif not d:
                pass                                  # null directive
            elif d[0][0] == 'TIDENT' and d[0][1] in ('define', 'undef', 'pragma'):
                pass                                  # handled by the caller's generator (C12 owns macros)
            else:
                return out, 'unsupported:' + d[0][1]
            i = j + 1
            bol = True
            continue
        line, col = ph[off]
        out.append((k, sp, space, off, file, line + delta, col))
        bol = k == 'TNEWLINE'
        i += 1
    return out, end


def apply_keywords(toks):
    res = []
    for t in toks:
        if t[0] == 'TIDENT' and t[1] in KEYWORD:
            k = KEYWORD[t[1]]
            res.append((k, CANON[k]) + tuple(t[2:]))
        else:
            res.append(t)
    return res


# ------------------------------------------------------------------------------------------ tables from the source (G)
def read_enum(cc_h):
    m = re.search(r'enum tokenkind \{(.*?)\};', cc_h, re.S)
    body = re.sub(r'/\*.*?\*/', '', m.group(1), flags=re.S)
    names = [x.strip() for x in body.split(',') if x.strip()]
    assert all(re.fullmatch(r'\w+', x) for x in names), names
    return names


def read_tokstr(token_c):
    m = re.search(r'tokstr\[\] = \{(.*?)\n\};', token_c, re.S)
    return dict(re.findall(r'\[(\w+)\] = "((?:[^"\\]|\\.)*)"', m.group(1)))


def read_keywords(pp_c):
    m = re.search(r'keywords\[\] = \{(.*?)\n\t\};', pp_c, re.S)
    return re.findall(r'\{"((?:[^"\\]|\\.)*)",\s*(\w+)\}', m.group(1))


def parse_dump(out):
    """token dump of the hook -> list of (file, line, col, kindnum, space, hide, spelling)"""
    res = []
    for l in out.split('\n'):
        if not l:
            continue
        p = l.split('\t', 4)
        if len(p) < 5:
            res.append(('?', 0, 0, -1, 0, 0, l))
            continue
        f, ln, c = p[0].rsplit(':', 2)
        res.append((f, int(ln), int(c), int(p[1]), int(p[2]), int(p[3]), p[4]))
    return res
