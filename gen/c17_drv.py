# Shared by props/c17.py and props/c18.py: build the snapshot's driver.c against stub tools and run it.
#
#   Rig(ctx, snap, target)   copies driver.c/util.c/util.h/configure of the snapshot into a scratch directory,
#                            runs the snapshot's own ./configure with --target and --with-cpp/qbe/as/ld naming the
#                            stubs, compiles driver.c+util.c with gcc, and reads the generated config.h back.
#   rig.run(argv, ...)       one invocation in a fresh working directory: exit status, stdout, stderr, the stub
#                            records (argv, what happened to each), the files left behind.
import os, re, shutil, signal, subprocess, time
import vlib
from vlib import sh, txt

STUB_SRC = os.path.join(vlib.VERIF, 'harness', 'c17', 'stub.c')
TOOLS = {'pp': 'pp-stub', 'cg': 'qbe-stub', 'as': 'as-stub', 'ld': 'ld-stub'}
IDS = ['pp', 'cc', 'cg', 'as', 'ld']
STDIN_MARK = b'STDIN-MARK\n'
PRLIMIT = shutil.which('prlimit')


def hexw(b):
    if isinstance(b, str):
        b = b.encode('latin1')
    return 'x' + b.hex()


def unhexw(w):
    return bytes.fromhex(w[1:])


def parse_config_h(text):
    """config.h -> dict field -> list of byte strings (target: one element)."""
    text = re.sub(r'/\*.*?\*/', '', text, flags=re.S)
    cfg = {}
    m = re.search(r'static const char target\[\]\s*=\s*"([^"]*)"', text)
    cfg['target'] = [m.group(1).encode()] if m else []
    for name in ('startfiles', 'endfiles', 'preprocesscmd', 'codegencmd', 'assemblecmd', 'linkcmd'):
        m = re.search(r'static const char \*const %s\[\]\s*=\s*\{(.*?)\};' % name, text, re.S)
        if not m:
            return None
        cfg[name] = [s.encode().decode('unicode_escape').encode('latin1') for s in re.findall(r'"((?:[^"\\]|\\.)*)"', m.group(1))]
    return cfg


class Rig:
    def __init__(self, ctx, snap, target, name=None, extra_cflags=''):
        self.ctx = ctx
        self.target = target
        self.err = None
        d = os.path.join(ctx.tmp, name or ('rig-' + target))
        self.dir = d
        os.makedirs(os.path.join(d, 'src'))
        os.makedirs(os.path.join(d, 'bin'))
        os.makedirs(os.path.join(d, 'tools'))
        os.makedirs(os.path.join(d, 'runs'))
        for f in ('driver.c', 'util.c', 'util.h', 'configure'):
            shutil.copy(os.path.join(snap, f), os.path.join(d, 'src', f))
        rc, out, err = sh(['sh', './configure', '--host=x86_64-linux-gnu', '--target=' + target,
                           '--with-cpp=' + TOOLS['pp'], '--with-qbe=' + TOOLS['cg'], '--with-as=' + TOOLS['as'],
                           '--with-ld=' + TOOLS['ld'], '--with-gcc-libdir=/gcc-libdir'], cwd=os.path.join(d, 'src'), timeout=60)
        if rc != 0:
            self.err = 'configure --target=%s failed: %s' % (target, txt(err)[-500:])
            return
        self.cfg = parse_config_h(open(os.path.join(d, 'src', 'config.h')).read())
        if self.cfg is None:
            self.err = 'config.h written by configure could not be read back'
            return
        self.cproc = os.path.join(d, 'bin', 'cproc')
        rc, out, err = sh('gcc -std=c11 -O1 -w %s driver.c util.c -o %s' % (extra_cflags, self.cproc), cwd=os.path.join(d, 'src'), timeout=120)
        if rc != 0:
            self.err = 'driver.c does not compile: ' + txt(err)[-1500:]
            return
        self.stub = os.path.join(d, 'stub')
        rc, out, err = sh('gcc -O1 -w %s -o %s' % (STUB_SRC, self.stub), timeout=120)
        if rc != 0:
            self.err = 'stub does not compile: ' + txt(err)[-1500:]
            return
        for t in TOOLS.values():
            os.link(self.stub, os.path.join(d, 'tools', t))
        os.link(self.stub, os.path.join(d, 'bin', 'cproc-qbe'))
        self.cfg['compilecmd'] = [os.path.join(d, 'bin', 'cproc-qbe').encode()]
        # the driver reached through a symbolic link with another name in another directory (/usr/bin/cc -> cproc): the
        # compiler proper is still the cproc-qbe beside the real executable
        os.makedirs(os.path.join(d, 'linkdir'), exist_ok=True)
        self.via_link = os.path.join(d, 'linkdir', 'cc')
        if not os.path.lexists(self.via_link):
            os.symlink(self.cproc, self.via_link)
        self.stdin_file = os.path.join(d, 'stdin.txt')
        open(self.stdin_file, 'wb').write(STDIN_MARK)
        self.nrun = 0

    def oracle_cfg_lines(self):
        return ['CFG %s %s' % (k, ' '.join(hexw(w) for w in v)) for k, v in self.cfg.items()]

    def fresh(self):
        self.nrun += 1
        r = os.path.join(self.dir, 'runs', 'r%d_%d' % (os.getpid(), self.nrun))
        os.makedirs(os.path.join(r, 'logs'))
        os.makedirs(os.path.join(r, 'work', 'dir'))
        os.makedirs(os.path.join(r, 'work', 'dir.d'))
        return r

    def run(self, argv, r=None, env_extra=None, timeout=10, bindir=None, tooldir=None, preload=None, keep=False, prefix_cmd=None, via_link=False):
        """argv: list of bytes.  Returns dict(rc, out, err, recs, files, wall, timed_out, leftover)."""
        r = r or self.fresh()
        work = os.path.join(r, 'work')
        env = {'PATH': tooldir or os.path.join(self.dir, 'tools'), 'STUB_DIR': os.path.join(r, 'logs')}
        if preload:
            env['LD_PRELOAD'] = preload
        if env_extra:
            env.update(env_extra)
        exe = os.path.join(bindir, 'cproc') if bindir else self.cproc
        if via_link and not bindir:
            exe = self.via_link
        cmd = [exe.encode()] + list(argv)
        if prefix_cmd:
            cmd = prefix_cmd + cmd
        if PRLIMIT:      # prlimit execs the command: same pid, /proc/self/exe is the driver's
            cmd = [PRLIMIT, '--fsize=%d' % (256 << 20), '--core=0', '--as=%d' % (4 << 30), '--'] + cmd
        t0 = time.time()
        with open(self.stdin_file, 'rb') as si:
            p = subprocess.Popen(cmd, cwd=work, env=env, stdin=si, stdout=subprocess.PIPE, stderr=subprocess.PIPE,
                                 start_new_session=True)
            timed_out = False
            try:
                out, err = p.communicate(timeout=timeout)
            except subprocess.TimeoutExpired:
                timed_out = True
                try:
                    os.killpg(p.pid, signal.SIGKILL)
                except OSError:
                    pass
                out, err = p.communicate()
        wall = time.time() - t0
        if via_link and not bindir:
            # messages are prefixed with the name the driver was invoked by: put them into the canonical spelling
            err = re.sub(rb'(?m)^cc: ', b'cproc: ', err)
            err = re.sub(rb'(?mi)^usage: cc\b', b'usage: cproc', err)
        recs = read_records(os.path.join(r, 'logs'))
        # children still running after the driver has gone
        leftover = []
        for rec in recs:
            if 'end' not in rec['events'] and 'term' not in rec['events'] and alive(rec['pid']):
                leftover.append(rec)
        if leftover:
            time.sleep(0.05)
            leftover = [rec for rec in leftover if alive(rec['pid'])]
        try:
            os.killpg(p.pid, signal.SIGKILL)
        except OSError:
            pass
        files = {}
        for root, _, fs in os.walk(work):
            for f in fs:
                pth = os.path.join(root, f)
                try:
                    files[os.path.relpath(pth, work)] = open(pth, 'rb').read()
                except OSError:
                    pass
        res = dict(rc=p.returncode, out=out[:1 << 20], err=err[:1 << 20], recs=recs, files=files, wall=wall,
                   timed_out=timed_out, leftover=leftover, dir=r, pid=p.pid)
        if not keep:
            shutil.rmtree(r, ignore_errors=True)
        return res


def alive(pid):
    try:
        st = open('/proc/%d/stat' % pid).read()
        return st.rsplit(')', 1)[1].split()[0] != 'Z'
    except OSError:
        return False


def read_records(logdir):
    recs = []
    for f in sorted(os.listdir(logdir)):
        m = re.match(r'(\w+)\.(\d+)\.log$', f)
        if not m:
            continue
        rec = dict(id=m.group(1), k=int(m.group(2)), pid=0, argv=None, events=[], line=None)
        for l in open(os.path.join(logdir, f), 'rb').read().decode('latin1').split('\n'):
            if l.startswith('pid '):
                rec['pid'] = int(l[4:])
            elif l.startswith('argv '):
                rec['line'] = l[5:]
                rec['argv'] = [unhexw(w) for w in l[5:].split(' ')[2:]]
            elif l:
                rec['events'].append(l.split(' ')[0])
        recs.append(rec)
    return recs


CHAIN_RE = re.compile(rb'^(pp|cc|cg|as|ld) (\d+)((?: x[0-9a-f]*)*)$')


def chain_records(data):
    """provenance chain lines found in an output, in order: list of (id, k, argv)"""
    out = []
    for l in data.split(b'\n'):
        m = CHAIN_RE.match(l)
        if m:
            out.append((m.group(1).decode(), int(m.group(2)), [unhexw(w.decode()) for w in m.group(3).split()]))
    return out
