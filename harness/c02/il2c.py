#!/usr/bin/env python3
# il2c.py - QBE IL (the dialect cproc emits, plus the rest of QBE's base instruction set) -> GNU C + top-level asm for data.
#
# Used by C02 to turn stage 1's IL for cproc's own sources into a native "stage 2" binary without a qbe binary:
#     gcc -O1 -fno-strict-aliasing -fwrapv -ffp-contract=off -fno-builtin -w -c out.c
# Strict: anything outside the grammar / class discipline of QBE raises ILError (a stage-2 build failure).
# Semantics follow QBE's IL reference (and coq/Model/Qbe.v): w ops on the low 32 bits, shifts modulo the width,
# sub-word loads extend, `loadw` into `l` sign-extends, aggregates are passed/returned by value through a C struct
# rebuilt from the IL `type` definition (so gcc's SysV classification is the one QBE computes), a `:type` parameter or
# call result is the ADDRESS of a copy, phis are parallel copies on the incoming edges.
import re, struct, sys

M64 = (1 << 64) - 1


class ILError(Exception):
    pass


# ------------------------------------------------------------------------------------------------ lexer
TOK = re.compile(r'''\s*(?:
    (?P<str>"(?:[^"\\\n]|\\.)*")
  | (?P<flt>[sd]_[^\s,(){}]+)
  | (?P<sym>[%$:@][A-Za-z0-9_.$\x80-\xff]*)
  | (?P<num>-?\d+)
  | (?P<id>[A-Za-z_][A-Za-z0-9_]*)
  | (?P<p>\.\.\.|[=,(){}+])
)''', re.X)


def lex(line, lineno):
    toks = []
    pos = 0
    n = len(line)
    while True:
        m = TOK.match(line, pos)
        if not m:
            if line[pos:].strip() == '' or line[pos:].lstrip().startswith('#'):
                return toks
            raise ILError('line %d: cannot tokenise %r' % (lineno, line[pos:pos + 40]))
        k = m.lastgroup
        toks.append((k, m.group(k)))
        pos = m.end()
        if pos >= n:
            return toks


class P:
    """token cursor over one line"""

    def __init__(self, toks, lineno, line):
        self.t, self.i, self.lineno, self.line = toks, 0, lineno, line

    def err(self, msg):
        raise ILError('line %d: %s in %r' % (self.lineno, msg, self.line[:200]))

    def peek(self):
        return self.t[self.i] if self.i < len(self.t) else (None, None)

    def next(self):
        if self.i >= len(self.t):
            self.err('unexpected end of line')
        x = self.t[self.i]
        self.i += 1
        return x

    def accept(self, kind, val=None):
        k, v = self.peek()
        if k == kind and (val is None or v == val):
            self.i += 1
            return v
        return None

    def expect(self, kind, val=None):
        v = self.accept(kind, val)
        if v is None:
            self.err('expected %s %s, got %r' % (kind, val or '', self.peek()[1]))
        return v

    def end(self):
        if self.i != len(self.t):
            self.err('trailing tokens %r' % (self.t[self.i:],))


# ------------------------------------------------------------------------------------------------ AST
BASE = 'wlsd'
EXT = 'bhwlsd'


class Val:
    """operand: kind in tmp/glo/int/flt ; thread flag for globals"""
    __slots__ = ('kind', 'v', 'thread', 'fc')

    def __init__(self, kind, v, thread=False, fc=None):
        self.kind, self.v, self.thread, self.fc = kind, v, thread, fc


def fbits(cls, text, perr):
    """bit pattern of an s_/d_ literal"""
    t = text.lower()
    neg = t.startswith('-')
    body = t.lstrip('+-')
    try:
        if body in ('nan', 'nan(ind)') or body.startswith('nan'):
            bits = 0x7ff8000000000000 | (1 << 63 if neg else 0)
            if cls == 's':
                return 0x7fc00000 | (1 << 31 if neg else 0)
            return bits
        x = float.fromhex(t) if 'x' in t else float(t)
    except ValueError:
        perr('bad floating constant %r' % text)
    if cls == 's':
        try:
            return struct.unpack('<I', struct.pack('<f', x))[0]
        except OverflowError:
            return 0x7f800000 | (1 << 31 if x < 0 else 0)
    return struct.unpack('<Q', struct.pack('<d', x))[0]


def parse_val(p):
    k, v = p.next()
    if k == 'sym' and v[0] == '%':
        return Val('tmp', v[1:])
    if k == 'sym' and v[0] == '$':
        return Val('glo', v[1:])
    if k == 'id' and v == 'thread':
        g = p.expect('sym')
        if g[0] != '$':
            p.err('thread needs a global')
        return Val('glo', g[1:], thread=True)
    if k == 'num':
        return Val('int', int(v) & M64)
    if k == 'flt':
        return Val('flt', fbits(v[0], v[2:], p.err), fc=v[0])
    p.err('bad operand %r' % v)


def parse_abity(p, allow_sub=False):
    """class letter or :type"""
    k, v = p.peek()
    if k == 'sym' and v[0] == ':':
        p.next()
        return v
    if k == 'id' and (v in ('w', 'l', 's', 'd') or (allow_sub and v in ('sb', 'ub', 'sh', 'uh'))):
        p.next()
        return 'w' if len(v) == 2 else v
    return None


class Func:
    pass


class Module:
    def __init__(self):
        self.types = {}      # name -> dict(kind=struct/union/dark, align, fields | alts | size)
        self.typeorder = []
        self.datas = []
        self.funcs = []


def parse_fields(p, m):
    fields = []
    while True:
        k, v = p.peek()
        if k == 'p' and v == '}':
            break
        if k == 'sym' and v[0] == ':':
            if v not in m.types:
                p.err('type %s used before its definition' % v)
            ty = v
        elif k == 'id' and v in EXT:
            ty = v
        else:
            p.err('bad field type %r' % v)
        p.next()
        cnt = 1
        c = p.accept('num')
        if c is not None:
            cnt = int(c)
            if cnt < 0:
                p.err('negative count')
        fields.append((ty, cnt))
        if not p.accept('p', ','):
            break
    p.expect('p', '}')
    return fields


def parse_type(p, m):
    name = p.expect('sym')
    if name[0] != ':':
        p.err('type name must start with :')
    if name in m.types:
        p.err('type %s redefined' % name)
    p.expect('p', '=')
    align = None
    if p.accept('id', 'align'):
        align = int(p.expect('num'))
    p.expect('p', '{')
    k, v = p.peek()
    if k == 'num':
        p.next()
        p.expect('p', '}')
        if align is None:
            p.err('opaque type needs an alignment')
        t = dict(kind='dark', align=align, size=int(v))
    elif k == 'p' and v == '{':
        alts = []
        while p.accept('p', '{'):
            alts.append(parse_fields(p, m))
        p.expect('p', '}')
        t = dict(kind='union', align=align, alts=alts)
    else:
        t = dict(kind='struct', align=align, fields=parse_fields(p, m))
    p.end()
    m.types[name] = t
    m.typeorder.append(name)


STR_ESC = re.compile(r'\\([0-7]{3})')


def decode_string(s, perr):
    """cproc writes printable characters except '"' and '\\' literally and everything else as \\ooo"""
    body = s[1:-1]
    out = bytearray()
    i = 0
    while i < len(body):
        c = body[i]
        if c == '\\':
            mm = STR_ESC.match(body, i)
            if not mm:
                perr('string escape other than \\ooo: %r' % body[i:i + 4])
            out.append(int(mm.group(1), 8) & 0xff)
            i += 4
        else:
            if ord(c) > 0xff:
                perr('non-byte character in string')
            out.append(ord(c))
            i += 1
    return bytes(out)


def parse_data(p, m, export, thread, section):
    name = p.expect('sym')
    if name[0] != '$':
        p.err('data name must start with $')
    p.expect('p', '=')
    align = None
    if p.accept('id', 'align'):
        align = int(p.expect('num'))
        if align <= 0 or align & (align - 1):
            p.err('alignment not a power of two')
    p.expect('p', '{')
    items = []           # ('bytes', b) | ('zero', n) | ('int', width, value) | ('ref', width, sym, off)
    width = dict(b=1, h=2, w=4, l=8, s=4, d=8)
    while not p.accept('p', '}'):
        k, v = p.next()
        if k != 'id' or v not in ('b', 'h', 'w', 'l', 's', 'd', 'z'):
            p.err('bad data item type %r' % v)
        if v == 'z':
            items.append(('zero', int(p.expect('num'))))
        else:
            n = 0
            while True:
                k2, v2 = p.peek()
                if k2 == 'num':
                    p.next()
                    items.append(('int', width[v], int(v2) & ((1 << (8 * width[v])) - 1)))
                elif k2 == 'flt':
                    p.next()
                    if v2[0] != v:
                        p.err('%s constant in a %s item' % (v2[0], v))
                    items.append(('int', width[v], fbits(v, v2[2:], p.err)))
                elif k2 == 'str':
                    p.next()
                    if v != 'b':
                        p.err('string in a non-b item')
                    items.append(('bytes', decode_string(v2, p.err)))
                elif k2 == 'sym' and v2[0] == '$':
                    p.next()
                    off = 0
                    if p.accept('p', '+'):
                        off = int(p.expect('num'))
                    items.append(('ref', width[v], v2[1:], off))
                else:
                    break
                n += 1
            if n == 0:
                p.err('data item without a value')
        if not p.accept('p', ','):
            p.expect('p', '}')
            break
    p.end()
    m.datas.append(dict(name=name[1:], align=align, items=items, export=export, thread=thread, section=section))


# opcode table: name -> (allowed result classes or '', argument class spec)
#   spec letters: T = the result class, w l s d = fixed, m = address (l)
def _ops():
    o = {}
    for n in ('add', 'sub', 'mul', 'div'):
        o[n] = ('wlsd', 'TT')
    o['neg'] = ('wlsd', 'T')
    for n in ('udiv', 'rem', 'urem', 'or', 'xor', 'and'):
        o[n] = ('wl', 'TT')
    for n in ('sar', 'shr', 'shl'):
        o[n] = ('wl', 'Tw')
    o.update(stored=('', 'dm'), stores=('', 'sm'), storel=('', 'lm'), storew=('', 'wm'), storeh=('', 'wm'), storeb=('', 'wm'))
    o.update(loadd=('d', 'm'), loads=('s', 'm'), loadl=('l', 'm'))
    for n in ('loadw', 'loadsw', 'loaduw', 'loadsh', 'loaduh', 'loadsb', 'loadub'):
        o[n] = ('wl', 'm')
    for n in ('alloc4', 'alloc8', 'alloc16'):
        o[n] = ('l', 'l')
    for c in ('eq', 'ne', 'sle', 'slt', 'sge', 'sgt', 'ule', 'ult', 'uge', 'ugt'):
        o['c' + c + 'w'] = ('wl', 'ww')
        o['c' + c + 'l'] = ('wl', 'll')
    for c in ('eq', 'ne', 'le', 'lt', 'ge', 'gt', 'o', 'uo'):
        o['c' + c + 's'] = ('wl', 'ss')
        o['c' + c + 'd'] = ('wl', 'dd')
    o.update(extsw=('l', 'w'), extuw=('l', 'w'))
    for n in ('extsh', 'extuh', 'extsb', 'extub'):
        o[n] = ('wl', 'w')
    o.update(exts=('d', 's'), truncd=('s', 'd'), stosi=('wl', 's'), stoui=('wl', 's'), dtosi=('wl', 'd'), dtoui=('wl', 'd'),
             swtof=('sd', 'w'), uwtof=('sd', 'w'), sltof=('sd', 'l'), ultof=('sd', 'l'))
    o['cast'] = ('wlsd', 'C')
    o['copy'] = ('wlsd', 'T')
    o['vastart'] = ('', 'm')
    o['vaarg'] = ('wlsd', 'm')
    return o


OPS = _ops()


def parse_call_args(p):
    p.expect('p', '(')
    args = []
    variadic_at = None
    first = True
    while not p.accept('p', ')'):
        if not first:
            p.expect('p', ',')
        first = False
        if p.accept('p', '...'):
            if variadic_at is not None:
                p.err('two ... markers')
            variadic_at = len(args)
            continue
        if p.accept('id', 'env'):
            p.err('env arguments are not supported')
        ty = parse_abity(p, allow_sub=True)
        if ty is None:
            p.err('bad argument class %r' % (p.peek()[1],))
        args.append((ty, parse_val(p)))
    return args, variadic_at


def parse_function(lines, idx, header_p, export, m):
    p = header_p
    f = Func()
    f.export = export
    f.lineno = p.lineno
    f.ret = parse_abity(p)
    name = p.expect('sym')
    if name[0] != '$':
        p.err('function name must start with $')
    f.name = name[1:]
    p.expect('p', '(')
    f.params = []
    f.variadic = False
    first = True
    while not p.accept('p', ')'):
        if not first:
            p.expect('p', ',')
        first = False
        if p.accept('p', '...'):
            f.variadic = True
            p.expect('p', ')')
            break
        if p.accept('id', 'env'):
            p.err('env parameters are not supported')
        ty = parse_abity(p, allow_sub=True)
        if ty is None:
            p.err('bad parameter class %r' % (p.peek()[1],))
        t = p.expect('sym')
        if t[0] != '%':
            p.err('parameter must be a temporary')
        f.params.append((ty, t[1:]))
    p.expect('p', '{')
    p.end()
    f.blocks = []
    cur = None
    state = 'none'       # none | phi | ins | closed
    while True:
        if idx >= len(lines):
            raise ILError('line %d: function $%s is not closed' % (f.lineno, f.name))
        line = lines[idx]
        lineno = idx + 1
        idx += 1
        toks = lex(line, lineno)
        if not toks:
            continue
        p = P(toks, lineno, line)
        k, v = p.peek()
        if k == 'p' and v == '}':
            p.next()
            p.end()
            break
        if k == 'sym' and v[0] == '@':
            p.next()
            p.end()
            cur = dict(label=v[1:], phis=[], ins=[], jump=None, lineno=lineno)
            f.blocks.append(cur)
            state = 'phi'
            continue
        if cur is None:
            p.err('instruction before the first label')
        if state == 'closed':
            p.err('instruction after a jump without a label')
        # jumps
        if k == 'id' and v in ('jmp', 'jnz', 'ret', 'hlt'):
            p.next()
            if v == 'jmp':
                cur['jump'] = ('jmp', lbl(p))
            elif v == 'jnz':
                c = parse_val(p)
                p.expect('p', ',')
                a = lbl(p)
                p.expect('p', ',')
                b = lbl(p)
                cur['jump'] = ('jnz', c, a, b)
            elif v == 'ret':
                cur['jump'] = ('ret', parse_val(p) if p.peek()[0] is not None else None)
            else:
                cur['jump'] = ('hlt',)
            p.end()
            cur['jlineno'] = lineno
            state = 'closed'
            continue
        res = rescls = None
        if k == 'sym' and v[0] == '%':
            p.next()
            res = v[1:]
            p.expect('p', '=')
            rescls = parse_abity(p)
            if rescls is None:
                p.err('bad result class')
        k, op = p.next()
        if k != 'id':
            p.err('expected an opcode, got %r' % op)
        if op == 'phi':
            if state != 'phi':
                p.err('phi after an ordinary instruction')
            if res is None or rescls not in ('w', 'l', 's', 'd'):
                p.err('phi needs a result of base class')
            args = []
            while True:
                l = lbl(p)
                args.append((l, parse_val(p)))
                if not p.accept('p', ','):
                    break
            p.end()
            cur['phis'].append(dict(res=res, cls=rescls, args=args, lineno=lineno))
            continue
        state = 'ins'
        if op == 'call':
            callee = parse_val(p)
            if callee.kind not in ('tmp', 'glo'):
                p.err('bad callee')
            args, variadic_at = parse_call_args(p)
            p.end()
            cur['ins'].append(dict(op='call', res=res, cls=rescls, callee=callee, args=args, variadic_at=variadic_at, lineno=lineno))
            continue
        if op not in OPS:
            p.err('unknown opcode %r' % op)
        rc, spec = OPS[op]
        if rc == '':
            if res is not None:
                p.err('%s has no result' % op)
        else:
            if res is None:
                p.err('%s needs a result' % op)
            if rescls not in tuple(rc):
                p.err('%s cannot produce class %s' % (op, rescls))
        args = [parse_val(p)]
        while p.accept('p', ','):
            args.append(parse_val(p))
        p.end()
        if len(args) != len(spec):
            p.err('%s takes %d operand(s)' % (op, len(spec)))
        cur['ins'].append(dict(op=op, res=res, cls=rescls, args=args, lineno=lineno))
    if not f.blocks:
        raise ILError('line %d: function $%s has no block' % (f.lineno, f.name))
    m.funcs.append(f)
    return idx


def lbl(p):
    v = p.expect('sym')
    if v[0] != '@':
        p.err('expected a label')
    return v[1:]


def parse(text):
    """text: str in which every char is one byte (decode the file as latin-1)"""
    m = Module()
    lines = text.split('\n')
    idx = 0
    export = thread = False
    section = None
    while idx < len(lines):
        line = lines[idx]
        lineno = idx + 1
        idx += 1
        toks = lex(line, lineno)
        if not toks:
            continue
        p = P(toks, lineno, line)
        while True:
            k, v = p.peek()
            if k is None:
                break        # linkage on its own line (cproc prints "export\nfunction ...")
            if k != 'id':
                p.err('expected a definition')
            p.next()
            if v == 'export':
                export = True
                continue
            if v == 'thread':
                thread = True
                continue
            if v == 'section':
                section = decode_string(p.expect('str'), p.err).decode('latin1')
                p.accept('str')
                continue
            if v == 'type':
                if export or thread or section:
                    p.err('linkage on a type')
                parse_type(p, m)
            elif v == 'data':
                parse_data(p, m, export, thread, section)
            elif v == 'function':
                if thread:
                    p.err('thread function')
                idx = parse_function(lines, idx, p, export, m)
            else:
                p.err('unknown definition %r' % v)
            export = thread = False
            section = None
            break
    if export or thread:
        raise ILError('dangling linkage at end of file')
    return m


# ------------------------------------------------------------------------------------------------ C emission
def mg(name):
    """injective mangling into C identifier characters"""
    out = []
    for ch in name:
        if ch.isascii() and ch.isalnum():
            out.append(ch)
        elif ch == '_':
            out.append('__')
        elif ch == '.':
            out.append('_d')
        elif ch == '$':
            out.append('_S')
        else:
            out.append('_x%02x' % ord(ch))
    return ''.join(out)


SYMOK = re.compile(r'^[A-Za-z_.][A-Za-z0-9_.$]*$')

CTYPE = dict(w='u32', l='u64', s='float', d='double')
FTYPE = dict(b='u8', h='u16', w='u32', l='u64', s='float', d='double')

PRELUDE = r'''/* generated by il2c.py - do not edit */
typedef unsigned char u8; typedef signed char i8; typedef unsigned short u16; typedef short i16;
typedef unsigned int u32; typedef int i32; typedef unsigned long u64; typedef long i64;
typedef u8 __attribute__((may_alias)) u8a; typedef i8 __attribute__((may_alias)) i8a;
typedef u16 __attribute__((may_alias, aligned(1))) u16a; typedef i16 __attribute__((may_alias, aligned(1))) i16a;
typedef u32 __attribute__((may_alias, aligned(1))) u32a; typedef i32 __attribute__((may_alias, aligned(1))) i32a;
typedef u64 __attribute__((may_alias, aligned(1))) u64a;
typedef float __attribute__((may_alias, aligned(1))) f32a; typedef double __attribute__((may_alias, aligned(1))) f64a;
static inline __attribute__((always_inline)) u32 il_s2w(float f) { u32 r; __builtin_memcpy(&r, &f, 4); return r; }
static inline __attribute__((always_inline)) float il_w2s(u32 w) { float r; __builtin_memcpy(&r, &w, 4); return r; }
static inline __attribute__((always_inline)) u64 il_d2l(double f) { u64 r; __builtin_memcpy(&r, &f, 8); return r; }
static inline __attribute__((always_inline)) double il_l2d(u64 w) { double r; __builtin_memcpy(&r, &w, 8); return r; }
'''


class Emit:
    def __init__(self, m, local_data_only=False):
        self.m = m
        self.local_data_only = local_data_only      # emit only the `.L...` data (C02's function-level localisation)
        self.out = []
        self.fnames = {f.name for f in m.funcs}
        self.dnames = {d['name'] for d in m.datas}
        self.externs = {}      # name -> thread flag

    def tname(self, ty):
        t = self.m.types.get(ty)
        if t is None:
            raise ILError('undefined type %s' % ty)
        return ('union ' if t['kind'] == 'union' else 'struct ') + 'T_' + mg(ty[1:])

    def fields_c(self, fields):
        s = []
        for i, (ty, cnt) in enumerate(fields):
            ct = self.tname(ty) if ty[0] == ':' else FTYPE[ty]
            s.append('%s f%d%s;' % (ct, i, '[%d]' % cnt if cnt != 1 else ''))
        return ' '.join(s)

    def emit_types(self):
        o = self.out
        for name in self.m.typeorder:
            t = self.m.types[name]
            al = ' __attribute__((aligned(%d)))' % t['align'] if t['align'] else ''
            if t['kind'] == 'dark':
                o.append('%s { u8 b[%d] __attribute__((aligned(%d))); };' % (self.tname(name), t['size'], t['align']))
            elif t['kind'] == 'struct':
                o.append('%s%s { %s };' % (self.tname(name), al, self.fields_c(t['fields'])))
            else:
                alts = ' '.join('struct { %s } a%d;' % (self.fields_c(a), i) for i, a in enumerate(t['alts']))
                o.append('%s%s { %s };' % (self.tname(name), al, alts))

    def abi_c(self, ty):
        return self.tname(ty) if ty[0] == ':' else CTYPE[ty]

    def proto(self, f):
        ret = self.abi_c(f.ret) if f.ret else 'void'
        ps = []
        for ty, t in f.params:
            ps.append('%s %s' % (self.abi_c(ty), ('s_' if ty[0] == ':' else 't_') + mg(t)))
        if f.variadic:
            if not ps:
                raise ILError('line %d: variadic function $%s without a named parameter cannot be expressed' % (f.lineno, f.name))
            ps.append('...')
        return '%s%s g_%s(%s)' % ('' if f.export else 'static ', ret, mg(f.name), ', '.join(ps) if ps else 'void')

    def sym(self, v):
        """C expression of type u64 for the address of global v"""
        n = v.v
        if not SYMOK.match(n):
            raise ILError('symbol name %r cannot be used as an assembler label' % n)
        if n in self.fnames:
            if v.thread:
                raise ILError('thread reference to function $%s' % n)
            return '(u64)g_%s' % mg(n)
        prev = self.externs.get(n)
        if prev is not None and prev != v.thread:
            raise ILError('$%s used both as thread-local and ordinary symbol' % n)
        self.externs[n] = v.thread
        return '(u64)g_%s' % mg(n)

    # ---- functions
    def emit_function(self, f):
        cls = {}

        def define(t, c, ln):
            if t in cls:
                raise ILError('line %d: temporary %%%s defined twice in $%s' % (ln, t, f.name))
            cls[t] = c
        for ty, t in f.params:
            define(t, 'l' if ty[0] == ':' else ty, f.lineno)
        labels = {}
        for i, b in enumerate(f.blocks):
            if b['label'] in labels:
                raise ILError('line %d: label @%s defined twice' % (b['lineno'], b['label']))
            labels[b['label']] = i
            for ph in b['phis']:
                define(ph['res'], ph['cls'], ph['lineno'])
            for ins in b['ins']:
                if ins['res'] is not None:
                    define(ins['res'], 'l' if ins['cls'][0] == ':' else ins['cls'], ins['lineno'])
        targeted = set()
        for i, b in enumerate(f.blocks):
            j = b['jump']
            if j is None:
                if i + 1 >= len(f.blocks):
                    raise ILError('line %d: last block of $%s has no jump' % (b['lineno'], f.name))
                targeted.add(f.blocks[i + 1]['label'])
            elif j[0] == 'jmp':
                targeted.add(j[1])
            elif j[0] == 'jnz':
                targeted.update(j[2:4])
        for l in targeted:
            if l not in labels:
                raise ILError('$%s: jump to undefined label @%s' % (f.name, l))

        def val(v, c, ln):
            """C expression computing operand v as class c"""
            if v.kind == 'tmp':
                tc = cls.get(v.v)
                if tc is None:
                    raise ILError('line %d: temporary %%%s is never defined' % (ln, v.v))
                n = 't_' + mg(v.v)
                if tc == c:
                    return n
                if tc == 'l' and c == 'w':
                    return '(u32)' + n
                raise ILError('line %d: temporary %%%s of class %s used as %s' % (ln, v.v, tc, c))
            if v.kind == 'int':
                if c == 'w':
                    return '%dU' % (v.v & 0xffffffff)
                if c == 'l':
                    return '%dUL' % v.v
                if c == 's':
                    return 'il_w2s(%dU)' % (v.v & 0xffffffff)
                return 'il_l2d(%dUL)' % v.v
            if v.kind == 'flt':
                if v.fc != c:
                    raise ILError('line %d: %s_ constant used as %s' % (ln, v.fc, c))
                return 'il_w2s(%dU)' % v.v if c == 's' else 'il_l2d(%dUL)' % v.v
            if v.kind == 'glo':
                if c == 'l':
                    return self.sym(v)
                if c == 'w':
                    return '(u32)' + self.sym(v)
                raise ILError('line %d: symbol $%s used as %s' % (ln, v.v, c))
            raise ILError('bad operand')

        body = []
        decls = []
        nstruct = [0]
        first_is_target = f.blocks[0]['label'] in targeted
        for ty, t in f.params:
            if ty[0] == ':':
                decls.append('u64 t_%s = (u64)&s_%s;' % (mg(t), mg(t)))
        ptemps = {t for _, t in f.params}
        for t, c in cls.items():
            if t not in ptemps:
                decls.append('%s t_%s;' % (CTYPE[c], mg(t)))
        last_named = None
        if f.params:
            ty, t = f.params[-1]
            last_named = ('s_' if ty[0] == ':' else 't_') + mg(t)

        def edge(src, dst, ln):
            """parallel copy for the phis of dst along the edge from src, then goto"""
            ph = f.blocks[labels[dst]]['phis']
            if not ph:
                return 'goto L_%s;' % mg(dst)
            tmps, sets = [], []
            for k, p_ in enumerate(ph):
                a = [x for l, x in p_['args'] if l == src]
                if len(a) != 1:
                    raise ILError('line %d: phi %%%s names predecessor @%s %d times' % (p_['lineno'], p_['res'], src, len(a)))
                if len(ph) == 1:
                    sets.append('t_%s = %s;' % (mg(p_['res']), val(a[0], p_['cls'], p_['lineno'])))
                else:
                    tmps.append('%s p%d = %s;' % (CTYPE[p_['cls']], k, val(a[0], p_['cls'], p_['lineno'])))
                    sets.append('t_%s = p%d;' % (mg(p_['res']), k))
            return '{ %s %s goto L_%s; }' % (' '.join(tmps), ' '.join(sets), mg(dst))

        def binop(c, a, b, op, signed=False):
            if c in 'sd':
                return '%s %s %s' % (a, op, b)
            if signed:
                st = 'i32' if c == 'w' else 'i64'
                return '(%s)((%s)%s %s (%s)%s)' % (CTYPE[c], st, a, op, st, b)
            return '%s %s %s' % (a, op, b)

        for bi, b in enumerate(f.blocks):
            body.append('L_%s: ;' % mg(b['label']))
            for ins in b['ins']:
                op, ln = ins['op'], ins['lineno']
                if op == 'call':
                    body.append(self.call_c(f, ins, val, decls, nstruct, cls))
                    continue
                rc = ins['cls']
                spec = OPS[op][1]
                a = []
                for sp, v in zip(spec, ins['args']):
                    if sp == 'T':
                        a.append(val(v, rc, ln))
                    elif sp == 'm':
                        a.append(val(v, 'l', ln))
                    elif sp == 'C':
                        a.append(val(v, dict(w='s', l='d', s='w', d='l')[rc], ln))
                    else:
                        a.append(val(v, sp, ln))
                r = 't_' + mg(ins['res']) if ins['res'] is not None else None
                ct = CTYPE.get(rc)
                e = None
                if op in ('add', 'sub', 'mul'):
                    e = binop(rc, a[0], a[1], {'add': '+', 'sub': '-', 'mul': '*'}[op])
                elif op == 'div':
                    e = binop(rc, a[0], a[1], '/', signed=True)
                elif op == 'rem':
                    e = binop(rc, a[0], a[1], '%', signed=True)
                elif op in ('udiv', 'urem', 'or', 'xor', 'and'):
                    e = binop(rc, a[0], a[1], {'udiv': '/', 'urem': '%', 'or': '|', 'xor': '^', 'and': '&'}[op])
                elif op == 'neg':
                    e = '-%s' % a[0]
                elif op in ('shl', 'shr'):
                    e = '%s %s (%s & %d)' % (a[0], '<<' if op == 'shl' else '>>', a[1], 31 if rc == 'w' else 63)
                elif op == 'sar':
                    st = 'i32' if rc == 'w' else 'i64'
                    e = '(%s)((%s)%s >> (%s & %d))' % (ct, st, a[0], a[1], 31 if rc == 'w' else 63)
                elif op.startswith('store'):
                    pt = dict(d='f64a', s='f32a', l='u64a', w='u32a', h='u16a', b='u8a')[op[5]]
                    body.append('*(%s *)%s = (%s)%s;' % (pt, a[1], pt, a[0]) if op[5] in 'hb' else '*(%s *)%s = %s;' % (pt, a[1], a[0]))
                    continue
                elif op.startswith('load'):
                    k = op[4:]
                    if k in ('d', 's', 'l'):
                        e = '*(%s *)%s' % (dict(d='f64a', s='f32a', l='u64a')[k], a[0])
                    else:
                        pt, st = dict(w=('i32a', 'i32'), sw=('i32a', 'i32'), uw=('u32a', 'u32'), sh=('i16a', 'i16'), uh=('u16a', 'u16'),
                                      sb=('i8a', 'i8'), ub=('u8a', 'u8'))[k]
                        wide = ('i64' if st[0] == 'i' else 'u64') if rc == 'l' else ('i32' if st[0] == 'i' else 'u32')
                        e = '(%s)(%s)*(%s *)%s' % (ct, wide, pt, a[0])
                elif op.startswith('alloc'):
                    al = int(op[5:])
                    v = ins['args'][0]
                    if bi == 0 and not first_is_target and v.kind == 'int' and v.v < (1 << 31):
                        decls.append('u8 m_%s[%d] __attribute__((aligned(%d)));' % (mg(ins['res']), v.v, al))
                        e = '(u64)m_%s' % mg(ins['res'])
                    else:
                        e = '(u64)__builtin_alloca_with_align(%s, %d)' % (a[0], al * 8)
                elif op[0] == 'c' and op[1:-1] in ('eq', 'ne', 'sle', 'slt', 'sge', 'sgt', 'ule', 'ult', 'uge', 'ugt', 'le', 'lt', 'ge', 'gt', 'o', 'uo') \
                        and op not in ('cast', 'copy'):
                    cc, k = op[1:-1], op[-1]
                    if k in 'sd':
                        if cc == 'o':
                            e = '!__builtin_isunordered(%s, %s)' % (a[0], a[1])
                        elif cc == 'uo':
                            e = '__builtin_isunordered(%s, %s)' % (a[0], a[1])
                        else:
                            e = '%s %s %s' % (a[0], dict(eq='==', ne='!=', le='<=', lt='<', ge='>=', gt='>')[cc], a[1])
                    else:
                        sg = cc[0] == 's' and cc not in ('eq', 'ne')
                        cop = dict(eq='==', ne='!=', le='<=', lt='<', ge='>=', gt='>')[cc if cc in ('eq', 'ne') else cc[1:]]
                        if sg:
                            st = 'i32' if k == 'w' else 'i64'
                            e = '(%s)%s %s (%s)%s' % (st, a[0], cop, st, a[1])
                        else:
                            e = '%s %s %s' % (a[0], cop, a[1])
                    e = '(%s)(%s)' % (ct, e)
                elif op == 'extsw':
                    e = '(u64)(i64)(i32)%s' % a[0]
                elif op == 'extuw':
                    e = '(u64)%s' % a[0]
                elif op in ('extsh', 'extuh', 'extsb', 'extub'):
                    st = dict(sh='i16', uh='u16', sb='i8', ub='u8')[op[3:]]
                    wide = ('i64' if st[0] == 'i' else 'u64') if rc == 'l' else ('i32' if st[0] == 'i' else 'u32')
                    e = '(%s)(%s)(%s)%s' % (ct, wide, st, a[0])
                elif op == 'exts':
                    e = '(double)%s' % a[0]
                elif op == 'truncd':
                    e = '(float)%s' % a[0]
                elif op in ('stosi', 'dtosi'):
                    e = '(%s)(%s)%s' % (ct, 'i32' if rc == 'w' else 'i64', a[0])
                elif op in ('stoui', 'dtoui'):
                    e = '(u32)(i64)%s' % a[0] if rc == 'w' else '(u64)%s' % a[0]
                elif op == 'swtof':
                    e = '(%s)(i32)%s' % (ct, a[0])
                elif op == 'uwtof':
                    e = '(%s)%s' % (ct, a[0])
                elif op == 'sltof':
                    e = '(%s)(i64)%s' % (ct, a[0])
                elif op == 'ultof':
                    e = '(%s)%s' % (ct, a[0])
                elif op == 'cast':
                    e = '%s(%s)' % (dict(w='il_s2w', l='il_d2l', s='il_w2s', d='il_l2d')[rc], a[0])
                elif op == 'copy':
                    e = a[0]
                elif op == 'vastart':
                    if not f.variadic:
                        raise ILError('line %d: vastart in a function that is not variadic' % ln)
                    body.append('{ __builtin_va_list ap; __builtin_va_start(ap, %s); __builtin_memcpy((void *)%s, ap, sizeof ap); }'
                                % (last_named, a[0]))
                    continue
                elif op == 'vaarg':
                    if rc == 's':
                        e = 'il_w2s((u32)il_d2l(__builtin_va_arg(*(__builtin_va_list *)%s, double)))' % a[0]
                    else:
                        e = '__builtin_va_arg(*(__builtin_va_list *)%s, %s)' % (a[0], ct)
                else:
                    raise ILError('line %d: opcode %s not implemented' % (ln, op))
                body.append('%s = %s;' % (r, e))
            j = b['jump']
            src = b['label']
            if j is None:
                body.append(edge(src, f.blocks[bi + 1]['label'], b['lineno']))
            elif j[0] == 'jmp':
                body.append(edge(src, j[1], b['jlineno']))
            elif j[0] == 'jnz':
                body.append('if (%s) %s else %s' % (val(j[1], 'w', b['jlineno']), edge(src, j[2], b['jlineno']), edge(src, j[3], b['jlineno'])))
            elif j[0] == 'hlt':
                body.append('__builtin_trap();')
            else:
                v = j[1]
                ln = b['jlineno']
                if f.ret is None:
                    if v is not None:
                        raise ILError('line %d: ret with a value in a function without return type' % ln)
                    body.append('return;')
                elif f.ret[0] == ':':
                    if v is None:
                        body.append('{ %s z; __builtin_memset(&z, 0, sizeof z); return z; }' % self.tname(f.ret))
                    else:
                        body.append('return *(%s *)%s;' % (self.tname(f.ret), val(v, 'l', ln)))
                else:
                    body.append('return %s;' % (val(v, f.ret, ln) if v is not None else '0'))
        o = self.out
        o.append('__attribute__((used, noinline)) ' + self.proto(f))
        o.append('{')
        o.extend('\t' + d for d in decls)
        o.extend(('' if l.startswith('L_') else '\t') + l for l in body)
        o.append('}')

    def call_c(self, f, ins, val, decls, nstruct, cls):
        ln = ins['lineno']
        va = ins['variadic_at']
        ats, avs = [], []
        for i, (ty, v) in enumerate(ins['args']):
            if ty[0] == ':':
                ats.append(self.tname(ty))
                avs.append('*(%s *)%s' % (self.tname(ty), val(v, 'l', ln)))
            else:
                if va is not None and i >= va and ty == 's':
                    raise ILError('line %d: class s argument in the variadic part of a call' % ln)
                ats.append(CTYPE[ty])
                avs.append(val(v, ty, ln))
        rcls = ins['cls']
        rt = 'void' if rcls is None else self.abi_c(rcls)
        if va is None:
            sig = ', '.join(ats) if ats else 'void'
        elif va == 0:
            sig = ''            # no fixed argument: an unprototyped call (default promotions, %al set)
        else:
            sig = ', '.join(ats[:va] + ['...'])
        c = ins['callee']
        fn = val(c, 'l', ln)
        call = '((%s (*)(%s))%s)(%s)' % (rt, sig, fn, ', '.join(avs))
        if rcls is None:
            return call + ';'
        r = 't_' + mg(ins['res'])
        if rcls[0] == ':':
            nstruct[0] += 1
            sv = 'r_%d' % nstruct[0]
            decls.append('%s %s;' % (self.tname(rcls), sv))
            return '%s = %s; %s = (u64)&%s;' % (sv, call, r, sv)
        return '%s = %s;' % (r, call)

    # ---- data
    def emit_data(self):
        a = []
        for d in self.m.datas:
            n = d['name']
            if self.local_data_only and not n.startswith('.L'):
                continue
            if not SYMOK.match(n):
                raise ILError('symbol name %r cannot be used as an assembler label' % n)
            allzero = all(it[0] == 'zero' for it in d['items'])
            if d['section']:
                a.append('.section %s' % d['section'])
            elif d['thread']:
                a.append('.section .tbss,"awT",@nobits' if allzero else '.section .tdata,"awT",@progbits')
            else:
                a.append('.bss' if allzero else '.data')
            a.append('.balign %d' % (d['align'] or 8))
            if d['export']:
                a.append('.globl %s' % n)
            a.append('.type %s, @object' % n)
            a.append('%s:' % n)
            for it in d['items']:
                if it[0] == 'zero':
                    a.append('.zero %d' % it[1])
                elif it[0] == 'bytes':
                    bs = it[1]
                    for i in range(0, len(bs), 32):
                        a.append('.byte ' + ','.join(str(x) for x in bs[i:i + 32]))
                elif it[0] == 'int':
                    a.append('%s %d' % ({1: '.byte', 2: '.short', 4: '.int', 8: '.quad'}[it[1]], it[2]))
                else:
                    if not SYMOK.match(it[2]):
                        raise ILError('symbol name %r cannot be used as an assembler label' % it[2])
                    a.append('%s %s+%d' % ({1: '.byte', 2: '.short', 4: '.int', 8: '.quad'}[it[1]], it[2], it[3]))
            a.append('.size %s, .-%s' % (n, n))
        if not a:
            return
        a.append('.text')
        self.out.append('__asm__(')
        self.out.extend('"\\t%s\\n"' % l.replace('\\', '\\\\').replace('"', '\\"') for l in a)
        self.out.append(');')

    def run(self):
        m = self.m
        seen = set()
        for f in m.funcs:
            if f.name in seen or f.name in self.dnames:
                raise ILError('line %d: symbol $%s defined twice' % (f.lineno, f.name))
            seen.add(f.name)
            if not SYMOK.match(f.name):
                raise ILError('symbol name %r cannot be used as an assembler label' % f.name)
        if len(self.dnames) != len(m.datas):
            raise ILError('a data symbol is defined twice')
        self.out.append(PRELUDE)
        self.emit_types()
        protos = []
        for f in m.funcs:
            protos.append('%s __asm__("%s");' % (self.proto(f), f.name))
        funcs_at = len(self.out)
        for f in m.funcs:
            self.emit_function(f)
        ext = []
        for d in m.datas:
            self.externs.setdefault(d['name'], d['thread'])
        for n, th in sorted(self.externs.items()):
            ext.append('extern %schar g_%s[] __asm__("%s");' % ('__thread ' if th else '', mg(n), n))
        self.out[funcs_at:funcs_at] = protos + ext
        self.emit_data()
        return '\n'.join(self.out) + '\n'


def translate(text, local_data_only=False):
    return Emit(parse(text), local_data_only).run()


def main(argv):
    local = '--local-data-only' in argv
    argv = [a for a in argv if a != '--local-data-only']
    if len(argv) != 3:
        sys.stderr.write('usage: il2c.py [--local-data-only] in.ssa out.c\n')
        return 2
    try:
        text = open(argv[1], 'rb').read().decode('latin1')
        c = translate(text, local)
    except ILError as e:
        sys.stderr.write('il2c: %s\n' % e)
        return 1
    with open(argv[2], 'w', encoding='latin1') as o:
        o.write(c)
    return 0


if __name__ == '__main__':
    sys.exit(main(sys.argv))
