# Localisation helpers for C02 (used only when something already failed).
#
#   shrink_build_failure   stage 2 cannot be built: shrink the preprocessed own source to the smallest fragment for which the
#                          same phase still fails (stage 1 rejects valid C / il2c rejects the IL / gcc rejects the translation)
#   localise               stage 1 and stage 2 differ on an input: which translation unit, and which function of it, has to be
#                          compiled by cproc (instead of gcc) for the difference to appear
#                          1. hybrids: all objects from the gcc build of the snapshot, one object from the IL path
#                          2. inside the culprit unit: gcc -O0 assembly of the unit in which the bodies of a SET of functions are
#                             replaced by the assembly of their IL translation (same assembly unit, so static functions and
#                             objects resolve); the set is minimised by delta debugging.
import os, re, sys, time
import vlib
from vlib import sh, txt, run_limited


def shrink_build_failure(ctx, s1, pre, phase, gccflags, il2c_path, seconds=45):
    sys.path.insert(0, os.path.join(vlib.VERIF, 'props'))
    from c03 import shrink_lines
    import il2c
    wd = os.path.join(ctx.tmp, 'shr')
    os.makedirs(wd, exist_ok=True)
    have_clang = sh('clang --version')[0] == 0
    n = [0]
    want_msg = [None]

    def diag(err):
        l = txt(err).strip().split('\n')[-1]
        return re.sub(r'^.*?:\d+:\d+: ', '', l)
    if phase == 'stage1-rejects-own-source':
        rc, il, err = run_limited([s1, '-t', 'x86_64-sysv'], input=pre, timeout=60, cap=64 << 20)
        want_msg[0] = diag(err)

    def bad(text):
        data = text.encode('latin1')
        rc, il, err = run_limited([s1, '-t', 'x86_64-sysv'], input=data, timeout=20, cap=64 << 20)
        if phase == 'stage1-rejects-own-source':
            if rc in (0, -9):
                return False
            if want_msg[0] is not None and diag(err) != want_msg[0]:
                return False        # another rejection: do not slip to a different defect
            if have_clang:       # the fragment must still be valid C (gcc cannot parse text preprocessed with -U__GNUC__: _Float32 ...)
                r2, o, e = sh(['clang', '-fsyntax-only', '-w', '-x', 'cpp-output', '-std=c11', '-'], input=data, timeout=30)
                return r2 == 0
            return True
        if rc != 0:
            return False
        try:
            c = il2c.translate(il.decode('latin1'))
        except il2c.ILError:
            return phase == 'il2c-rejects-il'
        if phase == 'il2c-rejects-il':
            return False
        n[0] += 1
        f = os.path.join(wd, 't%d.c' % (n[0] % 64))
        open(f, 'w', encoding='latin1').write(c)
        r2, o, e = sh(['gcc'] + gccflags + ['-c', f, '-o', f + '.o'], timeout=60)
        return r2 != 0
    text = pre.decode('latin1')
    # line markers carry no meaning for the failure but triple the number of lines
    nomark = '\n'.join(l for l in text.split('\n') if not re.match(r'^# \d+ "', l) and l.strip()) + '\n'
    if bad(nomark):
        text = nomark
    elif not bad(text):
        return None
    # coarse pass: empty the bodies of top-level function definitions (cproc's style: '{' and '}' in column 0), all but a
    # minimal set of them (delta debugging over the set of bodies that keep their text)
    lines = text.split('\n')
    blocks = []
    i = 0
    while i < len(lines):
        if lines[i] == '{':
            j = i + 1
            while j < len(lines) and lines[j] != '}':
                j += 1
            if j < len(lines):
                blocks.append((i, j))
                i = j
        i += 1

    def with_bodies(keep):
        keep = set(keep)
        out, pos = [], 0
        for k, (a, b) in enumerate(blocks):
            out.extend(lines[pos:a + 1])
            if k in keep:
                out.extend(lines[a + 1:b])
            pos = b
        out.extend(lines[pos:])
        return '\n'.join(out)
    if blocks:
        try:
            if bad(with_bodies([])):
                text = with_bodies([])
            elif bad(with_bodies(range(len(blocks)))):
                keep = ddmin(list(range(len(blocks))), lambda ks: bad(with_bodies(ks)))
                text = with_bodies(keep)
        except Exception:
            pass
    return shrink_lines(text, bad, budget=2500, seconds=seconds).encode('latin1')


def il_function_at(il_text, lineno):
    """name of the function of an IL text that contains the given (1-based) line"""
    name = None
    for k, l in enumerate(il_text.split('\n'), 1):
        m = re.match(r'^function (?:\S+ )?\$([^\s(]+)\(', l)
        if m:
            name = m.group(1)
        if k >= lineno:
            break
    return name


# ----------------------------------------------------------------------------- assembly splicing
FSTART = re.compile(r'^\t\.type\t([A-Za-z_.$][\w.$]*), @function$')


def split_asm(text):
    """-> (chunks: name -> list of lines, rest: lines outside functions with placeholders ('@@F', name))"""
    chunks, rest = {}, []
    cur = None
    name = None
    for l in text.split('\n'):
        if cur is None:
            m = FSTART.match(l)
            if m:
                name = m.group(1)
                cur = [l]
            else:
                rest.append(l)
        else:
            cur.append(l)
            if l == '\t.size\t%s, .-%s' % (name, name):
                chunks[name] = cur
                rest.append(('@@F', name))
                cur = None
    if cur is not None:
        raise RuntimeError('unterminated function %s in assembly' % name)
    return chunks, rest


def rename_locals(lines):
    """compiler-generated local labels of the IL-side assembly must not clash with the reference side's"""
    out = []
    for l in lines:
        if isinstance(l, str):
            l = re.sub(r'\.L(C|FB|FE|BB|VL)?(\d+)\b', r'.LIL\1\2', l)
        out.append(l)
    return out


def splice(ref_text, il_text, chosen):
    rch, rrest = split_asm(ref_text)
    ich, irest = split_asm(il_text)
    out = []
    for l in rrest:
        if isinstance(l, tuple):
            nm = l[1]
            out.extend(rename_locals(ich[nm]) if nm in chosen else rch[nm])
        else:
            out.append(l)
    # everything of the IL side that is not a function (constant pools, the `.L` data of the top-level asm)
    out.append('\t.text')
    for l in rename_locals(irest):
        if isinstance(l, tuple):
            continue
        if re.match(r'^\t\.(file|ident)\b', l) or '.note.GNU-stack' in l:
            continue
        out.append(l)
    out.append('\t.section\t.note.GNU-stack,"",@progbits')
    return '\n'.join(out) + '\n'


def ddmin(items, fails):
    """smallest subset (1-minimal) of items for which fails(subset) is true; fails(items) must hold"""
    items = list(items)
    n = 2
    while len(items) >= 2:
        size = max(1, len(items) // n)
        subsets = [items[i:i + size] for i in range(0, len(items), size)]
        reduced = False
        for s in subsets:
            if fails(s):
                items, n, reduced = s, 2, True
                break
        if not reduced:
            for s in subsets:
                comp = [x for x in items if x not in s]
                if comp and fails(comp):
                    items, n, reduced = comp, max(n - 1, 2), True
                    break
        if not reduced:
            if n >= len(items):
                break
            n = min(len(items), n * 2)
    return items


def localise(ctx, snap, st, srcs, args, data, gccflags, il2c_path):
    wd = os.path.join(ctx.tmp, 'loc')
    os.makedirs(wd, exist_ok=True)
    s1 = os.path.join(snap, 'cproc-qbe')
    t0 = time.time()

    def behaviour(exe):
        return run_limited([exe] + list(args), input=data if data is not None else b'', timeout=20, cwd=snap, cap=64 << 20)
    want = behaviour(s1)

    def same(exe):
        got = behaviour(exe)
        return got[0] == want[0] and got[1] == want[1] and got[2] == want[2]
    gobj = {f: os.path.join(snap, f[:-2] + '.o') for f in srcs}
    if not all(os.path.exists(p) for p in gobj.values()):
        return 'no localisation (the gcc objects of the snapshot are missing)'
    culprits = []
    for f in srcs:
        exe = os.path.join(wd, 'hyb-' + f[:-2])
        rc, o, e = sh(['gcc', '-no-pie', '-o', exe] + [st.obj[f] if g == f else gobj[g] for g in srcs], timeout=120)
        if rc != 0:
            continue
        if not same(exe):
            culprits.append(f)
    if not culprits:
        return 'localisation: no single translation unit taken from the IL path reproduces the difference (%d hybrids tried)' % len(srcs)
    f = culprits[0]
    msg = 'localisation: the difference appears when only %s is compiled by cproc' % ', '.join(culprits)
    # function level inside f
    base = os.path.join(wd, f[:-2])
    rc, o, e = sh(['gcc', '-O0', '-fno-pie', '-w', '-std=c11', '-D' + vlib.GUARD, '-S', f, '-o', base + '.ref.s'], cwd=snap, timeout=120)
    if rc != 0:
        return msg + ' (no function-level search: reference assembly failed)'
    rc, o, e = sh([sys.executable, il2c_path, '--local-data-only', os.path.join(os.path.dirname(st.obj[f]), f[:-2] + '.ssa'), base + '.loc.c'], timeout=120)
    if rc != 0:
        return msg + ' (no function-level search: il2c failed)'
    rc, o, e = sh(['gcc'] + gccflags + ['-S', base + '.loc.c', '-o', base + '.il.s'], timeout=120)
    if rc != 0:
        return msg + ' (no function-level search: IL-side assembly failed)'
    ref_text = open(base + '.ref.s', encoding='latin1').read()
    il_text = open(base + '.il.s', encoding='latin1').read()
    try:
        rch, _ = split_asm(ref_text)
        ich, _ = split_asm(il_text)
    except RuntimeError as ex:
        return msg + ' (no function-level search: %s)' % ex
    funcs = [n for n in ich if n in rch]
    k = [0]

    def fails(subset):
        k[0] += 1
        sfile = '%s.t%d.s' % (base, k[0] % 8)
        open(sfile, 'w', encoding='latin1').write(splice(ref_text, il_text, set(subset)))
        exe = '%s.t%d.exe' % (base, k[0] % 8)
        rc, o, e = sh(['gcc', '-no-pie', '-o', exe, sfile] + [gobj[g] for g in srcs if g != f], timeout=120)
        if rc != 0:
            raise RuntimeError('spliced unit does not link: ' + txt(e)[-400:])
        return not same(exe)
    try:
        if fails([]):
            return msg + ' (function-level search impossible: the gcc -O0 reference unit already differs)'
        if not fails(funcs):
            return msg + ' (function-level search inconclusive: all %d functions from IL inside the -O0 unit do not reproduce it)' % len(funcs)
        small = ddmin(funcs, fails)
    except RuntimeError as ex:
        return msg + ' (function-level search failed: %s)' % ex
    return msg + '; minimal set of its functions that must come from cproc\'s IL: %s (%d of %d functions, %d trial links, %.1f s)' % (
        ', '.join(small), len(small), len(funcs), k[0], time.time() - t0)
