/* C04 unit harness: #includes the snapshot's eval.c (so the static cast/unary/binary/istrue are
 * reachable) and drives them with the same line-oriented cases as the extracted Coq model.
 * Built with -I<snapshot>; linked against the snapshot's type.c, targ.c, util.c.
 *
 *   T <target>                          select the target (signedness of plain char)
 *   B <op> <lt> <t> <lhex> <rhex>       binary(expr of type t, op, l of type lt, r)
 *   U <lt> <t> <lhex>                   unary(expr of type t, TSUB, l of type lt)
 *   K <t> <hex>                         cast() of a constant of type t
 *   E <tree>                            eval() of an expression tree (prefix notation, see parse())
 * Output: `v <hex>` / `ok <tree>` / `stop diag|fatal|trap`.  Doubles travel as bit patterns; every NaN
 * is printed as 7ff8000000000000.  A child pointer that is not one of the nodes of the case prints as
 * `WILD` (eval stored a non-pointer into expr->u.binary.l). */
#include <setjmp.h>
#include <signal.h>
#include <stdbool.h>
#include <stdint.h>
#include <stdio.h>
#include <stdlib.h>
#include <string.h>

/* eval.c's calls of fatal()/error() are redirected so that they come back here */
#define fatal hfatal
#define error herror
#include "eval.c"
#undef fatal
#undef error

static sigjmp_buf stopjmp;
static const char *stopwhy;

void
hfatal(const char *fmt, ...)
{
	(void)fmt;
	stopwhy = "fatal";
	siglongjmp(stopjmp, 1);
}

void
herror(const struct location *loc, const char *fmt, ...)
{
	(void)loc;
	(void)fmt;
	stopwhy = "diag";
	siglongjmp(stopjmp, 1);
}

/* what eval.c needs from the rest of the compiler and the linked files need from token.c/scan.c */
struct token tok;

void
error(const struct location *loc, const char *fmt, ...)
{
	(void)loc;
	(void)fmt;
	stopwhy = "diag";
	siglongjmp(stopjmp, 1);
}

struct value *
mkglobal(struct decl *d)
{
	(void)d;
	return NULL;
}

void
emitdata(struct decl *d, struct init *init)
{
	(void)d;
	(void)init;
}

struct decl *
stringdecl(struct expr *e)
{
	(void)e;
	return NULL;
}

static void
onfpe(int sig)
{
	(void)sig;
	stopwhy = "trap";
	siglongjmp(stopjmp, 1);
}

static struct type ptrtype = {.kind = TYPEPOINTER, .prop = PROPSCALAR, .size = 8, .align = 8, .base = &typeint};

static struct {
	const char *name;
	struct type *type;
} types[] = {
	{"bool", &typebool}, {"char", &typechar}, {"schar", &typeschar}, {"uchar", &typeuchar},
	{"short", &typeshort}, {"ushort", &typeushort}, {"int", &typeint}, {"uint", &typeuint},
	{"long", &typelong}, {"ulong", &typeulong}, {"llong", &typellong}, {"ullong", &typeullong},
	{"float", &typefloat}, {"double", &typedouble}, {"ptr", &ptrtype}, {"void", &typevoid},
};

static struct {
	const char *name;
	enum tokenkind op;
} ops[] = {
	{"mul", TMUL}, {"div", TDIV}, {"mod", TMOD}, {"add", TADD}, {"sub", TSUB}, {"shl", TSHL}, {"shr", TSHR},
	{"and", TBAND}, {"or", TBOR}, {"xor", TXOR}, {"lt", TLESS}, {"gt", TGREATER}, {"le", TLEQ}, {"ge", TGEQ},
	{"eq", TEQL}, {"ne", TNEQ}, {"lor", TLOR}, {"land", TLAND},
};

static struct type *
gettype(const char *s)
{
	size_t i;

	for (i = 0; i < LEN(types); ++i) {
		if (strcmp(s, types[i].name) == 0)
			return types[i].type;
	}
	fprintf(stderr, "harness: unknown type %s\n", s);
	exit(3);
}

static enum tokenkind
getop(const char *s)
{
	size_t i;

	for (i = 0; i < LEN(ops); ++i) {
		if (strcmp(s, ops[i].name) == 0)
			return ops[i].op;
	}
	fprintf(stderr, "harness: unknown operator %s\n", s);
	exit(3);
}

static const char *
opname(enum tokenkind op)
{
	size_t i;

	for (i = 0; i < LEN(ops); ++i) {
		if (ops[i].op == op)
			return ops[i].name;
	}
	return "?op";
}

/* the attributes of the type that eval.c looks at */
static void
printtype(struct type *t)
{
	if (t->kind == TYPEBOOL)
		printf("b");
	else if (t->prop & PROPINT)
		printf("i%d%c", (int)t->size, t->u.basic.issigned ? 's' : 'u');
	else if (t->prop & PROPFLOAT)
		printf("f%d", (int)t->size);
	else if (t->kind == TYPEPOINTER)
		printf("p");
	else
		printf("o");
}

static unsigned long long
canon(struct type *t, unsigned long long u)
{
	if (t->prop & PROPFLOAT && (u & 0x7ff0000000000000) == 0x7ff0000000000000 && (u & 0xfffffffffffff) != 0)
		return 0x7ff8000000000000;
	return u;
}

static struct expr *nodes[4096];
static size_t nnodes;

static struct expr *
mknode(enum exprkind k, struct type *t)
{
	struct expr *e;

	if (nnodes == LEN(nodes)) {
		fprintf(stderr, "harness: tree too large\n");
		exit(3);
	}
	e = calloc(1, sizeof(*e));
	e->kind = k;
	e->type = t;
	nodes[nnodes++] = e;
	return e;
}

static bool
known(struct expr *e)
{
	size_t i;

	for (i = 0; i < nnodes; ++i) {
		if (nodes[i] == e)
			return true;
	}
	return false;
}

static char *
word(void)
{
	char *w = strtok(NULL, " \n");

	if (!w) {
		fprintf(stderr, "harness: truncated case\n");
		exit(3);
	}
	return w;
}

static struct decl *
mkd(enum declkind k, struct type *t, const char *name)
{
	struct decl *d = calloc(1, sizeof(*d));

	d->kind = k;
	d->type = t;
	d->name = strdup(name);
	return d;
}

/* tree := c T hex | n T hex | v T sym | a T sym | - T tree | k T tree | b op T tree tree | ? T tree tree tree */
static struct expr *
parse(void)
{
	char *w = word();
	struct type *t;
	struct expr *e;

	switch (w[0]) {
	case 'c':
		t = gettype(word());
		e = mknode(EXPRCONST, t);
		e->u.constant.u = strtoull(word(), NULL, 16);
		return e;
	case 'n':
		t = gettype(word());
		e = mknode(EXPRIDENT, t);
		e->u.ident.decl = mkd(DECLCONST, t, "enumerator");
		e->u.ident.decl->u.enumconst = strtoull(word(), NULL, 16);
		return e;
	case 'v':
		t = gettype(word());
		e = mknode(EXPRIDENT, t);
		e->lvalue = true;
		e->u.ident.decl = mkd(DECLOBJECT, t, word());
		return e;
	case 'a':
		t = gettype(word());
		e = mknode(EXPRUNARY, t);
		e->op = TBAND;
		e->base = mknode(EXPRIDENT, &typeint);
		e->base->lvalue = true;
		e->base->u.ident.decl = mkd(DECLOBJECT, &typeint, word());
		return e;
	case '-':
		t = gettype(word());
		e = mknode(EXPRUNARY, t);
		e->op = TSUB;
		e->base = parse();
		return e;
	case 'k':
		t = gettype(word());
		e = mknode(EXPRCAST, t);
		e->base = parse();
		return e;
	case 'b':
		w = word();
		t = gettype(word());
		e = mknode(EXPRBINARY, t);
		e->op = getop(w);
		e->u.binary.l = parse();
		e->u.binary.r = parse();
		return e;
	case '?':
		t = gettype(word());
		e = mknode(EXPRCOND, t);
		e->base = parse();
		e->u.cond.t = parse();
		e->u.cond.f = parse();
		return e;
	}
	fprintf(stderr, "harness: bad tree token %s\n", w);
	exit(3);
}

static void
print(struct expr *e)
{
	if (!known(e)) {
		printf(" WILD");
		return;
	}
	switch (e->kind) {
	case EXPRCONST:
		printf(" c ");
		printtype(e->type);
		printf(" %llx", canon(e->type, e->u.constant.u));
		break;
	case EXPRIDENT:
		if (e->u.ident.decl->kind == DECLCONST) {
			printf(" n ");
			printtype(e->type);
			printf(" %llx", e->u.ident.decl->u.enumconst);
		} else {
			printf(" v ");
			printtype(e->type);
			printf(" %s", e->u.ident.decl->name);
		}
		break;
	case EXPRUNARY:
		if (e->op == TBAND && known(e->base) && e->base->kind == EXPRIDENT) {
			printf(" a ");
			printtype(e->type);
			printf(" %s", e->base->u.ident.decl->name);
		} else {
			printf(" %s ", e->op == TSUB ? "-" : "?unary");
			printtype(e->type);
			print(e->base);
		}
		break;
	case EXPRCAST:
		printf(" k ");
		printtype(e->type);
		print(e->base);
		break;
	case EXPRBINARY:
		printf(" b %s ", opname(e->op));
		printtype(e->type);
		print(e->u.binary.l);
		print(e->u.binary.r);
		break;
	case EXPRCOND:
		printf(" ? ");
		printtype(e->type);
		print(e->base);
		print(e->u.cond.t);
		print(e->u.cond.f);
		break;
	default:
		printf(" ?kind%d", (int)e->kind);
	}
}

int
main(void)
{
	static char line[1 << 16];
	struct expr x, l, r, *e;
	enum tokenkind op;
	char *w;
	size_t i;

	argv0 = "harness";
	if (sizeof(long) != 8 || sizeof(unsigned long long) != 8 || sizeof(double) != 8) {
		fprintf(stderr, "harness: not an LP64 host\n");
		return 3;
	}
	signal(SIGFPE, onfpe);
	while (fgets(line, sizeof(line), stdin)) {
		w = strtok(line, " \n");
		if (!w)
			continue;
		if (sigsetjmp(stopjmp, 1)) {
			printf("stop %s\n", stopwhy);
			continue;
		}
		for (i = 0; i < nnodes; ++i)
			free(nodes[i]);
		nnodes = 0;
		memset(&x, 0, sizeof(x));
		memset(&l, 0, sizeof(l));
		memset(&r, 0, sizeof(r));
		switch (w[0]) {
		case 'T':
			targ = NULL;
			targinit(word());
			printf("T %d\n", (int)typechar.u.basic.issigned);
			break;
		case 'B':
			op = getop(word());
			l.kind = r.kind = EXPRCONST;
			l.type = gettype(word());
			r.type = l.type;
			x.type = gettype(word());
			l.u.constant.u = strtoull(word(), NULL, 16);
			r.u.constant.u = strtoull(word(), NULL, 16);
			binary(&x, op, &l, &r);
			printf("v %llx\n", canon(x.type, x.u.constant.u));
			break;
		case 'U':
			l.kind = EXPRCONST;
			l.type = gettype(word());
			x.type = gettype(word());
			l.u.constant.u = strtoull(word(), NULL, 16);
			unary(&x, TSUB, &l);
			printf("v %llx\n", canon(x.type, x.u.constant.u));
			break;
		case 'K':
			x.kind = EXPRCONST;
			x.type = gettype(word());
			x.u.constant.u = strtoull(word(), NULL, 16);
			cast(&x);
			printf("v %llx\n", canon(x.type, x.u.constant.u));
			break;
		case 'E':
			e = eval(parse());
			printf("ok");
			print(e);
			printf("\n");
			break;
		default:
			printf("? %s\n", w);
		}
	}
	return 0;
}
