/* C05 unit harness.  Includes the SNAPSHOT's expr.c (so the static inttype, mkbinaryexpr, mkexpr are in
 * reach) and is linked with the snapshot's other translation units.  It reads the same command lines as
 * ocaml/c05/driver.ml and prints the same answers, computed by the real typerank/typepromote/
 * typecommonreal/typehasint/typecompatible/typeadjust/inttype/mkbinaryexpr/exprassign.
 * error()/fatal() end in exit(): linked with -Wl,--wrap=exit, that becomes a longjmp ("none");
 * a failed assert raises SIGABRT, caught the same way. */
#include <setjmp.h>
#include <signal.h>
#include "expr.c"
#include <stdio.h>

static sigjmp_buf jb;
static volatile int armed;

void __real_exit(int);
void
__wrap_exit(int c)
{
	if (armed) {
		armed = 0;
		siglongjmp(jb, 1);
	}
	__real_exit(c);
}

static void
onabort(int sig)
{
	if (armed) {
		armed = 0;
		siglongjmp(jb, 2);
	}
	_exit(134);
}

static struct type *basics[] = {
	&typebool, &typechar, &typeschar, &typeuchar, &typeshort, &typeushort, &typeint, &typeuint,
	&typelong, &typeulong, &typellong, &typeullong, &typefloat, &typedouble, &typeldouble,
};
static const char *targname[] = {"x86_64-sysv", "aarch64", "riscv64"};

#define MAXID 64
static struct type *enums[MAXID][15], *structs[MAXID], *unions[MAXID];

static char *toks[4096];
static int ntok, pos;

static struct type *
parsetype(void)
{
	char *t;
	struct type *r, *b;
	struct decl *d, **end;
	int id, bi, q, v, n, i;
	unsigned long long len;

	if (pos >= ntok) {
		printf("! type expected\n");
		exit(2);
	}
	t = toks[pos++];
	switch (t[0]) {
	case 'V': return &typevoid;
	case 'N': return &typenullptr;
	case 'B': return basics[atoi(t + 1)];
	case 'E':
		sscanf(t + 1, "%d.%d", &id, &bi);
		if (!enums[id][bi]) {
			/* what tagspec does for `enum E : T { ... }` / after choosing the base */
			r = mktype(TYPEENUM, PROPSCALAR|PROPARITH|PROPREAL|PROPINT);
			r->base = basics[bi];
			r->size = r->base->size;
			r->align = r->base->align;
			r->u.basic.issigned = r->base->u.basic.issigned;
			enums[id][bi] = r;
		}
		/* typechar's signedness follows the target */
		enums[id][bi]->u.basic.issigned = enums[id][bi]->base->u.basic.issigned;
		return enums[id][bi];
	case 'S':
	case 'U':
		id = atoi(t + 1);
		{
			struct type **slot = t[0] == 'S' ? &structs[id] : &unions[id];
			if (!*slot) {
				r = mktype(t[0] == 'S' ? TYPESTRUCT : TYPEUNION, 0);
				r->size = 4;
				r->align = 4;
				r->u.structunion.tag = NULL;
				r->u.structunion.members = NULL;
				*slot = r;
			}
			return *slot;
		}
	case 'P':
		q = atoi(t + 1);
		b = parsetype();
		return mkpointertype(b, q);
	case 'A':
		q = atoi(t + 1);
		t = toks[pos++];
		if (t[0] == 'i') {
			b = parsetype();
			r = mkarraytype(b, q, 0);
		} else if (t[0] == 'n') {
			b = parsetype();
			r = mkarraytype(b, q, 1);   /* as primaryexpr does for a string literal: no length expression */
		} else {
			len = strtoull(t + 1, NULL, 10);
			b = parsetype();
			r = mkarraytype(b, q, len);
			r->u.array.length = mkconstexpr(&typeulong, len);
			r->incomplete = false;
		}
		return r;
	case 'F':
		q = atoi(t + 1);
		v = atoi(toks[pos++]);
		n = atoi(toks[pos++]);
		r = mktype(TYPEFUNC, 0);
		r->qual = q;
		r->base = parsetype();
		r->u.func.isvararg = v;
		r->u.func.params = NULL;
		r->u.func.nparam = n;
		end = &r->u.func.params;
		for (i = 0; i < n; ++i) {
			d = mkdecl(NULL, DECLOBJECT, parsetype(), QUALNONE, LINKNONE);
			*end = d;
			end = &d->next;
		}
		return r;
	}
	printf("! bad type token %s\n", t);
	exit(2);
}

static void
showtype(struct type *t)
{
	int i, j, n;
	struct decl *d;

	if (!t) {
		printf("null");
		return;
	}
	if (t == &typevoid) {
		printf("V");
		return;
	}
	if (t == &typenullptr) {
		printf("N");
		return;
	}
	for (i = 0; i < 15; ++i) {
		if (t == basics[i]) {
			printf("B%d", i);
			return;
		}
	}
	switch (t->kind) {
	case TYPEENUM:
		for (i = 0; i < MAXID; ++i) {
			for (j = 0; j < 15; ++j) {
				if (enums[i][j] == t) {
					printf("E%d.%d", i, j);
					return;
				}
			}
		}
		break;
	case TYPESTRUCT:
	case TYPEUNION:
		for (i = 0; i < MAXID; ++i) {
			if ((t->kind == TYPESTRUCT ? structs[i] : unions[i]) == t) {
				printf("%c%d", t->kind == TYPESTRUCT ? 'S' : 'U', i);
				return;
			}
		}
		break;
	case TYPEPOINTER:
		printf("P%d ", (int)t->qual);
		showtype(t->base);
		return;
	case TYPEARRAY:
		printf("A%d ", (int)t->qual);
		if (t->incomplete)
			printf("i ");
		else if (t->u.array.length && t->u.array.length->kind == EXPRCONST)
			printf("c%llu ", t->u.array.length->u.constant.u);
		else
			printf("n ");
		showtype(t->base);
		return;
	case TYPEFUNC:
		n = 0;
		for (d = t->u.func.params; d; d = d->next)
			++n;
		printf("F%d %d %d ", (int)t->qual, (int)t->u.func.isvararg, n);
		showtype(t->base);
		for (d = t->u.func.params; d; d = d->next) {
			printf(" ");
			showtype(d->type);
		}
		return;
	}
	printf("?kind%d", (int)t->kind);
}

static void
settarg(const char *s)
{
	targ = NULL;
	targinit(targname[atoi(s)]);
}

static struct expr *
operand(struct type *t, const char *w, const char *c)
{
	struct expr *e;
	unsigned width = strtoul(w, NULL, 10);

	if (strcmp(c, "-") != 0)
		return mkconstexpr(t, strtoull(c, NULL, 10));
	if (width != -1u) {
		e = mkexpr(EXPRBITFIELD, t, NULL);
		e->u.bitfield.bits.before = t->size * 8 - width;
		e->u.bitfield.bits.after = 0;
		return e;
	}
	e = mkexpr(EXPRCALL, t, NULL);    /* any kind eval() leaves alone */
	e->u.call.args = NULL;
	e->u.call.nargs = 0;
	return e;
}

static const enum tokenkind binops[] = {
	TLOR, TLAND, TEQL, TNEQ, TLESS, TGREATER, TLEQ, TGEQ, TBOR, TXOR, TBAND, TADD, TSUB, TMOD, TMUL, TDIV, TSHL, TSHR,
};

int
main(void)
{
	static char line[1 << 16], sfx[64];
	struct type *a, *b, *r;
	struct expr *l, *e;
	struct location loc = {"harness", 1, 1};
	enum typequal tq;
	char *p;
	int why;
	bool res;

	argv0 = "harness";
	signal(SIGABRT, onabort);
	if (!freopen("/dev/null", "w", stderr))
		return 2;
	tok.loc = loc;
	tok.lit = "";
	targinit(targname[0]);
	while (fgets(line, sizeof line, stdin)) {
		line[strcspn(line, "\n")] = 0;
		ntok = 0;
		for (p = strtok(line, " "); p && ntok < 4096; p = strtok(NULL, " "))
			toks[ntok++] = p;
		if (ntok == 0)
			continue;
		pos = 1;
		/* re-arm the abort handler (it is left by siglongjmp with the signal blocked otherwise: sigsetjmp(…, 1)) */
		if ((why = sigsetjmp(jb, 1)) != 0) {
			printf("%s\n", strcmp(toks[0], "assign") == 0 ? "0" : "none");
			continue;
		}
		if (strcmp(toks[0], "promote") == 0) {
			settarg(toks[1]);
			pos = 3;
			a = parsetype();
			armed = 1;
			r = typepromote(a, strtoul(toks[2], NULL, 10));
			armed = 0;
			showtype(r);
			printf("\n");
		} else if (strcmp(toks[0], "common") == 0) {
			settarg(toks[1]);
			pos = 4;
			a = parsetype();
			b = parsetype();
			armed = 1;
			r = typecommonreal(a, strtoul(toks[2], NULL, 10), b, strtoul(toks[3], NULL, 10));
			armed = 0;
			showtype(r);
			printf("\n");
		} else if (strcmp(toks[0], "hasint") == 0) {
			settarg(toks[1]);
			pos = 4;
			a = parsetype();
			armed = 1;
			res = typehasint(a, strtoull(toks[2], NULL, 10), atoi(toks[3]));
			armed = 0;
			printf("%d\n", res);
		} else if (strcmp(toks[0], "compat") == 0) {
			a = parsetype();
			b = parsetype();
			armed = 1;
			res = typecompatible(a, b);
			armed = 0;
			printf("%d\n", res);
		} else if (strcmp(toks[0], "inttype") == 0) {
			settarg(toks[1]);
			snprintf(sfx, sizeof sfx, "%s", strcmp(toks[4], "-") == 0 ? "" : toks[4]);
			armed = 1;
			r = inttype(strtoull(toks[2], NULL, 10), atoi(toks[3]), sfx);
			armed = 0;
			showtype(r);
			printf("\n");
		} else if (strcmp(toks[0], "binop") == 0) {
			settarg(toks[1]);
			pos = 7;
			a = parsetype();
			b = parsetype();
			l = operand(a, toks[3], toks[4]);
			e = operand(b, toks[5], toks[6]);
			armed = 1;
			e = mkbinaryexpr(&loc, binops[atoi(toks[2])], l, e);
			armed = 0;
			showtype(e->type);
			printf("\n");
		} else if (strcmp(toks[0], "assign") == 0) {
			pos = 2;
			a = parsetype();
			b = parsetype();
			l = operand(a, "4294967295", toks[1]);
			armed = 1;
			exprassign(l, b);
			armed = 0;
			printf("1\n");
		} else if (strcmp(toks[0], "adjust") == 0) {
			pos = 3;
			a = parsetype();
			tq = atoi(toks[1]);
			if (a->kind == TYPEARRAY)
				a->u.array.ptrqual = atoi(toks[2]);
			armed = 1;
			r = typeadjust(a, &tq);
			armed = 0;
			showtype(r);
			printf(" / %d\n", (int)tq);
		} else {
			printf("? %s\n", toks[0]);
		}
		fflush(stdout);
	}
	return 0;
}
