/* C12 harness: runs the snapshot's own scanner (scan.c) over a file WITHOUT the preprocessor and prints the
   raw tokens, one per line: kind <TAB> space <TAB> spelling   (EOF token not printed).
   With argument "-K" prints the enum values the Coq model relies on.
   Built against the snapshot: scan.c token.c util.c (+ cc.h). */
#include <stdbool.h>
#include <stdio.h>
#include <stdlib.h>
#include <string.h>
#include "util.h"
#include "cc.h"

enum ppflags ppflags;

int
main(int argc, char *argv[])
{
	struct token t;

	argv0 = "harness";
	if (argc == 2 && strcmp(argv[1], "-K") == 0) {
#define K(x) printf("K %s %d\n", #x, (int)x)
		K(TEOF); K(TNEWLINE); K(TIDENT); K(TNUMBER); K(TCHARCONST); K(TSTRINGLIT); K(TLPAREN); K(TRPAREN);
		K(TCOMMA); K(THASH); K(THASHHASH); K(TELLIPSIS);
		return 0;
	}
	if (argc != 2)
		return 2;
	scanfrom(argv[1], NULL);
	scanopen();
	for (;;) {
		scan(&t);
		if (t.kind == TEOF)
			break;
		printf("%d\t%d\t%s\n", (int)t.kind, (int)t.space, t.lit ? t.lit : tokstr[t.kind] ? tokstr[t.kind] : "");
	}
	return 0;
}
