/* C14 unit harness: drives the snapshot's utf.c (utf8enc, utf8dec, utf16enc) with the same sweep
 * commands as ocaml/c14/driver.ml and prints the same checksum lines; in addition every result is
 * compared with a reference implementation of RFC 3629 / UTF-16 written independently below, and
 * disagreements are printed as "V ..." lines (these are violations of the specification).
 * Built with -Iharness/c14/inc so that <assert.h> is the hook version. */
#include <setjmp.h>
#include <stddef.h>
#include <stdint.h>
#include <stdio.h>
#include <stdlib.h>
#include <string.h>

static jmp_buf assert_jmp;
static int assert_armed;
void
c14_assert_failed(const char *file, int line)
{
	if (assert_armed)
		longjmp(assert_jmp, 1);
	fprintf(stderr, "assertion failed at %s:%d outside a guarded call\n", file, line);
	exit(3);
}

#include "utf.c"

#define MASK60 ((1ull << 60) - 1)
static unsigned long long
mix(unsigned long long h, unsigned long long v)
{
	return (h * 1000003ull + v + 1) & MASK60;
}

static int nviol;
static void
viol(const char *fmt, ...);
#include <stdarg.h>
static void
viol(const char *fmt, ...)
{
	va_list ap;
	if (++nviol > 40)
		return;
	va_start(ap, fmt);
	fputs("V ", stdout);
	vprintf(fmt, ap);
	putchar('\n');
	va_end(ap);
}

/* ---- reference: RFC 3629 section 4 ABNF + section 3 table; UTF-16 per Unicode D91 ---------- */
static int
tailb(unsigned b)
{
	return b >= 0x80 && b <= 0xBF;
}

/* length of the well-formed character at s (avail bytes available), code point in *c; -1 otherwise */
static int
ref_dec(const unsigned char *s, size_t avail, unsigned long *c)
{
	unsigned a = s[0];
	if (avail < 1)
		return -1;
	if (a <= 0x7F) {
		*c = a;
		return 1;
	}
	if (a >= 0xC2 && a <= 0xDF) {
		if (avail < 2 || !tailb(s[1]))
			return -1;
		*c = (a - 0xC0) * 64ul + (s[1] - 0x80);
		return 2;
	}
	if (a >= 0xE0 && a <= 0xEF) {
		unsigned lo = a == 0xE0 ? 0xA0 : 0x80, hi = a == 0xED ? 0x9F : 0xBF;
		if (avail < 2 || s[1] < lo || s[1] > hi)
			return -1;
		if (avail < 3 || !tailb(s[2]))
			return -1;
		*c = (a - 0xE0) * 4096ul + (s[1] - 0x80) * 64ul + (s[2] - 0x80);
		return 3;
	}
	if (a >= 0xF0 && a <= 0xF4) {
		unsigned lo = a == 0xF0 ? 0x90 : 0x80, hi = a == 0xF4 ? 0x8F : 0xBF;
		if (avail < 2 || s[1] < lo || s[1] > hi)
			return -1;
		if (avail < 3 || !tailb(s[2]))
			return -1;
		if (avail < 4 || !tailb(s[3]))
			return -1;
		*c = (a - 0xF0) * 262144ul + (s[1] - 0x80) * 4096ul + (s[2] - 0x80) * 64ul + (s[3] - 0x80);
		return 4;
	}
	return -1;
}

static int
ref_enc8(unsigned long c, unsigned char *o)
{
	if (c < 0x80) {
		o[0] = c;
		return 1;
	}
	if (c < 0x800) {
		o[0] = 0xC0 + c / 64;
		o[1] = 0x80 + c % 64;
		return 2;
	}
	if (c < 0x10000) {
		o[0] = 0xE0 + c / 4096;
		o[1] = 0x80 + c / 64 % 64;
		o[2] = 0x80 + c % 64;
		return 3;
	}
	o[0] = 0xF0 + c / 262144;
	o[1] = 0x80 + c / 4096 % 64;
	o[2] = 0x80 + c / 64 % 64;
	o[3] = 0x80 + c % 64;
	return 4;
}

static int
ref_enc16(unsigned long c, unsigned *o)
{
	if (c < 0x10000) {
		o[0] = c;
		return 1;
	}
	o[0] = 0xD800 + (c - 0x10000) / 1024;
	o[1] = 0xDC00 + (c - 0x10000) % 1024;
	return 2;
}

static int
is_scalar(unsigned long c)
{
	return c < 0xD800 || (c >= 0xE000 && c < 0x110000);
}

/* ---- guarded calls of the real functions ------------------------------------------------- */
/* returns length, or -2 when assert(0) was reached */
static int
real_enc8(unsigned long c, unsigned char *o)
{
	int r;
	assert_armed = 1;
	if (setjmp(assert_jmp)) {
		assert_armed = 0;
		return -2;
	}
	r = utf8enc(o, c);
	assert_armed = 0;
	return r;
}

static int
real_enc16(unsigned long c, uint_least16_t *o)
{
	int r;
	assert_armed = 1;
	if (setjmp(assert_jmp)) {
		assert_armed = 0;
		return -2;
	}
	r = utf16enc(o, c);
	assert_armed = 0;
	return r;
}

static void
hexs(char *out, const unsigned char *s, size_t n)
{
	size_t i;
	for (i = 0; i < n; ++i)
		sprintf(out + 2 * i, "%02x", s[i]);
	out[2 * n] = 0;
}

/* decode with the real function, fold into the checksum, compare with the reference.
 * s has `len` valid bytes (so that the harness never lets the real code read outside: callers
 * always append a non-continuation byte when n may exceed len). */
static unsigned long long
dec_case(unsigned long long h, const unsigned char *s, size_t len, size_t n)
{
	uint_least32_t c = 0xdeadbeef;
	unsigned long rc = 0;
	size_t r = utf8dec(&c, s, n);
	int rr = ref_dec(s, n < len ? n : len, &rc);
	char hx[64];

	if (r == (size_t)-1) {
		h = mix(h, 0x7fffff1);
		if (rr != -1) {
			hexs(hx, s, len);
			viol("D %s %zu real=invalid spec=ok:%lu:%d", hx, n, rc, rr);
		}
	} else {
		h = mix(mix(h, c), r);
		if (rr == -1 || (size_t)rr != r || rc != c) {
			hexs(hx, s, len);
			if (rr == -1)
				viol("D %s %zu real=ok:%lu:%zu spec=invalid", hx, n, (unsigned long)c, r);
			else
				viol("D %s %zu real=ok:%lu:%zu spec=ok:%lu:%d", hx, n, (unsigned long)c, r, rc, rr);
		}
	}
	return h;
}

static const unsigned char cand[] = {0x00, 0x22, 0x27, 0x5c, 0x7f, 0x80, 0x81, 0x8f, 0x90, 0x9f, 0xa0, 0xaf, 0xbf, 0xc0, 0xc1, 0xc2, 0xdf, 0xe0, 0xed, 0xef, 0xf0, 0xf4, 0xf5, 0xff};
static const unsigned char setv[] = {0x00, 0x22, 0x7f, 0x80, 0xbf, 0xc0, 0xff};
#define LEN(a) (sizeof(a) / sizeof((a)[0]))

static void
cmd_E(unsigned long lo, unsigned long hi)
{
	unsigned long long h = 0;
	unsigned long c, start = lo;
	unsigned char b[8], rb[8];
	uint_least16_t u[4];
	unsigned ru[2];
	int n, i, rn;

	for (c = lo; c < hi; ++c) {
		memset(b, 0xAA, sizeof b);
		n = real_enc8(c, b);
		if (n == -2) {
			h = mix(h, 0x7fffff3);
			if (is_scalar(c))
				viol("E %lu utf8enc reaches assert(0) on a scalar value", c);
		} else {
			h = mix(h, n);
			for (i = 0; i < n; ++i)
				h = mix(h, b[i]);
			if (!is_scalar(c)) {
				viol("E %lu utf8enc encodes a non-scalar value (%d bytes)", c, n);
			} else {
				rn = ref_enc8(c, rb);
				if (rn != n || memcmp(rb, b, n) != 0)
					viol("E %lu utf8enc gives %d bytes %02x %02x %02x %02x, RFC 3629 gives %d bytes %02x %02x %02x %02x", c, n, b[0], b[1], b[2], b[3], rn, rb[0], rb[1], rb[2], rb[3]);
			}
			if (b[n] != 0xAA)
				viol("E %lu utf8enc wrote past the %d bytes it reported", c, n);
		}
		u[0] = u[1] = u[2] = 0xAAAA;
		rn = real_enc16(c, u);
		if (rn == -2) {
			h = mix(h, 0x7fffff3);
			if (is_scalar(c))
				viol("E %lu utf16enc reaches assert(0) on a scalar value", c);
		} else {
			h = mix(h, rn);
			for (i = 0; i < rn; ++i)
				h = mix(h, u[i]);
			if (!is_scalar(c)) {
				viol("E %lu utf16enc encodes a non-scalar value", c);
			} else {
				int k = ref_enc16(c, ru);
				if (k != rn || ru[0] != u[0] || (k == 2 && ru[1] != u[1]))
					viol("E %lu utf16enc gives %d units %u %u, UTF-16 is %d units %u %u", c, rn, (unsigned)u[0], (unsigned)u[1], k, ru[0], k == 2 ? ru[1] : 0);
			}
			if (u[rn] != 0xAAAA)
				viol("E %lu utf16enc wrote past the %d units it reported", c, rn);
		}
		if (n != -2) {
			b[n] = 0x22;
			h = dec_case(h, b, n + 1, 4);
		}
		if (((c + 1) & 4095) == 0 || c == hi - 1) {
			printf("E %lu %lu %llu\n", start, c + 1, h);
			h = 0;
			start = c + 1;
		}
	}
}

static void
cmd_L(unsigned b0)
{
	size_t i, j, k;
	unsigned char s[5];
	unsigned long long h;

	for (i = 0; i < LEN(cand); ++i) {
		h = 0;
		for (j = 0; j < LEN(cand); ++j) {
			for (k = 0; k < LEN(cand); ++k) {
				s[0] = b0, s[1] = cand[i], s[2] = cand[j], s[3] = cand[k], s[4] = 0;
				h = dec_case(h, s, 5, 4);
				h = dec_case(h, s, 5, 2);
			}
		}
		printf("L %u %u %llu\n", b0, (unsigned)cand[i], h);
	}
}

static void
cmd_C(unsigned long lo, unsigned long hi, unsigned long step)
{
	unsigned long long h = 0, cnt = 0;
	unsigned long c;
	unsigned char a[4], t[8];
	int len, i, k;
	size_t j;

	for (c = lo; c < hi; c += step) {
		if (!is_scalar(c))
			continue;
		len = real_enc8(c, a);
		if (len == -2) {
			h = mix(h, 0x7fffff3);
			continue;
		}
		for (i = 0; i < len; ++i) {
			for (k = 0; k < 8; ++k) {
				memcpy(t, a, len);
				t[i] = a[i] ^ (1u << k);
				t[len] = 0x22, t[len + 1] = 0;
				++cnt;
				h = dec_case(h, t, len + 2, 4);
			}
			for (j = 0; j < LEN(setv); ++j) {
				if (setv[j] == a[i])
					continue;
				memcpy(t, a, len);
				t[i] = setv[j];
				t[len] = 0x22, t[len + 1] = 0;
				++cnt;
				h = dec_case(h, t, len + 2, 4);
			}
		}
		for (k = 1; k < len; ++k) {
			memcpy(t, a, k);
			t[k] = 0x22, t[k + 1] = 0;
			++cnt;
			h = dec_case(h, t, k + 2, 4);
			t[k] = 0;
			++cnt;
			h = dec_case(h, t, k + 1, 4);
			++cnt;
			h = dec_case(h, t, k, k);
		}
	}
	printf("C %lu %lu %lu %llu %llu\n", lo, hi, step, cnt, h);
}

int
main(void)
{
	static char line[1 << 12], hx[1 << 11];
	unsigned long a, b, c;
	unsigned char s[1 << 10];
	size_t n, len, i;
	unsigned x;

	while (fgets(line, sizeof line, stdin)) {
		line[strcspn(line, "\n")] = 0;
		if (sscanf(line, "E %lu %lu", &a, &b) == 2) {
			cmd_E(a, b);
		} else if (sscanf(line, "L %lu", &a) == 1) {
			cmd_L(a);
		} else if (sscanf(line, "C %lu %lu %lu", &a, &b, &c) == 3) {
			cmd_C(a, b, c);
		} else if (sscanf(line, "D %2047s %zu", hx, &n) == 2) {
			uint_least32_t cp = 0;
			size_t r;
			len = strlen(hx) / 2;
			for (i = 0; i < len; ++i) {
				sscanf(hx + 2 * i, "%2x", &x);
				s[i] = x;
			}
			s[len] = 0;
			/* refuse to let the real code read outside the buffer: it would be this harness's fault */
			r = utf8dec(&cp, s, n);
			if (r == (size_t)-1)
				printf("D invalid\n");
			else
				printf("D ok %lu %zu\n", (unsigned long)cp, r);
		} else if (sscanf(line, "e %lu", &a) == 1) {
			unsigned char o[8];
			uint_least16_t u[4];
			int k = real_enc8(a, o), m, q;
			if (k == -2)
				printf("e assert |");
			else {
				printf("e");
				for (q = 0; q < k; ++q)
					printf(" %u", o[q]);
				printf(" |");
			}
			m = real_enc16(a, u);
			if (m == -2)
				printf(" assert\n");
			else {
				for (q = 0; q < m; ++q)
					printf(" %u", (unsigned)u[q]);
				printf("\n");
			}
		} else if (line[0]) {
			printf("? %s\n", line);
		}
	}
	if (nviol > 40)
		printf("V ... %d disagreements with the reference in total\n", nviol);
	return 0;
}
