/* C14 harness: replaces <assert.h> while compiling the snapshot's utf.c so that a failing
 * assert(0) is observed (longjmp back into the harness) instead of aborting the process. */
#undef assert
void c14_assert_failed(const char *, int);
#define assert(x) ((x) ? (void)0 : c14_assert_failed(__FILE__, __LINE__))
