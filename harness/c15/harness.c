/* C15 unit harness: drives the snapshot's tree.c (treeinsert/balance/rot) with the same key
 * sequences as the extracted Coq model and prints the same observations:
 *   R          start a new (empty) tree
 *   I <key>    treeinsert(&root, key, sz); prints "<new> |<preorder dump>"
 *   i <key>    the same, prints only "<new>"
 * dump = " key:storedheight" per node, " -" per NULL child (shape- and height-exact). */
#include <stdbool.h>
#include <stddef.h>
#include <stdio.h>
#include <stdlib.h>
#include <string.h>
#include "util.h"

struct node {
	struct treenode node;
	long payload;
};

static char *out;
static size_t outlen, outcap;

static void
put(const char *s, size_t n)
{
	if (outlen + n + 1 > outcap) {
		outcap = (outcap + n + 1) * 2;
		out = realloc(out, outcap);
		if (!out)
			abort();
	}
	memcpy(out + outlen, s, n);
	outlen += n;
}

static void
dump(struct treenode *n)
{
	char buf[64];
	int l;

	if (!n) {
		put(" -", 2);
		return;
	}
	l = snprintf(buf, sizeof buf, " %llu:%d", n->key, n->height);
	put(buf, l);
	dump(n->child[0]);
	dump(n->child[1]);
}

int
main(void)
{
	static char line[256];
	void *root = NULL;
	struct treenode *n;
	unsigned long long key;
	char buf[16];

	argv0 = "harness";
	while (fgets(line, sizeof line, stdin)) {
		if (line[0] == 'R') {
			root = NULL;  /* nodes are leaked on purpose: the tree has no delete operation */
		} else if ((line[0] == 'I' || line[0] == 'i') && line[1] == ' ') {
			key = strtoull(line + 2, NULL, 10);
			n = treeinsert(&root, key, sizeof(struct node));
			if (!n || n->key != key) {
				put("badnode\n", 8);
				continue;
			}
			if (line[0] == 'i') {
				put(n->new ? "1\n" : "0\n", 2);
				continue;
			}
			put(buf, snprintf(buf, sizeof buf, "%d |", n->new ? 1 : 0));
			dump(root);
			put("\n", 1);
			if (outlen > (1 << 20)) {
				fwrite(out, 1, outlen, stdout);
				outlen = 0;
			}
		}
	}
	fwrite(out, 1, outlen, stdout);
	return 0;
}
