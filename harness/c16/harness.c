/* C16 unit harness: drives /repo's map.c and scope.c with the same operation histories as the
 * extracted Coq model and prints the same observations (slot-exact dumps). */
#include <stdbool.h>
#include <stdint.h>
#include <stdio.h>
#include <stdlib.h>
#include <string.h>
#include "util.h"
#include "cc.h"

const struct target *targ;

static char *
unhex(const char *s, size_t *n)
{
	size_t l = strlen(s) / 2, i;
	char *b = malloc(l + 1);
	unsigned x;
	for (i = 0; i < l; ++i) {
		sscanf(s + 2 * i, "%2x", &x);
		b[i] = x;
	}
	b[l] = 0;
	*n = l;
	return b;
}

int
main(void)
{
	static char line[1 << 16], a[1 << 16];
	struct map m;
	struct mapkey k;
	struct scope *s = NULL;
	bool sfail = false;
	unsigned long v;
	int r;
	size_t n, i, j;
	char *key;

	argv0 = "harness";
	while (fgets(line, sizeof line, stdin)) {
		line[strcspn(line, "\n")] = 0;
		if (sscanf(line, "M %lu", &v) == 1) {
			mapinit(&m, v);
		} else if (sscanf(line, "P %s %lu", a, &v) == 2 || (line[0] == 'P' && line[1] == ' ' && line[2] == ' ' && sscanf(line, "P  %lu", &v) == 1 && (a[0] = 0, 1))) {
			key = unhex(a, &n);
			mapkey(&k, key, n);
			*mapput(&m, &k) = (void *)(uintptr_t)v;
		} else if (line[0] == 'T' && line[1] == ' ') {
			key = unhex(line + 2, &n);
			mapkey(&k, key, n);
			mapput(&m, &k);
		} else if (line[0] == 'G' && line[1] == ' ') {
			key = unhex(line + 2, &n);
			mapkey(&k, key, n);
			printf("G %lu\n", (unsigned long)(uintptr_t)mapget(&m, &k));
			free(key);
		} else if (!strcmp(line, "D")) {
			printf("D %zu %zu", m.len, m.cap);
			for (i = 0; i < m.cap; ++i) {
				if (!m.keys[i].str)
					continue;
				printf(" %zu:", i);
				for (j = 0; j < m.keys[i].len; ++j)
					printf("%02x", ((unsigned char *)m.keys[i].str)[j]);
				printf(":%lu", (unsigned long)(uintptr_t)m.vals[i]);
			}
			putchar('\n');
		} else if (!strcmp(line, "S")) {
			s = calloc(1, sizeof(*s));
			sfail = false;
		} else if (!strcmp(line, "+")) {
			if (!sfail)
				s = mkscope(s);
		} else if (!strcmp(line, "-")) {
			if (!sfail) {
				if (!s->parent)
					sfail = true;  /* the file scope is never deleted */
				else
					s = delscope(s);
			}
		} else if (sscanf(line, "d %s %lu", a, &v) == 2) {
			if (!sfail) {
				struct decl *d = calloc(1, sizeof(*d));
				d->name = unhex(a, &n);
				d->u.enumconst = v;
				/* the decl pointer is the table value; v is recovered through it */
				if (v == 0) {
					/* a NULL binding: scopeputdecl cannot express it; store directly */
					mapkey(&k, d->name, n);
					if (!s->decls.len)
						mapinit(&s->decls, 32);
					*mapput(&s->decls, &k) = NULL;
				} else {
					scopeputdecl(s, d);
				}
			}
		} else if (sscanf(line, "t %s %lu", a, &v) == 2) {
			if (!sfail)
				scopeputtag(s, unhex(a, &n), (struct type *)(uintptr_t)v);
		} else if (sscanf(line, "gd %s %d", a, &r) == 2) {
			if (sfail) {
				puts("g fail");
			} else {
				struct decl *d = scopegetdecl(s, unhex(a, &n), r);
				printf("g %llu\n", d ? d->u.enumconst : 0ull);
			}
		} else if (sscanf(line, "gt %s %d", a, &r) == 2) {
			if (sfail)
				puts("g fail");
			else
				printf("g %lu\n", (unsigned long)(uintptr_t)scopegettag(s, unhex(a, &n), r));
		} else if (line[0]) {
			printf("? %s\n", line);
		}
	}
	return 0;
}
