/* Stub tool used by the C17/C18 checks in place of cpp, cproc-qbe, qbe, as and ld.
 *
 * One binary, installed under the names pp-stub, cproc-qbe, qbe-stub, as-stub, ld-stub.
 * Every invocation
 *   - claims the next free record $STUB_DIR/<id>.<k>.log (id in pp cc cg as ld; k = 0,1,...) and
 *     writes its pid, its argv (hex, one word per argument) and what happens to it;
 *   - reads standard input to EOF (unless told to die first);
 *   - produces   <everything read from stdin> ++ "<id> <k> <argv in hex>\n"   on the file named after
 *     "-o" (or on standard output): the final output of a pipeline therefore lists, in order, every tool
 *     the data went through, with the arguments each was given (provenance chain);
 *   - ld additionally copies in the contents of every /tmp/cproc-* argument (the temporary objects
 *     exist and hold the chain of the pipeline that made them at the time the linker runs).
 * Injected behaviour (C18):  $STUB_B_<id>_<k> = "<when>,<how>,<delay_ms>"
 *   when: before (die before reading) | half (die after writing half of the output) | finish (write
 *         everything, close the output, then wait delay_ms and terminate)
 *   how:  exit0 | exit1 | segv | kill | term | hup
 * SIGTERM is logged ("term") and then takes its default action.
 */
#define _POSIX_C_SOURCE 200809L
#include <errno.h>
#include <fcntl.h>
#include <signal.h>
#include <stdio.h>
#include <stdlib.h>
#include <string.h>
#include <sys/resource.h>
#include <time.h>
#include <unistd.h>

static int logfd = -1;

static void
logs(const char *s)
{
	if (logfd >= 0)
		(void)!write(logfd, s, strlen(s));
}

static void
onterm(int sig)
{
	logs("term\n");
	signal(SIGTERM, SIG_DFL);
	raise(SIGTERM);
}

static void
msleep(long ms)
{
	struct timespec ts = {ms / 1000, (ms % 1000) * 1000000L};

	while (ms > 0 && nanosleep(&ts, &ts) < 0 && errno == EINTR)
		;
}

static void
die(const char *how)
{
	logs("end\n");
	if (strcmp(how, "exit1") == 0)
		_exit(1);
	if (strcmp(how, "segv") == 0) {
		signal(SIGSEGV, SIG_DFL);
		raise(SIGSEGV);
	}
	if (strcmp(how, "kill") == 0)
		raise(SIGKILL);
	if (strcmp(how, "term") == 0) {
		/* terminated from outside by the signal the driver itself uses */
		signal(SIGTERM, SIG_DFL);
		raise(SIGTERM);
	}
	if (strcmp(how, "pipe") == 0) {
		/* what happens to a stage whose reader went away */
		signal(SIGPIPE, SIG_DFL);
		raise(SIGPIPE);
	}
	if (strcmp(how, "hup") == 0) {
		signal(SIGHUP, SIG_DFL);
		raise(SIGHUP);
	}
	_exit(0);
}

static void
hexarg(char *dst, const char *s)
{
	static const char d[] = "0123456789abcdef";

	*dst++ = 'x';
	for (; *s; ++s) {
		*dst++ = d[(unsigned char)*s >> 4];
		*dst++ = d[(unsigned char)*s & 15];
	}
	*dst = 0;
}

static void
writeall(int fd, const char *p, size_t n)
{
	ssize_t r;

	while (n > 0) {
		r = write(fd, p, n);
		if (r < 0) {
			if (errno == EINTR)
				continue;
			logs("writeerr\n");
			return;
		}
		p += r, n -= r;
	}
}

int
main(int argc, char *argv[])
{
	const char *dir = getenv("STUB_DIR"), *base, *id, *out = NULL, *beh;
	char path[4096], when[16] = "finish", how[16] = "exit0", var[64], *buf, *rec, *p;
	long delay = 0;
	size_t len = 0, cap = 1 << 16, reclen, total;
	ssize_t r;
	int i, k, fd, ofd;
	struct rlimit rl = {0, 0};

	setrlimit(RLIMIT_CORE, &rl);
	base = strrchr(argv[0], '/');
	base = base ? base + 1 : argv[0];
	if (strcmp(base, "pp-stub") == 0) id = "pp";
	else if (strcmp(base, "cproc-qbe") == 0) id = "cc";
	else if (strcmp(base, "qbe-stub") == 0) id = "cg";
	else if (strcmp(base, "as-stub") == 0) id = "as";
	else if (strcmp(base, "ld-stub") == 0) id = "ld";
	else id = "unknown";
	if (!dir)
		return 111;
	for (k = 0; k < 1000; ++k) {
		snprintf(path, sizeof(path), "%s/%s.%d.log", dir, id, k);
		logfd = open(path, O_WRONLY | O_CREAT | O_EXCL | O_APPEND | O_CLOEXEC, 0666);
		if (logfd >= 0 || errno != EEXIST)
			break;
	}
	if (logfd < 0)
		return 112;
	snprintf(path, sizeof(path), "pid %ld\n", (long)getpid());
	logs(path);
	signal(SIGTERM, onterm);

	reclen = 32;
	for (i = 0; i < argc; ++i)
		reclen += 2 * strlen(argv[i]) + 3;
	rec = malloc(reclen);
	p = rec + sprintf(rec, "%s %d", id, k);
	for (i = 0; i < argc; ++i) {
		*p++ = ' ';
		hexarg(p, argv[i]);
		p += strlen(p);
	}
	*p++ = '\n';
	*p = 0;
	logs("argv ");
	logs(rec);

	snprintf(var, sizeof(var), "STUB_B_%s_%d", id, k);
	beh = getenv(var);
	if (beh)
		sscanf(beh, "%15[a-z0-9],%15[a-z0-9],%ld", when, how, &delay);
	if (strcmp(when, "before") == 0) {
		logs("before\n");
		msleep(delay);
		die(how);
	}

	buf = malloc(cap);
	for (;;) {
		if (len == cap)
			buf = realloc(buf, cap *= 2);
		r = read(0, buf + len, cap - len);
		if (r < 0 && errno == EINTR)
			continue;
		if (r <= 0)
			break;
		len += r;
	}
	if (r < 0)
		logs("stdin-error\n");	/* e.g. EBADF: descriptor 0 is closed or not readable */
	snprintf(path, sizeof(path), "stdin %zu\n", len);
	logs(path);

	for (i = 1; i + 1 < argc; ++i) {
		if (strcmp(argv[i], "-o") == 0) {
			out = argv[i + 1];
			break;
		}
	}
	if (strcmp(id, "ld") == 0) {
		for (i = 1; i < argc; ++i) {
			if (strncmp(argv[i], "/tmp/cproc-", 11) != 0 || (out && argv[i] == out))
				continue;
			fd = open(argv[i], O_RDONLY);
			snprintf(path, sizeof(path), "<<temp %s %s\n", argv[i], fd < 0 ? "MISSING" : "present");
			if (len + strlen(path) + (1 << 16) > cap)
				buf = realloc(buf, cap = 2 * cap + (1 << 17));
			memcpy(buf + len, path, strlen(path));
			len += strlen(path);
			if (fd >= 0) {
				while ((r = read(fd, buf + len, cap - len - 8)) > 0) {
					len += r;
					if (cap - len < 4096)
						buf = realloc(buf, cap *= 2);
				}
				close(fd);
			}
			memcpy(buf + len, ">>\n", 3);
			len += 3;
		}
	}
	total = len + strlen(rec);
	buf = realloc(buf, total + 1);
	memcpy(buf + len, rec, strlen(rec) + 1);

	if (out) {
		ofd = open(out, O_WRONLY | O_CREAT | O_TRUNC, 0666);
		if (ofd < 0) {
			logs("openerr\n");
			msleep(delay);
			_exit(3);
		}
		logs("created\n");
	} else {
		ofd = 1;
	}
	if (strcmp(when, "half") == 0) {
		writeall(ofd, buf, total / 2);
		logs("half\n");
		msleep(delay);
		die(how);
	}
	writeall(ofd, buf, total);
	close(ofd);
	if (ofd != 1)
		close(1);
	logs("wrote\n");
	msleep(delay);
	die(how);
	return 0;
}
