/* LD_PRELOAD shim for the C18 check: records the driver's own process-level library calls
 * (posix_spawnp, wait, waitpid, kill, unlink, mkstemp) with their results, one line per call, in $SHIM_LOG.
 * Every line starts with the calling pid (children inherit the preload; the check keeps the driver's lines).
 * The driver itself is the unmodified driver.c of the snapshot. */
#define _GNU_SOURCE
#include <dlfcn.h>
#include <fcntl.h>
#include <signal.h>
#include <spawn.h>
#include <stdio.h>
#include <stdlib.h>
#include <string.h>
#include <sys/types.h>
#include <sys/wait.h>
#include <unistd.h>

static void
out(const char *s)
{
	const char *path = getenv("SHIM_LOG");
	int fd;

	if (!path)
		return;
	fd = open(path, O_WRONLY | O_CREAT | O_APPEND | O_CLOEXEC, 0666);
	if (fd < 0)
		return;
	(void)!write(fd, s, strlen(s));
	close(fd);
}

static char *
hex(char *p, const char *s)
{
	static const char d[] = "0123456789abcdef";

	*p++ = ' ';
	*p++ = 'x';
	for (; *s; ++s) {
		*p++ = d[(unsigned char)*s >> 4];
		*p++ = d[(unsigned char)*s & 15];
	}
	*p = 0;
	return p;
}

int
posix_spawnp(pid_t *pid, const char *file, const posix_spawn_file_actions_t *fa, const posix_spawnattr_t *attr,
             char *const argv[], char *const envp[])
{
	static int (*real)(pid_t *, const char *, const posix_spawn_file_actions_t *, const posix_spawnattr_t *, char *const[], char *const[]);
	size_t n = 64;
	char *buf, *p;
	pid_t child = 0;
	int i, ret;

	if (!real)
		real = dlsym(RTLD_NEXT, "posix_spawnp");
	ret = real(&child, file, fa, attr, argv, envp);
	if (ret == 0 && pid)
		*pid = child;
	for (i = 0; argv[i]; ++i)
		n += 2 * strlen(argv[i]) + 3;
	buf = malloc(n);
	if (buf) {
		p = buf + sprintf(buf, "%ld spawn %d %ld", (long)getpid(), ret, (long)(ret == 0 ? child : 0));
		for (i = 0; argv[i]; ++i)
			p = hex(p, argv[i]);
		*p++ = '\n';
		*p = 0;
		out(buf);
		free(buf);
	}
	return ret;
}

pid_t
wait(int *status)
{
	static pid_t (*real)(int *);
	char buf[128];
	int st = 0;
	pid_t r;

	if (!real)
		real = dlsym(RTLD_NEXT, "wait");
	r = real(&st);
	if (status)
		*status = st;
	snprintf(buf, sizeof(buf), "%ld wait %ld %d\n", (long)getpid(), (long)r, st);
	out(buf);
	return r;
}

pid_t
waitpid(pid_t pid, int *status, int options)
{
	static pid_t (*real)(pid_t, int *, int);
	char buf[128];
	int st = 0;
	pid_t r;

	if (!real)
		real = dlsym(RTLD_NEXT, "waitpid");
	r = real(pid, &st, options);
	if (status)
		*status = st;
	snprintf(buf, sizeof(buf), "%ld waitpid %ld %ld %d\n", (long)getpid(), (long)pid, (long)r, st);
	out(buf);
	return r;
}

int
kill(pid_t pid, int sig)
{
	static int (*real)(pid_t, int);
	char buf[128];
	int r;

	if (!real)
		real = dlsym(RTLD_NEXT, "kill");
	r = real(pid, sig);
	snprintf(buf, sizeof(buf), "%ld kill %ld %d %d\n", (long)getpid(), (long)pid, sig, r);
	out(buf);
	return r;
}

int
unlink(const char *path)
{
	static int (*real)(const char *);
	char buf[4200], *p;
	int r;

	if (!real)
		real = dlsym(RTLD_NEXT, "unlink");
	r = real(path);
	if (strlen(path) < 2000) {
		p = buf + sprintf(buf, "%ld unlink %d", (long)getpid(), r);
		p = hex(p, path);
		*p++ = '\n';
		*p = 0;
		out(buf);
	}
	return r;
}

int
mkstemp(char *tmpl)
{
	static int (*real)(char *);
	char buf[4200], *p;
	int r;

	if (!real)
		real = dlsym(RTLD_NEXT, "mkstemp");
	r = real(tmpl);
	if (strlen(tmpl) < 2000) {
		p = buf + sprintf(buf, "%ld mkstemp %d", (long)getpid(), r);
		p = hex(p, tmpl);
		*p++ = '\n';
		*p = 0;
		out(buf);
	}
	return r;
}
