/* LD_PRELOAD allocator for C20: hands out addresses in DECREASING order from one big mapping and never reuses
 * memory, so that any dependence of the output on the relative order of heap addresses becomes visible.
 * Memory is filled with a byte pattern (REVMALLOC_FILL, default 0xa5) unless calloc is used. */
#define _GNU_SOURCE
#include <stddef.h>
#include <stdint.h>
#include <stdlib.h>
#include <string.h>
#include <sys/mman.h>
#include <unistd.h>

static char *base, *top;
static int fill = 0xa5;
#define ARENA ((size_t)3 << 30)

static void
init(void)
{
	const char *f;

	base = mmap(NULL, ARENA, PROT_READ|PROT_WRITE, MAP_PRIVATE|MAP_ANONYMOUS|MAP_NORESERVE, -1, 0);
	if (base == MAP_FAILED)
		_exit(111);
	top = base + ARENA;
	f = getenv("REVMALLOC_FILL");
	if (f)
		fill = atoi(f);
}

void *
malloc(size_t n)
{
	size_t *p;

	if (!base)
		init();
	n = (n + 15) & ~(size_t)15;
	if (n + 16 > (size_t)(top - base))
		return NULL;
	top -= n + 16;
	p = (size_t *)top;
	p[0] = n;
	memset(top + 16, fill, n);
	return top + 16;
}

void
free(void *p)
{
	(void)p;
}

void *
calloc(size_t a, size_t b)
{
	void *p;

	if (b && a > SIZE_MAX / b)
		return NULL;
	p = malloc(a * b);
	if (p)
		memset(p, 0, a * b);
	return p;
}

void *
realloc(void *old, size_t n)
{
	void *p;
	size_t m;

	p = malloc(n);
	if (p && old) {
		m = ((size_t *)((char *)old - 16))[0];
		memcpy(p, old, m < n ? m : n);
	}
	return p;
}
