# Common machinery for every property check.  See DESIGN.md section 2.2.
#
#   ctx = Ctx(pid, tier, seed)
#   ctx.snapshot()            copy of /repo's working tree, built with -DCPROC_VERIF
#   ctx.coq(targets)          (re)build the Coq development (full .vo build) under a lock
#   ctx.assumptions(mod, ths) Print Assumptions of the property theorems
#   ctx.oracle(name)          build the extracted OCaml model + driver, return the binary
#   ctx.broken(...)           register a broken obligation (theorem / table / correspondence)
#   ctx.violation(...)        register a concrete failing input
#   ctx.finish(coverage)      known-findings handling, evidence file, exit status
import atexit, fcntl, hashlib, json, os, random, re, shutil, subprocess, sys, tempfile, time

VERIF = os.path.dirname(os.path.dirname(os.path.abspath(__file__)))
REPO = os.environ.get('VERIF_REPO', '/repo')
COQ = os.path.join(VERIF, 'coq')
GUARD = 'CPROC_VERIF'
NCPU = os.cpu_count() or 4

TRUSTED_BASE = [
    'Coq 8.16.1 kernel (coqc; vm_compute used, native_compute not used)',
    'OCaml 4.13.1 + Coq extraction (ExtrOcamlBasic, ExtrOcamlNatInt-free: nat/N/Z stay inductive unless stated)',
    'correspondence harness (generators, C harness glue, output canonicalisation) in /verif',
    'gcc 12 building /repo snapshot; libc',
]


def sh(cmd, cwd=None, timeout=600, env=None, input=None, check=False):
    """Run a command, return (rc, stdout, stderr); rc = -9 on timeout."""
    try:
        p = subprocess.run(cmd, cwd=cwd, env=env, input=input, shell=isinstance(cmd, str),
                           stdout=subprocess.PIPE, stderr=subprocess.PIPE, timeout=timeout)
        rc, out, err = p.returncode, p.stdout, p.stderr
    except subprocess.TimeoutExpired as e:
        rc, out, err = -9, e.stdout or b'', (e.stderr or b'') + b'\n[timeout]'
    if check and rc != 0:
        raise RuntimeError('command failed (%d): %s\n%s' % (rc, cmd, err.decode('utf-8', 'replace')[-4000:]))
    return rc, out, err


def txt(b):
    return b.decode('utf-8', 'replace') if isinstance(b, bytes) else b


class Lock:
    def __init__(self, name):
        self.path = os.path.join(VERIF, '.lock-' + name)

    def __enter__(self):
        self.f = open(self.path, 'w')
        fcntl.flock(self.f, fcntl.LOCK_EX)
        return self

    def __exit__(self, *a):
        fcntl.flock(self.f, fcntl.LOCK_UN)
        self.f.close()


class Ctx:
    def __init__(self, pid, tier='quick', seed=None, level='proof'):
        self.pid = pid
        self.tier = tier
        self.seed = int(seed if seed is not None else os.environ.get('VERIF_SEED', '1'))
        self.rng = random.Random(self.seed * 1000003 + int(pid[1:]))
        self.level = level
        self.t0 = time.time()
        self.tmp = tempfile.mkdtemp(prefix='cprocverif-%s-' % pid)
        atexit.register(self._cleanup)
        self.snap = None
        self.brokens = []       # (kind, name, detail)
        self.violations = []    # dict(what, replay_text, ext, key)
        self.obligations = []   # (name, ok)
        self.axioms = {}
        self.notes = []
        self.known_lines = []
        self.assumptions_extra = []
        os.makedirs(os.path.join(VERIF, 'evidence', 'replay'), exist_ok=True)

    def _cleanup(self):
        # diagnostic aid (never set by the registered commands): keep the coverage data of an instrumented snapshot
        cov = os.environ.get('VERIF_COV_OUT')
        if cov and getattr(self, 'snap', None):
            try:
                shutil.copytree(self.snap, os.path.join(cov, self.pid), dirs_exist_ok=True)
            except Exception:
                pass
        shutil.rmtree(self.tmp, ignore_errors=True)

    def log(self, *a):
        print('[%s %5.1fs]' % (self.pid, time.time() - self.t0), *a, file=sys.stderr, flush=True)

    # ---------------------------------------------------------------- snapshot
    def snapshot(self, build=True, cflags='-std=c11 -O1 -g -Wno-error', hooks=True, name='snap', targets='cproc-qbe cproc'):
        """Copy /repo's working tree (tracked + untracked sources, no objects) and build it."""
        d = os.path.join(self.tmp, name)
        os.makedirs(d)
        sh(['rsync', '-a', '--exclude', '.git', '--exclude', '*.o', '--exclude', '/cproc', '--exclude', '/cproc-qbe',
            '--exclude', '/stage2', '--exclude', '/stage3', REPO + '/', d + '/'], check=True)
        if not os.path.exists(os.path.join(d, 'config.h')) or not os.path.exists(os.path.join(d, 'config.mk')):
            sh('./configure', cwd=d, check=True)
        if build:
            fl = cflags + (' -D' + GUARD if hooks else '')
            extra = os.environ.get('VERIF_EXTRA_CFLAGS', '')        # diagnostic aid, e.g. --coverage (never set by the registered commands)
            rc, out, err = sh('make -j%d CFLAGS="%s %s" LDFLAGS="%s" %s' % (NCPU, fl, extra, extra, targets) if extra
                              else 'make -j%d CFLAGS="%s" %s' % (NCPU, fl, targets), cwd=d, timeout=600)
            if rc != 0:
                self.broken('build', 'snapshot-build', 'the working tree of /repo does not build:\n' + txt(err)[-3000:])
                return None
        if name == 'snap':
            self.snap = d
        return d

    def qbe(self, src, target='x86_64-sysv', extra=(), timeout=10, stdin_name=None, cap=8 << 20, binary=None, env=None):
        """Run cproc-qbe on source text; returns (rc, stdout(str), stderr(str)). Output capped."""
        b = binary or os.path.join(self.snap, 'cproc-qbe')
        if isinstance(src, str):
            src = src.encode('utf-8', 'surrogateescape')
        cmd = _limit_prefix() + ['timeout', '-s', 'KILL', str(timeout), b, '-t', target] + list(extra)
        try:
            p = subprocess.Popen(cmd, stdin=subprocess.PIPE, stdout=subprocess.PIPE, stderr=subprocess.PIPE, env=env)
            out, err = p.communicate(src, timeout=timeout + 5)
            rc = p.returncode
        except subprocess.TimeoutExpired:
            p.kill()
            out, err = p.communicate()
            rc = -9
        return rc, out[:cap].decode('utf-8', 'replace'), err[:65536].decode('utf-8', 'replace')

    # --------------------------------------------------------------------- coq
    def coq(self, targets, timeout=1500):
        """make the given .vo targets (paths relative to coq/); returns True when all built."""
        with Lock('coq'):
            files = []
            for d in ('Lib', 'Gen', 'Spec', 'Model', 'Proofs', 'Properties', 'Extract'):
                for root, _, fs in os.walk(os.path.join(COQ, d)):
                    files += [os.path.relpath(os.path.join(root, f), COQ) for f in fs if f.endswith('.v')]
            proj = '-Q . Cproc\n' + ''.join(f + '\n' for f in sorted(files))
            pp = os.path.join(COQ, '_CoqProject')
            if not os.path.exists(pp) or open(pp).read() != proj or not os.path.exists(os.path.join(COQ, 'Makefile')):
                open(pp, 'w').write(proj)
                sh('coq_makefile -f _CoqProject -o Makefile', cwd=COQ, check=True)
            for f in files:
                if f.startswith('Extract/Extract_'):
                    os.makedirs(os.path.join(VERIF, 'ocaml', f[len('Extract/Extract_'):-2]), exist_ok=True)
            rc, out, err = sh(['timeout', str(timeout), 'make', '-k', '-j%d' % NCPU] + list(targets), cwd=COQ, timeout=timeout + 30)
        ok = rc == 0
        for t in targets:
            built = os.path.exists(os.path.join(COQ, t)) and ok
            self.obligations.append(('coq:' + t, built))
        if not ok:
            msg = txt(out)[-2000:] + '\n' + txt(err)[-6000:]
            m = re.findall(r'File "\./([^"]+)", line (\d+), characters [^\n]*\n(Error:[^\n]*(?:\n[^\n]+){0,6})', txt(err))
            where = '; '.join('%s:%s' % (a, b) for a, b, _ in m) or 'see log'
            self.broken('theorem', where, msg)
        return ok

    def assumptions(self, module, theorems):
        """Print Assumptions for each theorem of a compiled Properties module."""
        f = os.path.join(self.tmp, 'Assum_%s.v' % self.pid)
        with open(f, 'w') as o:
            o.write('Require Import Cproc.Properties.%s.\n' % module)
            for t in theorems:
                o.write('Goal True. idtac "@@ %s". exact I. Qed.\nPrint Assumptions %s.\n' % (t, t))
        rc, out, err = sh(['coqc', '-Q', COQ, 'Cproc', f], cwd=self.tmp, timeout=300)
        text = txt(out)
        if rc != 0:
            self.broken('theorem', module, 'Print Assumptions failed (theorem missing?):\n' + txt(err)[-3000:])
            for t in theorems:
                self.obligations.append(('thm:' + t, False))
            return {}
        res = {}
        parts = re.split(r'@@ (\S+)\n', text)
        for i in range(1, len(parts), 2):
            body = parts[i + 1].strip()
            if body.startswith('Closed under the global context'):
                res[parts[i]] = []
            else:
                ax = re.findall(r'^([A-Za-z_][\w\.\']*)\s*:', body, re.M)
                res[parts[i]] = [a for a in ax if a not in ('Axioms', 'Axiom')]
        for t in theorems:
            self.obligations.append(('thm:' + t, t in res))
            if t not in res:
                self.broken('theorem', t, 'theorem not found in ' + module)
        self.axioms.update(res)
        return res

    def theorem_names(self, module):
        src = open(os.path.join(COQ, 'Properties', module + '.v')).read()
        return re.findall(r'^(?:Theorem|Example|Corollary)\s+([\w\']+)', src, re.M)

    def oracle(self, name):
        """Build ocaml/<name>/ (extracted model.ml from coq/Extract/Extract_<name>.vo + driver.ml)."""
        d = os.path.join(VERIF, 'ocaml', name)
        exe = os.path.join(d, 'oracle')
        with Lock('ocaml-' + name):
            ml = os.path.join(d, 'model.ml')
            vo = os.path.join(COQ, 'Extract', 'Extract_%s.vo' % name)
            srcs = [ml, os.path.join(d, 'driver.ml')]
            if not os.path.exists(ml):
                self.broken('build', 'extraction', 'no extracted model %s (run setup.sh)' % ml)
                return None
            extra = [os.path.join(d, f) for f in os.listdir(d) if f.endswith('.ml') and f not in ('model.ml', 'driver.ml')]
            if os.path.exists(exe) and all(os.path.getmtime(exe) >= os.path.getmtime(s) for s in srcs + extra):
                return exe
            if os.path.exists(os.path.join(d, 'build.sh')):
                # oracles with extra modules / packages (zarith) bring their own build script
                rc, out, err = sh(['sh', 'build.sh'], cwd=d, timeout=900)
                if rc != 0 or not os.path.exists(exe):
                    self.broken('build', 'oracle ' + name, txt(out)[-2000:] + txt(err)[-3000:])
                    return None
                return exe
            rc, out, err = sh('ocamlfind ocamlopt -O2 -w -a -package str -linkpkg model.mli model.ml driver.ml -o oracle 2>&1 || '
                              'ocamlfind ocamlopt -w -a -package str -linkpkg model.mli model.ml driver.ml -o oracle', cwd=d, timeout=600)
            if rc != 0:
                self.broken('build', 'oracle', txt(out)[-2000:] + txt(err)[-3000:])
                return None
        return exe

    def cc(self, out, srcs, flags='-O1 -g', incl=None, timeout=300):
        cmd = 'gcc -std=gnu11 -w %s %s -o %s %s' % (flags, ' '.join('-I' + i for i in (incl or [])), out, ' '.join(srcs))
        rc, o, e = sh(cmd, timeout=timeout)
        if rc != 0:
            return txt(e)[-4000:]
        return None

    # ----------------------------------------------------------------- verdict
    def broken(self, kind, name, detail):
        """A proof obligation, generated table or correspondence no longer checks."""
        self.log('BROKEN', kind, name)
        self.brokens.append((kind, name, detail))

    def violation(self, what, replay_text, ext='txt', key=None):
        """A concrete input on which the real code contradicts the property."""
        self.violations.append(dict(what=what, replay=replay_text, ext=ext, key=key or what))

    def ob(self, name, ok):
        self.obligations.append((name, bool(ok)))

    def unknown_violations(self):
        """violations registered so far that are not listed as known findings"""
        keys = {k['key'] for k in self.known() if k.get('kind') == 'known'}
        return [v for v in self.violations if v['key'] not in keys]

    def known(self):
        p = os.path.join(VERIF, 'known_findings.json')
        if not os.path.exists(p):
            return []
        return [k for k in json.load(open(p))['findings'] if k['property'] == self.pid]

    def finish(self, coverage, assumptions=None):
        known = [k for k in self.known() if k.get('kind') == 'known']
        out_lines = []
        nviol = 0
        rdir = os.path.join(VERIF, 'evidence', 'replay')
        seen_known = set()
        n = 0
        for v in self.violations:
            k = next((k for k in known if k['key'] == v['key']), None)
            if k is not None:
                seen_known.add(k['key'])
                continue
            n += 1
            nviol += 1
            path = os.path.join(rdir, '%s-%d.%s' % (self.pid, n, v['ext']))
            with open(path, 'w') as f:
                f.write(v['replay'] if isinstance(v['replay'], str) else json.dumps(v['replay'], indent=1))
            with open(path + '.what', 'w') as f:
                f.write(v['what'] + '\n')
            if n <= 5:
                out_lines.append('VIOLATION property=%s replay=%s' % (self.pid, path))
                self.log('violation:', v['what'])
        for k in known:
            if k['key'] in seen_known:
                print('KNOWN-FINDING: property=%s %s' % (self.pid, k['what']))
            else:
                self.notes.append('known finding %s did not reproduce on this run' % k['key'])
        if self.brokens and nviol == 0:
            # nothing concrete found: still a violation, the property is no longer shown to hold
            path = os.path.join(rdir, '%s-broken.json' % self.pid)
            with open(path, 'w') as f:
                json.dump({'property': self.pid,
                           'no_longer_checks': [{'kind': k, 'name': nm, 'detail': d} for k, nm, d in self.brokens],
                           'search': 'no concrete failing input found by the search of this run'}, f, indent=1)
            out_lines.append('VIOLATION property=%s replay=%s no-failing-input-found' % (self.pid, path))
            nviol += 1
        nob = len(self.obligations)
        ndis = sum(1 for _, ok in self.obligations if ok)
        cov = dict(coverage)
        cov.setdefault('obligations', nob)
        cov.setdefault('discharged', ndis)
        cov['obligation_list'] = [{'name': a, 'ok': b} for a, b in self.obligations]
        cov.setdefault('checker_cmd', 'make -C /verif/coq (coq_makefile, full .vo build with coqc 8.16.1); Print Assumptions per theorem')
        cov.setdefault('trusted_base', TRUSTED_BASE)
        cov['axioms_per_theorem'] = self.axioms
        cov['broken'] = [{'kind': k, 'name': nm} for k, nm, _ in self.brokens]
        if self.notes:
            cov['notes'] = self.notes
        ev = dict(property_id=self.pid, tier=self.tier, seed=self.seed, level=self.level, coverage=cov,
                  assumptions=(assumptions or []) + self.assumptions_extra,
                  wall_s=round(time.time() - self.t0, 2), violations=nviol)
        # runs against a scratch copy (VERIF_REPO=...) must not overwrite the evidence of /repo itself
        evdir = os.path.join(VERIF, 'evidence') if REPO == '/repo' else os.path.join(VERIF, 'evidence', 'replay', 'scratch-runs')
        os.makedirs(evdir, exist_ok=True)
        with open(os.path.join(evdir, self.pid + '.json'), 'w') as f:
            json.dump(ev, f, indent=1, default=str)
        for l in out_lines:
            print(l)
        sys.stdout.flush()
        self.log('done: %d obligations (%d discharged), %d violation(s)' % (nob, ndis, nviol))
        return 1 if nviol else 0


def _limit_prefix(aslimit=True, cpu=None):
    """resource limits through prlimit(1) (a preexec_fn can deadlock when Popen is used from threads)"""
    pre = ['prlimit', '--fsize=%d' % (256 << 20), '--core=0']
    if aslimit:
        pre.append('--as=%d' % (4 << 30))
    if cpu:
        pre.append('--cpu=%d' % cpu)
    return pre + ['--']


def run_limited(cmd, input=None, timeout=10, cwd=None, env=None, cap=16 << 20, aslimit=True, cpu=None):
    """Run a subject binary under time/memory/output limits. Returns (rc, out bytes, err bytes); rc = -9 on timeout.
    aslimit=False for sanitizer builds (ASan reserves terabytes of address space).
    cpu=N limits CPU seconds (SIGXCPU = rc -24): use it with a generous wall `timeout` where machine load must not
    turn into a finding."""
    try:
        p = subprocess.Popen(_limit_prefix(aslimit, cpu) + list(cmd), stdin=subprocess.PIPE if input is not None else subprocess.DEVNULL,
                             stdout=subprocess.PIPE, stderr=subprocess.PIPE, cwd=cwd, env=env)
        out, err = p.communicate(input, timeout=timeout)
        return p.returncode, out[:cap], err[:1 << 20]
    except subprocess.TimeoutExpired:
        p.kill()
        out, err = p.communicate()
        return -9, out[:cap], err[:1 << 20]


def parallel_map(fn, items, nproc=NCPU):
    from concurrent.futures import ThreadPoolExecutor
    with ThreadPoolExecutor(max_workers=nproc) as ex:
        return list(ex.map(fn, items))
