#!/bin/sh
# Build ocaml/c01/oracle (extracted model.ml + driver.ml) against zarith.
cd "$(dirname "$0")" || exit 1
ocamlfind ocamlopt -O2 -w -a -package zarith -linkpkg model.mli model.ml driver.ml -o oracle 2>/dev/null ||
ocamlfind ocamlopt -w -a -package zarith -linkpkg model.mli model.ml driver.ml -o oracle
