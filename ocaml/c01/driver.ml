(* C01 oracle: reads one typed core-AST function per line (S-expression), runs the extracted
   LowerFn.lower_function and prints the predicted IL in cproc's layout.

     (fn RET0 ((SLOT TYPE) ...) STMT)
   TYPE : i1s i1u i2s i2u i4s i4u i8s i8u bool ptr flt dbl          CTYPE : TYPE | (agg SIZE ALIGN)
   EXPR : (const T N) (fconst T BITS) (local CT SLOT) (global CT GID) (bits T BASE BEFORE AFTER) (deref CT E)
          (addr E) (neg T E) (cast T ST E) (bin OP LT RT L R) (logic or|and LT RT L R) (cond T CT C A B)
          (assign CT L R) (settemp SLOT R) (temp SLOT) (incdec inc|dec post|pre T STEP LV) (seq A B)
          (call RT|void GID NFIXED|- (T E) ...)
   STMT : (expr E) (decl SLOT SIZE ALIGN) (ret) (ret E) (if CT C A) (ifelse CT C A B) (while CT C S) (do S CT C)
          (for INIT|- (CT C)|- STEP|- S) (break) (continue) (goto K) (label K) (block S ...)
   Output per line: the function text, then a line "end"; "error <msg>" when the line cannot be handled. *)
module ZZ = Z
open Model

type sx = A of string | L of sx list

let parse_sx (s : string) : sx =
  let n = String.length s in
  let pos = ref 0 in
  let rec skip () = if !pos < n && (s.[!pos] = ' ' || s.[!pos] = '\t') then (incr pos; skip ()) in
  let rec one () =
    skip ();
    if !pos >= n then failwith "unexpected end";
    if s.[!pos] = '(' then begin
      incr pos;
      let items = ref [] in
      let rec loop () =
        skip ();
        if !pos >= n then failwith "missing )";
        if s.[!pos] = ')' then incr pos else (items := one () :: !items; loop ()) in
      loop ();
      L (List.rev !items)
    end else begin
      let st = !pos in
      while !pos < n && s.[!pos] <> ' ' && s.[!pos] <> '(' && s.[!pos] <> ')' && s.[!pos] <> '\t' do incr pos done;
      A (String.sub s st (!pos - st))
    end in
  let r = one () in
  skip ();
  if !pos <> n then failwith "trailing input";
  r

let z = ZZ.of_string
let rec nat_of_int i = if i <= 0 then O else S (nat_of_int (i - 1))
let nat s = nat_of_int (int_of_string s)

let sty = function
  | A "i1s" -> SInt (I1, true) | A "i1u" -> SInt (I1, false)
  | A "i2s" -> SInt (I2, true) | A "i2u" -> SInt (I2, false)
  | A "i4s" -> SInt (I4, true) | A "i4u" -> SInt (I4, false)
  | A "i8s" -> SInt (I8, true) | A "i8u" -> SInt (I8, false)
  | A "bool" -> SBool | A "ptr" -> SPtr | A "flt" -> SFlt | A "dbl" -> SDbl
  | _ -> failwith "type"

let cty = function
  | L [A "agg"; A sz; A al] -> CAgg (z sz, z al)
  | t -> CS (sty t)

let binop = function
  | "mul" -> Mul | "div" -> Div | "mod" -> Mod | "add" -> Add | "sub" -> Sub | "shl" -> Shl | "shr" -> Shr
  | "band" -> Band0 | "bor" -> Bor0 | "xor" -> Xor | "lt" -> CLt | "gt" -> CGt | "le" -> CLe | "ge" -> CGe
  | "eq" -> CEq | "ne" -> CNe | _ -> failwith "binop"

let rec expr = function
  | L [A "const"; t; A n] -> EConst (sty t, z n)
  | L [A "fconst"; t; A n] -> EFConst (sty t, z n)
  | L [A "local"; t; A s] -> ELocal (cty t, nat s)
  | L [A "global"; t; A g] -> EGlobal (cty t, z g)
  | L [A "bits"; t; b; A bf; A af] -> EBits (sty t, expr b, z bf, z af)
  | L [A "deref"; t; e] -> EDeref (cty t, expr e)
  | L [A "addr"; e] -> EAddr (expr e)
  | L [A "neg"; t; e] -> ENeg (sty t, expr e)
  | L [A "cast"; t; st; e] -> ECast (sty t, sty st, expr e)
  | L [A "bin"; A o; lt; rt; l; r] -> EBin (binop o, sty lt, sty rt, expr l, expr r)
  | L [A "logic"; A k; lt; rt; l; r] -> ELogic ((k = "or"), sty lt, sty rt, expr l, expr r)
  | L [A "cond"; t; ct; c; a; b] -> ECond (sty t, sty ct, expr c, expr a, expr b)
  | L [A "assign"; t; l; r] -> EAssign (cty t, expr l, expr r)
  | L [A "settemp"; A s; r] -> ESetTemp (nat s, expr r)
  | L [A "temp"; A s] -> ETemp (nat s)
  | L [A "incdec"; A d; A p; t; A step; lv] -> EIncDec ((d = "inc"), (p = "post"), sty t, z step, expr lv)
  | L [A "seq"; a; b] -> ESeq (expr a, expr b)
  | L (A "call" :: rt :: A g :: A nf :: args) ->
      let rt = (match rt with A "void" -> None | t -> Some (sty t)) in
      let nf = if nf = "-" then None else Some (nat nf) in
      ECall (rt, z g, nf, List.map (function L [t; e] -> (sty t, expr e) | _ -> failwith "arg") args)
  | _ -> failwith "expr"

let opt f = function A "-" -> None | x -> Some (f x)

let rec stmt = function
  | L [A "expr"; e] -> SExpr (expr e)
  | L [A "decl"; A s; A sz; A al] -> SDecl (nat s, z sz, z al)
  | L [A "ret"] -> SReturn None
  | L [A "ret"; e] -> SReturn (Some (expr e))
  | L [A "if"; ct; c; a] -> SIf (sty ct, expr c, stmt a, None)
  | L [A "ifelse"; ct; c; a; b] -> SIf (sty ct, expr c, stmt a, Some (stmt b))
  | L [A "while"; ct; c; s] -> SWhile (sty ct, expr c, stmt s)
  | L [A "do"; s; ct; c] -> SDo (stmt s, sty ct, expr c)
  | L [A "for"; i; c; st; s] ->
      SFor (opt expr i, (match c with A "-" -> None | L [ct; c] -> Some (sty ct, expr c) | _ -> failwith "for"), opt expr st, stmt s)
  | L [A "break"] -> SBreak
  | L [A "continue"] -> SContinue
  | L [A "goto"; A k] -> SGoto (nat k)
  | L [A "label"; A k] -> SLabel (nat k)
  | L (A "block" :: l) -> SBlock (List.map stmt l)
  | _ -> failwith "stmt"

(* ------------------------------------------------------------------ printing, cproc's layout *)
let cls = function Kw -> "w" | Kl -> "l" | Ks -> "s" | Kd -> "d"
let two64 = ZZ.shift_left ZZ.one 64
let u64 n = ZZ.to_string (ZZ.erem n two64)
let rf = function
  | RTmp t -> "%." ^ ZZ.to_string t
  | RInt n -> u64 n
  | RFlt b -> "s_bits:" ^ ZZ.to_string b
  | RDbl b -> "d_bits:" ^ ZZ.to_string b
  | RGlo (g, _) -> "$g" ^ ZZ.to_string g
let lbl l = "@L." ^ ZZ.to_string l

let binname = function
  | Badd -> "add" | Bsub -> "sub" | Bdiv -> "div" | Bmul -> "mul" | Budiv -> "udiv" | Brem -> "rem" | Burem -> "urem"
  | Bor -> "or" | Bxor -> "xor" | Band -> "and" | Bsar -> "sar" | Bshr -> "shr" | Bshl -> "shl"
let cmpiname = function
  | Ceq -> "eq" | Cne -> "ne" | Csle -> "sle" | Cslt -> "slt" | Csge -> "sge" | Csgt -> "sgt"
  | Cule -> "ule" | Cult -> "ult" | Cuge -> "uge" | Cugt -> "ugt"
let cmpfname = function Feq -> "eq" | Fne -> "ne" | Fle -> "le" | Flt -> "lt" | Fge -> "ge" | Fgt -> "gt" | Fo -> "o" | Fuo -> "uo"
let opname = function
  | Obin b -> binname b
  | Oneg -> "neg"
  | Ostore s -> "store" ^ (match s with Sd -> "d" | Ss -> "s" | Sl -> "l" | Sw -> "w" | Sh -> "h" | Sb -> "b")
  | Oload l -> "load" ^ (match l with Ld -> "d" | Ls -> "s" | Ll -> "l" | Lw -> "w" | Lsh -> "sh" | Luh -> "uh" | Lsb -> "sb" | Lub -> "ub")
  | Oalloc a -> "alloc" ^ ZZ.to_string a
  | Ocmpi (w, c) -> "c" ^ cmpiname c ^ (if w then "l" else "w")
  | Ocmpf (d, c) -> "c" ^ cmpfname c ^ (if d then "d" else "s")
  | Oext e -> "ext" ^ (match e with Esw -> "sw" | Euw -> "uw" | Esh -> "sh" | Euh -> "uh" | Esb -> "sb" | Eub -> "ub")
  | Ocvt c -> (match c with Cexts -> "exts" | Ctruncd -> "truncd" | Cstosi -> "stosi" | Cstoui -> "stoui" | Cdtosi -> "dtosi"
                           | Cdtoui -> "dtoui" | Cswtof -> "swtof" | Cuwtof -> "uwtof" | Csltof -> "sltof" | Cultof -> "ultof")
  | Ocast -> "cast" | Ocopy -> "copy" | Ovastart -> "vastart" | Ovaarg -> "vaarg"

let rty = function Tbase k -> cls k | Tagg t -> ":t" ^ ZZ.to_string t

let print_inst buf = function
  | Iop (res, o, a0, a1) ->
      Buffer.add_char buf '\t';
      (match res with Some (t, k) -> Buffer.add_string buf (Printf.sprintf "%%.%s =%s " (ZZ.to_string t) (cls k)) | None -> ());
      Buffer.add_string buf (opname o ^ " " ^ rf a0);
      (match a1 with Some r -> Buffer.add_string buf (", " ^ rf r) | None -> ());
      Buffer.add_char buf '\n'
  | Icall (res, f, args) ->
      Buffer.add_char buf '\t';
      (match res with Some (t, k) -> Buffer.add_string buf (Printf.sprintf "%%.%s =%s " (ZZ.to_string t) (rty k)) | None -> ());
      Buffer.add_string buf ("call " ^ rf f ^ "(");
      let first = ref true in
      List.iter (fun a ->
        (match a with
         | Avar -> Buffer.add_string buf (if !first then "..." else ", ...")
         | Aval (t, r) -> if not !first then Buffer.add_string buf ", "; Buffer.add_string buf (rty t ^ " " ^ rf r));
        first := false) args;
      Buffer.add_string buf ")\n"

let print_fn (o : fnout) : string =
  let buf = Buffer.create 1024 in
  Buffer.add_string buf "function $f(";
  List.iteri (fun i (t, v) -> if i > 0 then Buffer.add_string buf ", ";
               Buffer.add_string buf (rty t ^ " %." ^ ZZ.to_string v)) o.fo_params;
  Buffer.add_string buf ") {\n";
  List.iter (fun b ->
    Buffer.add_string buf (lbl b.b_label ^ "\n");
    List.iter (fun p ->
      Buffer.add_string buf (Printf.sprintf "\t%%.%s =%s phi " (ZZ.to_string p.p_res) (cls p.p_cls));
      Buffer.add_string buf (String.concat ", " (List.map (fun (l, r) -> lbl l ^ " " ^ rf r) p.p_args));
      Buffer.add_char buf '\n') b.b_phis;
    List.iter (print_inst buf) b.b_insts;
    (match b.b_jump with
     | None -> ()
     | Some (Jmp l) -> Buffer.add_string buf ("\tjmp " ^ lbl l ^ "\n")
     | Some (Jnz (r, a, b)) -> Buffer.add_string buf ("\tjnz " ^ rf r ^ ", " ^ lbl a ^ ", " ^ lbl b ^ "\n")
     | Some (Ret None) -> Buffer.add_string buf "\tret\n"
     | Some (Ret (Some r)) -> Buffer.add_string buf ("\tret " ^ rf r ^ "\n")
     | Some Hlt -> Buffer.add_string buf "\thlt\n")) o.fo_blocks;
  Buffer.add_string buf "}\n";
  Buffer.contents buf

let () =
  try
    while true do
      let line = input_line stdin in
      (try
         match parse_sx line with
         | L [A "fn"; A r0; L ps; body] ->
             let ps = List.map (function L [A s; t] -> (nat s, sty t) | _ -> failwith "param") ps in
             let o = lower_function ps (stmt body) (r0 = "1") in
             if o.fo_ok then (print_string (print_fn o); print_string "end\n")
             else print_string "error form outside the model\nend\n"
         | _ -> print_string "error bad request\nend\n"
       with Failure m -> print_string ("error " ^ m ^ "\nend\n")
          | Invalid_argument m -> print_string ("error " ^ m ^ "\nend\n"))
    done
  with End_of_file -> ()
