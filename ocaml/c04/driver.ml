(* Line-oriented driver around the extracted Eval model and CArith specification (C04).
   Same commands as harness/c04/harness.c (types are attribute codes: b, i<size><s|u>, f<size>, p, o):
     B op lt t lhex rhex | U lt t lhex | K t hex | E tree
   plus, for the specification side:
     S op size s|u ldec rdec      CArith.binop_spec  -> some <dec> | none
     N op size s|u ldec           CArith.unop_spec
     V size s|u dec               CArith.conv_spec ; V b dec -> conv_bool_spec
     F t tree tree tree           Eval.condfold then Eval.eval on the result
     I 0|1 tree                   Eval.intconstexpr *)
open Model

let digit c = match c with
  | '0'..'9' -> Char.code c - 48
  | 'a'..'f' -> Char.code c - 87
  | 'A'..'F' -> Char.code c - 55
  | _ -> failwith "digit"

(* LSB-first bit list -> positive option *)
let rec pos_of_bits = function
  | [] -> None
  | b :: rest -> (match pos_of_bits rest with
      | None -> if b then Some XH else None
      | Some p -> Some (if b then XI p else XO p))

let z_of_hex s =
  let bits = ref [] in
  String.iter (fun ch -> let d = digit ch in
    for i = 3 downto 0 do bits := ((d lsr i) land 1 = 1) :: !bits done) s;
  match pos_of_bits !bits with None -> Z0 | Some p -> Zpos p

let rec bits_of_pos = function XH -> [true] | XO p -> false :: bits_of_pos p | XI p -> true :: bits_of_pos p

let hex_of_z = function
  | Z0 -> "0"
  | Zneg _ -> "NEG"
  | Zpos p ->
    let bits = Array.of_list (bits_of_pos p) in
    let n = Array.length bits in
    let nd = (n + 3) / 4 in
    let b = Buffer.create 16 in
    for d = nd - 1 downto 0 do
      let v = ref 0 in
      for i = 3 downto 0 do
        let k = 4 * d + i in
        v := 2 * !v + (if k < n && bits.(k) then 1 else 0)
      done;
      Buffer.add_char b "0123456789abcdef".[!v]
    done;
    Buffer.contents b

(* decimal <-> z through repeated *10 / divmod by 10 on the extracted Z *)
let z10 = Zpos (XO (XI (XO XH)))
let z_of_small i = z_of_hex (Printf.sprintf "%x" i)
let z_of_dec s =
  let neg = String.length s > 0 && s.[0] = '-' in
  let s = if neg then String.sub s 1 (String.length s - 1) else s in
  let acc = ref Z0 in
  String.iter (fun ch -> acc := Z.add (Z.mul !acc z10) (z_of_small (digit ch))) s;
  if neg then Z.opp !acc else !acc
(* print via hex of the absolute value: python reads "-0x.." fine, so use hex with a sign *)
let shex z = match z with
  | Zneg p -> "-" ^ hex_of_z (Zpos p)
  | _ -> hex_of_z z

let ty_of_code s =
  if s = "b" then TBool
  else if s = "p" then TPtr
  else if s = "o" then TOther
  else if s.[0] = 'i' then TInt { isize = z_of_small (digit s.[1]); isigned = (s.[2] = 's') }
  else if s.[0] = 'f' then TFloat (z_of_small (int_of_string (String.sub s 1 (String.length s - 1))))
  else failwith ("type " ^ s)

let rec int_of_pos = function XH -> 1 | XO p -> 2 * int_of_pos p | XI p -> 2 * int_of_pos p + 1
let int_of_z = function Z0 -> 0 | Zpos p -> int_of_pos p | Zneg p -> - (int_of_pos p)

let code_of_ty = function
  | TBool -> "b" | TPtr -> "p" | TOther -> "o"
  | TInt k -> Printf.sprintf "i%d%c" (int_of_z k.isize) (if k.isigned then 's' else 'u')
  | TFloat s -> Printf.sprintf "f%d" (int_of_z s)

let bop_of = function
  | "mul" -> OMul | "div" -> ODiv | "mod" -> OMod | "add" -> OAdd | "sub" -> OSub | "shl" -> OShl | "shr" -> OShr
  | "and" -> OBand | "or" -> OBor | "xor" -> OXor | "lt" -> OLess | "gt" -> OGreater | "le" -> OLeq | "ge" -> OGeq
  | "eq" -> OEql | "ne" -> ONeq | "lor" -> OLor | "land" -> OLand | s -> failwith ("op " ^ s)
let name_of_bop = function
  | OMul -> "mul" | ODiv -> "div" | OMod -> "mod" | OAdd -> "add" | OSub -> "sub" | OShl -> "shl" | OShr -> "shr"
  | OBand -> "and" | OBor -> "or" | OXor -> "xor" | OLess -> "lt" | OGreater -> "gt" | OLeq -> "le" | OGeq -> "ge"
  | OEql -> "eq" | ONeq -> "ne" | OLor -> "lor" | OLand -> "land"
let binop_of = function
  | "mul" -> Mul | "div" -> Div | "mod" -> Mod | "add" -> Add | "sub" -> Sub | "shl" -> Shl | "shr" -> Shr
  | "and" -> Band | "or" -> Bor | "xor" -> Xor | "lt" -> CLt | "gt" -> CGt | "le" -> CLe | "ge" -> CGe
  | "eq" -> CEq | "ne" -> CNe | s -> failwith ("binop " ^ s)
let unop_of = function
  | "neg" -> Neg | "plus" -> Plus | "bnot" -> Bnot | "lnot" -> Lnot | s -> failwith ("unop " ^ s)

(* a float-typed constant whose 8 bytes were produced by an integer operation can still look like a NaN:
   both sides print every NaN pattern as the canonical one *)
let nan_lo = z_of_hex "7ff0000000000001" and nan_hi = z_of_hex "7fffffffffffffff"
let nan_lo2 = z_of_hex "fff0000000000001" and nan_hi2 = z_of_hex "ffffffffffffffff"
let zle a b = match Z.compare a b with Gt -> false | _ -> true
let canon t c = match t with
  | TFloat _ -> if (zle nan_lo c && zle c nan_hi) || (zle nan_lo2 c && zle c nan_hi2) then nanbits else c
  | _ -> c

let print_res t = function
  | Val c -> Printf.printf "v %s\n" (hex_of_z (canon t c))
  | Trap -> print_endline "stop trap"
  | Fatal -> print_endline "stop fatal"
  | Diag -> print_endline "stop diag"
  | HostUB -> print_endline "stop hostub"

(* tree parser over a token list *)
let rec parse toks = match toks with
  | "c" :: t :: h :: rest -> EConst (ty_of_code t, z_of_hex h), rest
  | "n" :: t :: h :: rest -> EEnum (ty_of_code t, z_of_hex h), rest
  | "v" :: t :: s :: rest -> EVar (ty_of_code t, z_of_small (Hashtbl.hash s land 0xffff)), (Hashtbl.replace syms (Hashtbl.hash s land 0xffff) s; rest)
  | "a" :: t :: s :: rest -> EAddr (ty_of_code t, z_of_small (Hashtbl.hash s land 0xffff)), (Hashtbl.replace syms (Hashtbl.hash s land 0xffff) s; rest)
  | "-" :: t :: rest -> let b, rest = parse rest in ENeg (ty_of_code t, b), rest
  | "k" :: t :: rest -> let b, rest = parse rest in ECast (ty_of_code t, b), rest
  | "b" :: op :: t :: rest ->
    let l, rest = parse rest in
    let r, rest = parse rest in
    EBin (ty_of_code t, bop_of op, l, r), rest
  | "?" :: t :: rest ->
    let c, rest = parse rest in
    let a, rest = parse rest in
    let b, rest = parse rest in
    ECond (ty_of_code t, c, a, b), rest
  | w :: _ -> failwith ("tree token " ^ w)
  | [] -> failwith "truncated tree"
and syms : (int, string) Hashtbl.t = Hashtbl.create 16

let symname z = try Hashtbl.find syms (int_of_z z) with Not_found -> "?"

let rec show b e = match e with
  | EConst (t, c) -> Buffer.add_string b (Printf.sprintf " c %s %s" (code_of_ty t) (hex_of_z (canon t c)))
  | EEnum (t, c) -> Buffer.add_string b (Printf.sprintf " n %s %s" (code_of_ty t) (hex_of_z c))
  | EVar (t, s) -> Buffer.add_string b (Printf.sprintf " v %s %s" (code_of_ty t) (symname s))
  | EAddr (t, s) -> Buffer.add_string b (Printf.sprintf " a %s %s" (code_of_ty t) (symname s))
  | ENeg (t, x) -> Buffer.add_string b (Printf.sprintf " - %s" (code_of_ty t)); show b x
  | ECast (t, x) -> Buffer.add_string b (Printf.sprintf " k %s" (code_of_ty t)); show b x
  | EBin (t, op, l, r) -> Buffer.add_string b (Printf.sprintf " b %s %s" (name_of_bop op) (code_of_ty t)); show b l; show b r
  | ECond (t, c, x, y) -> Buffer.add_string b (Printf.sprintf " ? %s" (code_of_ty t)); show b c; show b x; show b y

let print_eres = function
  | Ok (ret, _) -> let b = Buffer.create 64 in show b ret; print_endline ("ok" ^ Buffer.contents b)
  | Stop STrap -> print_endline "stop trap"
  | Stop SFatal -> print_endline "stop fatal"
  | Stop SDiag -> print_endline "stop diag"
  | Stop SHostUB -> print_endline "stop hostub"

let ity_of size sg = { isize = z_of_small (int_of_string size); isigned = (sg = "s") }

let () =
  (try
    while true do
      let line = input_line stdin in
      let toks = List.filter (fun s -> s <> "") (String.split_on_char ' ' line) in
      (try match toks with
      | ["T"; _] -> print_endline "T"
      | ["B"; op; lt; t; l; r] ->
        let t = ty_of_code t in
        print_res t (binary flocq_ops (bop_of op) (ty_of_code lt) t (z_of_hex l) (z_of_hex r))
      | ["U"; lt; t; l] ->
        let t = ty_of_code t in
        print_res t (unary flocq_ops UNeg t (ty_of_code lt) (z_of_hex l))
      | ["K"; t; c] ->
        let t = ty_of_code t in
        print_res t (Val (cast flocq_ops t (z_of_hex c)))
      | "E" :: rest -> let e, _ = parse rest in print_eres (eval flocq_ops e)
      | "F" :: t :: rest ->
        let c, rest = parse rest in
        let a, rest = parse rest in
        let b, _ = parse rest in
        (match condfold flocq_ops (ty_of_code t) c a b with
         | Ok (e, _) -> print_eres (eval flocq_ops e)
         | s -> print_eres s)
      | "I" :: an :: rest ->
        let e, _ = parse rest in
        print_res TOther (intconstexpr flocq_ops e (an = "1"))
      | ["S"; op; size; sg; l; r] ->
        (match binop_spec (binop_of op) (ity_of size sg) (z_of_dec l) (z_of_dec r) with
         | Some v -> Printf.printf "some %s\n" (shex v)
         | None -> print_endline "none")
      | ["N"; op; size; sg; l] ->
        (match unop_spec (unop_of op) (ity_of size sg) (z_of_dec l) with
         | Some v -> Printf.printf "some %s\n" (shex v)
         | None -> print_endline "none")
      | ["V"; "b"; v] -> Printf.printf "some %s\n" (shex (conv_bool_spec (z_of_dec v)))
      | ["V"; size; sg; v] -> Printf.printf "some %s\n" (shex (conv_spec (ity_of size sg) (z_of_dec v)))
      | [] -> ()
      | _ -> Printf.printf "? %s\n" line
      with Failure m -> Printf.printf "? %s (%s)\n" line m)
    done
  with End_of_file -> ())
