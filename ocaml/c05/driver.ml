(* Line-oriented driver around the extracted C05 model (Model/Types.v).
   Types are written in prefix notation, tokens separated by blanks:
     V void | N nullptr_t | B<i> basic i (index in all_basics) | E<id>.<i> enum | S<id> | U<id>
     P<q> T | A<q> <len> T  (len: i incomplete, n no constant length, c<digits>) | F<q> <v> <n> Tret T1..Tn
   Commands (one per line; answers one line each):
     tables | promote tg w T | common tg w1 w2 T1 T2 | hasint tg i sign T | compat T1 T2
     inttype tg val decimal sfx | binop tg op w1 c1 w2 c2 T1 T2 | unop tg op w T | cond tg w1 c1 w2 c2 T1 T2
     assign c Te Tt | adjust tq pq T | enumbase tg min max | charconst tg p | strelem tg p
   c is `-` (not a constant) or a decimal value; w is a decimal width (4294967295 = not a bit-field). *)
open Model

let rec pos_of_int i = if i = 1 then XH else if i land 1 = 0 then XO (pos_of_int (i lsr 1)) else XI (pos_of_int (i lsr 1))
let z_of_int i = if i = 0 then Z0 else if i > 0 then Zpos (pos_of_int i) else Zneg (pos_of_int (-i))
let rec int_of_pos = function XH -> 1 | XO p -> 2 * int_of_pos p | XI p -> 2 * int_of_pos p + 1
let int_of_z = function Z0 -> 0 | Zpos p -> int_of_pos p | Zneg p -> - (int_of_pos p)
let rec int_of_nat = function O -> 0 | S n -> 1 + int_of_nat n

(* decimal string (up to 2^64) -> z, using the extracted arithmetic *)
let z_of_string s =
  let ten = z_of_int 10 in
  let neg = String.length s > 0 && s.[0] = '-' in
  let r = ref Z0 in
  String.iteri (fun i c -> if not (neg && i = 0) then r := Z.add (Z.mul !r ten) (z_of_int (Char.code c - 48))) s;
  if neg then Z.opp !r else !r

let basics = Array.of_list all_basics
let basic_index b = let r = ref (-1) in Array.iteri (fun i x -> if x = b then r := i) basics; !r
let targs = Array.of_list alltargs

let kind_name = function
  | KVoid -> "TYPEVOID" | KBool -> "TYPEBOOL" | KChar -> "TYPECHAR" | KShort -> "TYPESHORT" | KInt -> "TYPEINT"
  | KEnum -> "TYPEENUM" | KLong -> "TYPELONG" | KLLong -> "TYPELLONG" | KFloat -> "TYPEFLOAT"
  | KDouble -> "TYPEDOUBLE" | KLDouble -> "TYPELDOUBLE" | KPointer -> "TYPEPOINTER" | KArray -> "TYPEARRAY"
  | KFunc -> "TYPEFUNC" | KStruct -> "TYPESTRUCT" | KUnion -> "TYPEUNION" | KNullptr -> "TYPENULLPTR"
let all_kinds = [KVoid; KBool; KChar; KShort; KInt; KEnum; KLong; KLLong; KFloat; KDouble; KLDouble; KPointer;
                 KArray; KFunc; KStruct; KUnion; KNullptr]

let basic_name = function
  | BBool -> "typebool" | BChar -> "typechar" | BSChar -> "typeschar" | BUChar -> "typeuchar"
  | BShort -> "typeshort" | BUShort -> "typeushort" | BInt -> "typeint" | BUInt -> "typeuint"
  | BLong -> "typelong" | BULong -> "typeulong" | BLLong -> "typellong" | BULLong -> "typeullong"
  | BFloat -> "typefloat" | BDouble -> "typedouble" | BLDouble -> "typeldouble"

(* ---- type syntax ---- *)
let rec parse_ty (toks : string list) : ty * string list =
  match toks with
  | [] -> failwith "type expected"
  | t :: rest ->
    let arg () = String.sub t 1 (String.length t - 1) in
    (match t.[0] with
     | 'V' -> (TVoid, rest)
     | 'N' -> (TNullptr, rest)
     | 'B' -> (TBasic basics.(int_of_string (arg ())), rest)
     | 'E' -> (match String.split_on_char '.' (arg ()) with
         | [id; b] -> (TEnum (z_of_int (int_of_string id), basics.(int_of_string b)), rest)
         | _ -> failwith "enum")
     | 'S' -> (TStruct (z_of_int (int_of_string (arg ()))), rest)
     | 'U' -> (TUnion (z_of_int (int_of_string (arg ()))), rest)
     | 'P' -> let (b, r) = parse_ty rest in (TPtr (b, z_of_int (int_of_string (arg ()))), r)
     | 'A' -> (match rest with
         | l :: rest' ->
           let len = if l = "i" then AIncomplete else if l = "n" then ANoConst
             else AConst (z_of_string (String.sub l 1 (String.length l - 1))) in
           let (b, r) = parse_ty rest' in (TArr (b, z_of_int (int_of_string (arg ())), len), r)
         | [] -> failwith "array")
     | 'F' -> (match rest with
         | v :: n :: rest' ->
           let (ret, r) = parse_ty rest' in
           let r = ref r and ps = ref [] in
           for _ = 1 to int_of_string n do
             let (p, r') = parse_ty !r in ps := p :: !ps; r := r'
           done;
           (TFunc (ret, z_of_int (int_of_string (arg ())), List.rev !ps, v = "1"), !r)
         | _ -> failwith "func")
     | _ -> failwith ("bad type token " ^ t))

let rec show_ty = function
  | TVoid -> "V" | TNullptr -> "N"
  | TBasic b -> Printf.sprintf "B%d" (basic_index b)
  | TEnum (id, b) -> Printf.sprintf "E%d.%d" (int_of_z id) (basic_index b)
  | TStruct id -> Printf.sprintf "S%d" (int_of_z id)
  | TUnion id -> Printf.sprintf "U%d" (int_of_z id)
  | TPtr (b, q) -> Printf.sprintf "P%d %s" (int_of_z q) (show_ty b)
  | TArr (b, q, l) ->
    Printf.sprintf "A%d %s %s" (int_of_z q)
      (match l with AIncomplete -> "i" | ANoConst -> "n" | AConst n -> "c" ^ string_of_int (int_of_z n)) (show_ty b)
  | TFunc (r, q, ps, v) ->
    Printf.sprintf "F%d %d %d %s%s" (int_of_z q) (if v then 1 else 0) (List.length ps) (show_ty r)
      (String.concat "" (List.map (fun p -> " " ^ show_ty p) ps))

let show_oty = function Some t -> show_ty t | None -> "none"
let show_ob = function Some b -> Printf.sprintf "B%d" (basic_index b) | None -> "none"
let cst s = if s = "-" then None else Some (z_of_string s)
let codes s = if s = "-" then [] else List.init (String.length s) (fun i -> z_of_int (Char.code s.[i]))
let binops = [| OLor; OLand; OEql; ONeq; OLess; OGreater; OLeq; OGeq; OBor; OXor; OBand; OAdd; OSub; OMod; OMul; ODiv; OShl; OShr |]
let unops = [| UPlus; UMinus; UBnot; ULnot |]
let prefixes = [| PNone; PL; Pu8; Pu; PU |]
let b01 b = if b then "1" else "0"

let tables () =
  List.iter (fun b ->
      let (((k, sz), sg), p) = basic_row b in
      Printf.printf "row %s %s %d %d %d\n" (basic_name b) (kind_name k) (int_of_z sz) (if sg then 1 else 0) (int_of_z p))
    all_basics;
  List.iter (fun k -> let r = int_of_z (rank_of_kind k) in if r <> 0 then Printf.printf "rank %s %d\n" (kind_name k) r) all_kinds;
  List.iter (fun ((b, e1), e2) ->
      let s l = if l = [] then "-" else String.concat "" (List.map (fun c -> String.make 1 (Char.chr (int_of_z c))) l) in
      Printf.printf "limit %s %s %s\n" (basic_name b) (s e1) (s e2)) limits;
  List.iter (fun t -> Printf.printf "targ %d %d %s\n" (int_of_z t.tname) (if t.signedchar then 1 else 0) (basic_name t.wchar)) alltargs;
  List.iter (fun (u, s) -> Printf.printf "enumtypes %s %s\n" (basic_name u) (basic_name s)) enum_inttypes;
  Printf.printf "sizeof %s\nptrdiff %s\nend\n" (basic_name sizeof_type) (basic_name ptrdiff_type)

let () =
  let tg s = targs.(int_of_string s) in
  (try
    while true do
      let line = input_line stdin in
      let toks = List.filter (fun s -> s <> "") (String.split_on_char ' ' line) in
      (try
        match toks with
        | [] -> ()
        | ["tables"] -> tables ()
        | "promote" :: t :: w :: ty ->
          let (a, _) = parse_ty ty in print_endline (show_ty (typepromote (tg t) a (z_of_string w)))
        | "common" :: t :: w1 :: w2 :: tys ->
          let (a, r) = parse_ty tys in let (b, _) = parse_ty r in
          print_endline (show_oty (typecommonreal (tg t) a (z_of_string w1) b (z_of_string w2)))
        | "hasint" :: t :: i :: s :: ty ->
          let (a, _) = parse_ty ty in print_endline (b01 (typehasint (tg t) a (z_of_string i) (s = "1")))
        | "compat" :: tys ->
          let (a, r) = parse_ty tys in let (b, _) = parse_ty r in print_endline (b01 (typecompatible a b))
        | ["inttype"; t; v; d; sfx] -> print_endline (show_ob (inttype (tg t) (z_of_string v) (d = "1") (codes sfx)))
        | "binop" :: t :: op :: w1 :: c1 :: w2 :: c2 :: tys ->
          let (a, r) = parse_ty tys in let (b, _) = parse_ty r in
          print_endline (show_oty (binop_type (tg t) binops.(int_of_string op)
                                     { otype = a; owidth = z_of_string w1; oconst = cst c1 }
                                     { otype = b; owidth = z_of_string w2; oconst = cst c2 }))
        | "unop" :: t :: op :: w :: ty ->
          let (a, _) = parse_ty ty in
          print_endline (show_oty (unop_type (tg t) unops.(int_of_string op) { otype = a; owidth = z_of_string w; oconst = None }))
        | "cond" :: t :: w1 :: c1 :: w2 :: c2 :: tys ->
          let (a, r) = parse_ty tys in let (b, _) = parse_ty r in
          print_endline (show_oty (cond_type (tg t) { otype = a; owidth = z_of_string w1; oconst = cst c1 }
                                     { otype = b; owidth = z_of_string w2; oconst = cst c2 }))
        | "assign" :: c :: tys ->
          let (a, r) = parse_ty tys in let (b, _) = parse_ty r in
          print_endline (b01 (exprassign_ok { otype = a; owidth = nOWIDTH; oconst = cst c } b))
        | "adjust" :: tq :: pq :: ty ->
          let (a, _) = parse_ty ty in
          (match typeadjust a (z_of_string tq) (z_of_string pq) with
           | Some (t', q) -> Printf.printf "%s / %d\n" (show_ty t') (int_of_z q)
           | None -> print_endline "none")
        | ["enumbase"; t; mn; mx] -> print_endline (show_ob (enum_base (tg t) (z_of_string mn) (z_of_string mx)))
        | ["charconst"; t; p] -> print_endline (show_ob (Some (charconst_type (tg t) prefixes.(int_of_string p))))
        | ["strelem"; t; p] -> print_endline (show_ob (Some (string_elem (tg t) prefixes.(int_of_string p))))
        | _ -> Printf.printf "? %s\n" line
      with Failure m | Invalid_argument m -> Printf.printf "! %s: %s\n" m line)
    done
  with End_of_file -> ())
