(* C06 oracle: line-oriented driver around the extracted Layout model and AbiLayout specification.
   See props/c06.py for the protocol. Numbers are decimal, arbitrary size (Coq's Z). *)
open Model

let rec pos_of_int n = if n = 1 then XH else if n land 1 = 0 then XO (pos_of_int (n lsr 1)) else XI (pos_of_int (n lsr 1))
let z_of_int n = if n = 0 then Z0 else if n > 0 then Zpos (pos_of_int n) else Zneg (pos_of_int (-n))
let ten = z_of_int 10
let z_of_string s =
  let neg = String.length s > 0 && s.[0] = '-' in
  let acc = ref Z0 in
  String.iteri (fun i c -> if not (i = 0 && neg) then begin
      if c < '0' || c > '9' then failwith ("bad number " ^ s);
      acc := Z.add (Z.mul !acc ten) (z_of_int (Char.code c - 48)) end) s;
  if neg then Z.opp !acc else !acc
let rec int_of_pos = function XH -> 1 | XO p -> 2 * int_of_pos p | XI p -> 2 * int_of_pos p + 1
let int_of_z = function Z0 -> 0 | Zpos p -> int_of_pos p | Zneg p -> - (int_of_pos p)
let string_of_z z =
  let neg, z = (match z with Zneg p -> true, Zpos p | _ -> false, z) in
  if z = Z0 then "0" else begin
    let b = Buffer.create 24 in
    let rec go z = if z <> Z0 then begin go (Z.div z ten); Buffer.add_char b (Char.chr (48 + int_of_z (Z.modulo z ten))) end in
    go z; (if neg then "-" else "") ^ Buffer.contents b end
let zs = string_of_z
let bs b = if b then "1" else "0"
let bool_of s = s = "1"

let err_name = function
  | EAfterFlex -> "EAfterFlex" | EIncomplete -> "EIncomplete" | EContainsFlex -> "EContainsFlex"
  | EFuncType -> "EFuncType" | EVarMod -> "EVarMod" | EAssertAlign -> "EAssertAlign"
  | ELessStrict -> "ELessStrict" | EBfType -> "EBfType" | EBfAlign -> "EBfAlign" | EBfPacked -> "EBfPacked"
  | EBfZeroNamed -> "EBfZeroNamed" | EBfWidth -> "EBfWidth" | ENoMembers -> "ENoMembers"
  | EArrElemIncomplete -> "EArrElemIncomplete" | EArrElemFunc -> "EArrElemFunc" | EArrNeg -> "EArrNeg"
  | EArrTooLarge -> "EArrTooLarge" | EArrVM -> "EArrVM"
  | EEnumNoType -> "EEnumNoType" | EEnumFixedRange -> "EEnumFixedRange" | EEnumAssert -> "EEnumAssert"
  | EEnumNoTypeAll -> "EEnumNoTypeAll" | ENoMember -> "ENoMember" | ENotArray -> "ENotArray" | ENotRecord -> "ENotRecord"

(* ti: the model's view of the type; sti: the specification's view under the two rule sets (None: rejected) *)
type tent = { ti : tinfo; sti : tinfo option array; cty : cty; ity : itype option }
let types : (int, tent) Hashtbl.t = Hashtbl.create 256
let get id = try Hashtbl.find types id with Not_found -> failwith ("unknown type id " ^ string_of_int id)

(* record under construction *)
type recb = {
  rid : int; rstruct : bool; rpack : bool;
  mutable mb : builder res;
  mutable sp : sstate option array;           (* sysv, aapcs64 *)
  mutable created : (z option * cty) list;    (* reversed: name and type of every item that creates a member *)
}
let cur : recb option ref = ref None
type enumb = { eid : int; efixed : itype option; mutable est : estate res; mutable inputs : (z * itype) option list (* reversed *) }
let ecur : enumb option ref = ref None

let pr = print_string
let prl s = print_string s; print_char '\n'

let retype (it : item) (t : tinfo) : item =
  match it with
  | INamed (_, a, w) -> INamed (t, a, w)
  | IAnon (_, a) -> IAnon (t, a)
  | IUnnamedBf (_, w) -> IUnnamedBf (t, w)

let add_item (it : item) (name : z option) (te : tent) =
  let c = te.cty in
  match !cur with
  | None -> failwith "no record open"
  | Some r ->
    (match r.mb with
     | Ok b -> (match structdecl b it with
         | Ok b' -> r.mb <- Ok b';
           (match it with IUnnamedBf _ -> () | _ -> r.created <- (name, c) :: r.created);
           prl "m ok"
         | Err e -> r.mb <- Err e; prl ("m err " ^ err_name e))
     | Err e -> prl ("m skipped"));
    r.sp <- Array.mapi (fun i st -> match st with
        | None -> None
        | Some st -> (match te.sti.(i) with
            | None -> None
            | Some t -> place (if i = 0 then rules_sysv else rules_aapcs64) r.rstruct r.rpack st (retype it t))) r.sp

let print_members pre ms =
  List.iter (fun m -> prl (Printf.sprintf "%s %s %s %s %s %s" pre (bs m.m_named) (zs m.m_tsize) (zs m.m_offset) (zs m.m_before) (zs m.m_after))) ms

let width_of s = if s = "none" then None else Some (z_of_string s)

let handle line =
  let toks = List.filter (fun s -> s <> "") (String.split_on_char ' ' line) in
  match toks with
  | [] -> ()
  | "scalar" :: id :: size :: align :: isint :: rest ->
    let size = z_of_string size and align = z_of_string align in
    let ity = (match rest with [sg] when bool_of isint -> Some { i_id = z_of_int (int_of_string id); i_size = size; i_signed = bool_of sg } | _ -> None) in
    Hashtbl.replace types (int_of_string id)
      (let ti = { t_size = size; t_align = align; t_int = bool_of isint; t_array = false; t_incomplete = false;
                  t_flexible = false; t_func = false; t_vm = false } in
       { ti; sti = [| Some ti; Some ti |]; cty = CScalar size; ity })
  | [ "raw"; id; size; align; isint; isarr; inc; flex; func; vm ] ->
    let size = z_of_string size in
    Hashtbl.replace types (int_of_string id)
      (let ti = { t_size = size; t_align = z_of_string align; t_int = bool_of isint; t_array = bool_of isarr;
                  t_incomplete = bool_of inc; t_flexible = bool_of flex; t_func = bool_of func; t_vm = bool_of vm } in
       { ti; sti = [| Some ti; Some ti |]; cty = CScalar size; ity = None })
  | [ "array"; id; base; len; sg ] ->
    let b = get (int_of_string base) in
    let l = (if len = "none" then None else Some (z_of_string len, bool_of sg)) in
    (match array_type b.ti l with
     | Ok t ->
       let sti = Array.map (fun st -> match st with
           | None -> None
           | Some bt -> (match array_type bt l with Ok t -> Some t | Err _ -> None)) b.sti in
       Hashtbl.replace types (int_of_string id) { ti = t; sti; cty = CArray (b.cty, b.ti.t_size); ity = None };
       prl (Printf.sprintf "array ok %s %s spec %s" (zs t.t_size) (zs t.t_align)
              (match l with Some (n, _) -> zs (spec_array_size b.ti.t_size n) | None -> "0"))
     | Err e -> prl ("array err " ^ err_name e))
  | [ "rec"; id; st; pack ] ->
    cur := Some { rid = int_of_string id; rstruct = bool_of st; rpack = bool_of pack;
                  mb = Ok (binit (bool_of st) (bool_of pack)); sp = [| Some sinit; Some sinit |]; created = [] }
  | [ "m"; tid; name; alignas; width ] ->
    let t = get (int_of_string tid) in
    add_item (INamed (t.ti, z_of_string alignas, width_of width)) (Some (z_of_string name)) t
  | [ "a"; tid; alignas ] ->
    let t = get (int_of_string tid) in
    add_item (IAnon (t.ti, z_of_string alignas)) None t
  | [ "u"; tid; width ] ->
    let t = get (int_of_string tid) in
    add_item (IUnnamedBf (t.ti, z_of_string width)) None t
  | [ "end" ] ->
    (match !cur with
     | None -> failwith "no record open"
     | Some r ->
       let specs = Array.map (fun st -> match st with Some st -> spec_finish st | None -> None) r.sp in
       (match (match r.mb with Ok b -> finish b | Err e -> Err e) with
        | Ok (t, ms) ->
          let entries = List.map2 (fun (name, c) m -> (((name, m.m_offset), (m.m_before, m.m_after)), c)) (List.rev r.created) ms in
          Hashtbl.replace types r.rid { ti = t; sti = Array.map (fun x -> match x with Some (t, _) -> Some t | None -> None) specs;
                                        cty = CRecord entries; ity = None };
          prl (Printf.sprintf "rec ok %s %s %s %d" (zs t.t_size) (zs t.t_align) (bs t.t_flexible) (List.length ms));
          print_members "mem" ms
        | Err e -> prl ("rec err " ^ err_name e));
       Array.iteri (fun i sp ->
           let nm = if i = 0 then "sysv" else "aapcs64" in
           match sp with
           | Some (t, ms) ->
             prl (Printf.sprintf "spec %s ok %s %s %s %d" nm (zs t.t_size) (zs t.t_align) (bs t.t_flexible) (List.length ms));
             print_members "smem" ms
           | None -> prl (Printf.sprintf "spec %s none" nm)) specs;
       cur := None)
  | [ "enum"; id; fixed ] ->
    let f = (if fixed = "none" then None else (get (int_of_string fixed)).ity) in
    ecur := Some { eid = int_of_string id; efixed = f; est = Ok (einit f); inputs = [] }
  | ("e" | "i" | "z") :: args ->
    (match !ecur with
     | None -> failwith "no enum open"
     | Some en ->
       (match en.est with
        | Err _ -> prl "e skipped"
        | Ok st ->
          let inp = (match toks with
              | [ "e"; v; tid ] -> (match (get (int_of_string tid)).ity with Some t -> Some (z_of_string v, t) | None -> failwith "not an integer type")
              | [ "i" ] -> None
              | [ "z"; k ] -> let (_, t) = List.nth st.e_consts (int_of_string k) in Some (t.i_size, tulong)
              | _ -> failwith "bad enumerator line") in
          en.inputs <- inp :: en.inputs;
          (match enum_step (en.efixed <> None) st inp with
           | Ok st' -> en.est <- Ok st';
             let t = st'.e_et in
             prl (Printf.sprintf "e ok %s %s %s %s" (zs st'.e_value) (zs t.i_id) (zs t.i_size) (bs t.i_signed))
           | Err e -> en.est <- Err e; prl ("e err " ^ err_name e))))
  | [ "endenum" ] ->
    (match !ecur with
     | None -> failwith "no enum open"
     | Some en ->
       (match (match en.est with Ok st -> enum_finish en.efixed st | Err e -> Err e) with
        | Ok (b, cs) ->
          let ti = { t_size = b.i_size; t_align = b.i_size; t_int = true; t_array = false; t_incomplete = false;
                     t_flexible = false; t_func = false; t_vm = false } in
          Hashtbl.replace types en.eid
            { ti; sti = [| Some ti; Some ti |];
              cty = CScalar b.i_size; ity = Some { i_id = z_of_int en.eid; i_size = b.i_size; i_signed = b.i_signed } };
          prl (Printf.sprintf "enum ok %s %s %s %d" (zs b.i_id) (zs b.i_size) (bs b.i_signed) (List.length cs));
          List.iter (fun (v, t) -> prl (Printf.sprintf "ec %s %s %s %s %s" (zs v) (zs t.i_id) (zs t.i_size) (bs t.i_signed) (zs (mval t.i_signed v)))) cs
        | Err e -> prl ("enum err " ^ err_name e));
       (match spec_enum en.efixed (List.rev en.inputs) with
        | Some ((b, allint), vs) ->
          prl (Printf.sprintf "espec ok %s %s %s %s %s" (zs b.i_id) (zs b.i_size) (bs b.i_signed) (bs allint)
                 (String.concat "," (List.map zs vs)))
        | None -> prl "espec none");
       ecur := None)
  | "off" :: tid :: name :: ds ->
    let t = get (int_of_string tid) in
    let ds = List.map (fun d ->
        if d.[0] = '.' then DField (z_of_string (String.sub d 1 (String.length d - 1)))
        else DIdx (z_of_string (String.sub d 1 (String.length d - 2)))) ds in
    (match offsetof t.cty (z_of_string name) ds with
     | Ok (o, (b, a)) ->
       let sp = (match lookup (z_of_string name) (fields t.cty Z0) with
           | Some ((o, _), _) -> zs o | None -> "none") in
       prl (Printf.sprintf "off ok %s %s %s first %s" (zs o) (zs b) (zs a) sp)
     | Err e -> prl ("off err " ^ err_name e))
  | [ "hasint"; size; sg; v; sign ] ->
    prl ("hasint " ^ bs (typehasint { i_id = Z0; i_size = z_of_string size; i_signed = bool_of sg } (z_of_string v) (bool_of sign)))
  | [ "alignup"; x; n ] -> prl ("alignup " ^ zs (alignup (z_of_string x) (z_of_string n)))
  | _ -> failwith ("bad line: " ^ line)

let () =
  try
    while true do
      let line = input_line stdin in
      (try handle line with Failure m -> prl ("error " ^ m))
    done
  with End_of_file -> ()
