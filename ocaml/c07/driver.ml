(* Line-oriented driver around the extracted C07 models (Init / DataEmit / AutoInit / InitSpec).
   Input (numbers unsigned decimal, < 2^64):
     T <s|a|S|U> <size> <align> <incomplete> <base> <int> <char> <flt> <signed> <bool> <ptr> <compat>   append a type
     M <type> <name|-> <membertype> <off> <before> <after>                                           append a member
     R <root type>          A <object alignment>         O <id> <hex bytes>     opaque run-time value
     K <tok> ...            { } , [n .name = i:v:f32:f64 f:f32:f64:toint s:w:ischar:compat:sym:e.e.e a:sym:off g:compat:size:align:id v:id
     L <tok> ...            a brace-complete designator-free initializer for InitSpec.elab (same token syntax)
     G                      run, print, reset
   Output of G:
     P ok <size> <tokens left> | P err <name>
     I <start> <end> <before> <after> <expr>          one per entry of the init list, in list order
     D ok <item> ... | D err <name>                   emitdata
     DB <hex>       bytes of the items               DN <hex>    InitSpec.image of (map leaf_of list)
     F ok <op> ... | F err <name>                     funcinit
     FM <hex>       memory after the stores, started from 0xAA bytes, object size + 16 bytes
     E <hex> | E none                                 InitSpec.image of InitSpec.elab (only after L)
     .                                                                                                   *)
open Model

let rec nat_of_int i = if i <= 0 then O else S (nat_of_int (i - 1))
let rec int_of_nat = function O -> 0 | S n -> 1 + int_of_nat n
let rec pos_of_i64 (i : int64) : positive =
  if Int64.equal i 1L then XH
  else
    let rest = pos_of_i64 (Int64.shift_right_logical i 1) in
    if Int64.equal (Int64.logand i 1L) 0L then XO rest else XI rest
let n_of_i64 i = if Int64.equal i 0L then N0 else Npos (pos_of_i64 i)
let rec i64_of_pos = function
  | XH -> 1L
  | XO p -> Int64.shift_left (i64_of_pos p) 1
  | XI p -> Int64.logor (Int64.shift_left (i64_of_pos p) 1) 1L
let i64_of_n = function N0 -> 0L | Npos p -> i64_of_pos p
let n_of_string s = n_of_i64 (Int64.of_string ("0u" ^ s))
let string_of_n n = Printf.sprintf "%Lu" (i64_of_n n)
let n_of_int i = n_of_i64 (Int64.of_int i)
let int_of_n n = Int64.to_int (i64_of_n n)
let b01 s = s = "1"

let hex_of_bytes l = String.concat "" (List.map (fun b -> Printf.sprintf "%02x" (int_of_n b land 255)) l)
let bytes_of_hex s = List.init (String.length s / 2) (fun i -> n_of_int (int_of_string ("0x" ^ String.sub s (2 * i) 2)))

let symaddr_f s = w64 (N.add (n_of_string "6485183463413514240") (N.mul (N.add s (n_of_int 1)) (n_of_int 16777216)))   (* 0x5a00000000000000 + (s+1) * 2^24 *)

let perr_name = function
  | ErrIdxNotArray -> "IdxNotArray" | ErrIdxTooLarge -> "IdxTooLarge" | ErrMemNotStruct -> "MemNotStruct"
  | ErrNoMember -> "NoMember" | ErrExpectAssign -> "ExpectAssign" | ErrFlexible -> "Flexible"
  | ErrTooManyDesig -> "TooManyDesig" | ErrCursorType -> "CursorType" | ErrTooMany -> "TooMany"
  | ErrIncompleteType -> "IncompleteType" | ErrVLA -> "VLA" | ErrEmptyIncomplete -> "EmptyIncomplete"
  | ErrNestedBrace -> "NestedBrace" | ErrAssertArray -> "AssertArray" | ErrStringWidth -> "StringWidth"
  | ErrExpectCommaBrace -> "ExpectCommaBrace" | ErrAssign -> "Assign" | ErrExpectExpr -> "ExpectExpr"
  | ErrNoMembers -> "NoMembers" | ErrUninit -> "Uninit" | ErrInternal -> "Internal" | ErrFuel -> "Fuel"

let dotlist s = if s = "" then [] else List.map n_of_string (String.split_on_char '.' s)
let strdots l = String.concat "." (List.map string_of_n l)

let tok_of s =
  match s with
  | "{" -> TLBrace | "}" -> TRBrace | "," -> TComma | "=" -> TAssign
  | _ ->
    if s.[0] = '[' then TLBrack (n_of_string (String.sub s 1 (String.length s - 1)))
    else if s.[0] = '.' then TPeriod (n_of_string (String.sub s 1 (String.length s - 1)))
    else match String.split_on_char ':' s with
      | ["i"; v; a; b] -> TExpr (XInt (n_of_string v, n_of_string a, n_of_string b))
      | ["f"; a; b; t] -> TExpr (XFlt (n_of_string a, n_of_string b, n_of_string t))
      | ["s"; w; c; k; sym; d] -> TExpr (XStr (n_of_string w, b01 c, n_of_string k, dotlist d, n_of_string sym))
      | ["a"; sym; off] -> TExpr (XAddr (n_of_string sym, n_of_string off))
      | ["g"; k; sz; al; id] -> TExpr (XAgg (n_of_string k, n_of_string sz, n_of_string al, n_of_string id))
      | ["v"; id] -> TExpr (XVar (n_of_string id))
      | _ -> failwith ("bad token " ^ s)

let expr_str = function
  | EConst (f, sz, u) -> Printf.sprintf "c:%d:%s:%s" (if f then 1 else 0) (string_of_n sz) (string_of_n u)
  | EString (w, d) -> Printf.sprintf "s:%s:%s" (string_of_n w) (strdots d)
  | EAddr (s, o) -> Printf.sprintf "a:%s:%s" (string_of_n s) (string_of_n o)
  | EOpaque (a, sz, al, id) -> Printf.sprintf "o:%d:%s:%s:%s" (if a then 1 else 0) (string_of_n sz) (string_of_n al) (string_of_n id)

let item_str = function
  | IInt (sz, vs) -> Printf.sprintf "i%s=%s" (string_of_n sz) (strdots vs)
  | IFlt (sz, b) -> Printf.sprintf "f%s=%s" (string_of_n sz) (string_of_n b)
  | IZero n -> "z=" ^ string_of_n n
  | IStr bs -> "s=" ^ hex_of_bytes bs
  | IRef (s, o) -> Printf.sprintf "r=%s+%s" (string_of_n s) (string_of_n o)

let dres_name = function
  | DOk _ -> "ok" | DAssertCurString -> "AssertCurString" | DAssertInitConst -> "AssertInitConst"
  | DAssertBitfield -> "AssertBitfield" | DAssertSize -> "AssertSize" | DAssertWidth -> "AssertWidth"
  | DNotConst -> "NotConst" | DFuel -> "Fuel"

let aval_str = function
  | VConst u -> "c" ^ string_of_n u
  | VFlt (sz, b) -> Printf.sprintf "f%s.%s" (string_of_n sz) (string_of_n b)
  | VAddr (s, o) -> Printf.sprintf "a%s+%s" (string_of_n s) (string_of_n o)
  | VOpaque id -> "o" ^ string_of_n id

let aop_str = function
  | AZero (o, w) -> Printf.sprintf "Z:%s:%s" (string_of_n o) (string_of_n w)
  | AStore (o, s, v) -> Printf.sprintf "S:%s:%s:%s" (string_of_n o) (string_of_n s) (aval_str v)
  | ABits (o, s, b, a, v) -> Printf.sprintf "B:%s:%s:%s:%s:%s" (string_of_n o) (string_of_n s) (string_of_n b) (string_of_n a) (aval_str v)
  | ACopy (o, s, a, id) -> Printf.sprintf "C:%s:%s:%s:%s" (string_of_n o) (string_of_n s) (string_of_n a) (string_of_n id)

(* tokens of a brace-complete designator-free initializer -> sinit *)
let rec parse_sinit toks =
  match toks with
  | TExpr e :: r -> (SE e, r)
  | TLBrace :: TRBrace :: r -> (SL [], r)
  | TLBrace :: r ->
    let rec items r acc =
      let (it, r) = parse_sinit r in
      match r with
      | TComma :: TRBrace :: r -> (SL (List.rev (it :: acc)), r)
      | TComma :: r -> items r (it :: acc)
      | TRBrace :: r -> (SL (List.rev (it :: acc)), r)
      | _ -> failwith "bad L line" in
    items r []
  | _ -> failwith "bad L line"

let () =
  let types = ref [] and toks = ref [] and root = ref 0 and oalign = ref (n_of_int 1) and opq = ref [] and ltoks = ref None in
  let reset () = types := []; toks := []; root := 0; oalign := n_of_int 1; opq := []; ltoks := None in
  let out = Buffer.create 65536 in
  let pr fmt = Printf.bprintf out fmt in
  (try
    while true do
      let line = input_line stdin in
      match String.split_on_char ' ' line with
      | ["T"; k; size; align; inc; base; i; c; f; sg; bo; pt; compat] ->
        let kind = (match k with "s" -> KScalar | "a" -> KArray | "S" -> KStruct | _ -> KUnion) in
        types := !types @ [ref { t_kind = kind; t_size = n_of_string size; t_align = n_of_string align; t_incomplete = b01 inc;
                                 t_base = nat_of_int (int_of_string base); t_members = []; t_int = b01 i; t_char = b01 c; t_flt = b01 f;
                                 t_signed = b01 sg; t_bool = b01 bo; t_ptr = b01 pt; t_compat = n_of_string compat }]
      | ["M"; t; name; mt; off; before; aft] ->
        let r = List.nth !types (int_of_string t) in
        let m = { m_name = (if name = "-" then None else Some (n_of_string name)); m_type = nat_of_int (int_of_string mt);
                  m_off = n_of_string off; m_bits = { bf_before = n_of_string before; bf_after = n_of_string aft } } in
        r := { !r with t_members = !r.t_members @ [m] }
      | ["R"; r] -> root := int_of_string r
      | ["A"; a] -> oalign := n_of_string a
      | ["O"; id; hex] -> opq := (n_of_string id, bytes_num (bytes_of_hex hex)) :: !opq
      | "K" :: ts -> toks := List.map tok_of (List.filter (fun s -> s <> "") ts)
      | "L" :: ts -> ltoks := Some (List.map tok_of (List.filter (fun s -> s <> "") ts))
      | ["G"] ->
        let tbl = List.map (fun r -> !r) !types in
        let opqs = !opq in
        let en = { symaddr = symaddr_f; opaque = (fun id -> try snd (List.find (fun (i, _) -> N.eqb i id) opqs) with Not_found -> N0) } in
        (match parseinit tbl (nat_of_int !root) !toks with
         | Err e -> pr "P err %s\n" (perr_name e)
         | Ok ((l, size), rest) ->
           pr "P ok %s %d\n" (string_of_n size) (List.length rest);
           List.iter (fun i -> pr "I %s %s %s %s %s\n" (string_of_n i.i_start) (string_of_n i.i_end)
                                  (string_of_n i.i_bits.bf_before) (string_of_n i.i_bits.bf_after) (expr_str i.i_expr)) l;
           let nsz = nat_of_int (int_of_n size) in
           (match emitdata size l with
            | DOk items ->
              pr "D ok %s\n" (String.concat " " (List.map item_str items));
              pr "DB %s\n" (hex_of_bytes (items_bytes symaddr_f items))
            | r -> pr "D err %s\n" (dres_name r));
           pr "DN %s\n" (hex_of_bytes (le_bytes nsz (image en size (List.map leaf_of l))));
           (match funcinit size !oalign l with
            | AOk ops ->
              pr "F ok %s\n" (String.concat " " (List.map aop_str ops));
              let n16 = int_of_n size + 16 in
              let garbage = bytes_num (List.init n16 (fun _ -> n_of_int 0xAA)) in
              pr "FM %s\n" (hex_of_bytes (le_bytes (nat_of_int n16) (exec_all en garbage ops)))
            | AZeroFuel -> pr "F err ZeroFuel\n"
            | ABadStore w -> pr "F err BadStore%s\n" (string_of_n w));
           (match !ltoks with
            | None -> ()
            | Some lt ->
              (try
                 let (si, _) = parse_sinit lt in
                 (match elab tbl (nat_of_int 64) (nat_of_int !root) N0 nobits si with
                  | Some leaves -> pr "E %s\n" (hex_of_bytes (le_bytes nsz (image en size leaves)))
                  | None -> pr "E none\n")
               with Failure _ -> pr "E bad\n")));
        pr ".\n";
        print_string (Buffer.contents out); Buffer.clear out;
        reset ()
      | [""] -> ()
      | _ -> Printf.printf "? %s\n" line
    done
  with End_of_file -> ());
  print_string (Buffer.contents out)
