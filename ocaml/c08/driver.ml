(* Line-oriented driver around the extracted C08 model (Emittype) and specification (QbeAgg).
   One command per line, tokens separated by blanks; see props/c08.py for the producer.

   type expressions (prefix):
     s <kind>                         scalar: bool char schar uchar short ushort int uint long ulong llong ullong float double ptr nullptr
     e <ikind>                        enumerated type with that underlying type
     a <size> T                       array, t->size
     r <uid> <tag|-> <S|U> <vl> <size> <align> <n> (T <off> <bf>)*n      bf: - or before,after
     @name                            a type bound with DEF
   commands:
     RESET <sc>                       new translation unit, targ->signedchar
     DEF <name> T
     FUNC <ret|void> <isvararg> <n> T*n                    -> type lines, HEAD ...
     CALL <ret|void> <isvararg> <nparam> <n> T*n           -> type lines, CALL ...
     XCALL <ret|void> <isvararg> <np> T*np <na> (T <w|->)*na   -> type lines, CALL ... (typeadjust, convert_args, call_types, callsig)
     CONV <isvararg> <np> T*np <na> (T <w|->)*na           -> CONV ...
     PROM T <w|->                                          -> PROM model spec
     ADJ T                                                 -> ADJ model spec
     QBT T                                                 -> QBT base data load
     INFO                                                  -> INFO lines for every description emitted so far
     CINFO T                                               -> CINFO natural size align classes | flat
     QDEF <id> <align|-> S <n> (item count)*n | U <k> (<n> (item count)*n)*k | O <size>
     QINFO                                                 -> INFO lines for the QDEF list, which is cleared
     CLASS <size> <align> <n> (off size kind)*n            -> CLASS sysv a64 rv *)
open Model

let rec pos_of_int i = if i = 1 then XH else if i land 1 = 0 then XO (pos_of_int (i lsr 1)) else XI (pos_of_int (i lsr 1))
let z_of_int i = if i = 0 then Z0 else if i > 0 then Zpos (pos_of_int i) else Zneg (pos_of_int (-i))
let rec int_of_pos = function XH -> 1 | XO p -> 2 * int_of_pos p | XI p -> 2 * int_of_pos p + 1
let int_of_z = function Z0 -> 0 | Zpos p -> int_of_pos p | Zneg p -> - (int_of_pos p)
let rec nat_of_int i = if i <= 0 then O else S (nat_of_int (i - 1))
let zi s = z_of_int (int_of_string s)

exception Bad of string

let ikind_of = function
  | "bool" -> IBool | "char" -> IChar | "schar" -> ISChar | "uchar" -> IUChar | "short" -> IShort | "ushort" -> IUShort
  | "int" -> IInt | "uint" -> IUInt | "long" -> ILong | "ulong" -> IULong | "llong" -> ILLong | "ullong" -> IULLong
  | s -> raise (Bad ("ikind " ^ s))
let ikind_name = function
  | IBool -> "bool" | IChar -> "char" | ISChar -> "schar" | IUChar -> "uchar" | IShort -> "short" | IUShort -> "ushort"
  | IInt -> "int" | IUInt -> "uint" | ILong -> "long" | IULong -> "ulong" | ILLong -> "llong" | IULLong -> "ullong"
let skind_of = function
  | "float" -> SkFloat | "double" -> SkDouble | "ptr" -> SkPtr | "nullptr" -> SkNullptr
  | s -> SkInt (ikind_of s)

let names : (string, ctype) Hashtbl.t = Hashtbl.create 64
let tags : (int, string) Hashtbl.t = Hashtbl.create 64       (* uid -> tag *)

(* parse one type expression from a token list *)
let rec ptype = function
  | "s" :: k :: r -> (CScal (skind_of k), r)
  | "e" :: k :: r -> (CScal (SkEnum (ikind_of k)), r)
  | "a" :: sz :: r -> let (e, r) = ptype r in (CArr (e, zi sz), r)
  | "r" :: uid :: tag :: k :: vl :: sz :: al :: n :: r ->
    Hashtbl.replace tags (int_of_string uid) (if tag = "-" then "" else tag);
    let rec mem n r = if n = 0 then (MNil, r) else begin
        let (t, r) = ptype r in
        match r with
        | off :: bf :: r ->
          let bf = if bf = "-" then None else
              (match String.split_on_char ',' bf with [b; a] -> Some (zi b, zi a) | _ -> raise (Bad "bf")) in
          let (rest, r) = mem (n - 1) r in
          (MCons (t, zi off, bf, rest), r)
        | _ -> raise (Bad "member")
      end in
    let (ms, r) = mem (int_of_string n) r in
    (CRec (zi uid, (k = "S"), (vl = "1"), zi sz, zi al, ms), r)
  | n :: r when String.length n > 1 && n.[0] = '@' ->
    (try (Hashtbl.find names (String.sub n 1 (String.length n - 1)), r) with Not_found -> raise (Bad ("unbound " ^ n)))
  | t :: _ -> raise (Bad ("type " ^ t))
  | [] -> raise (Bad "type expected")

let rec ptypes n r = if n = 0 then ([], r) else let (t, r) = ptype r in let (ts, r) = ptypes (n - 1) r in (t :: ts, r)
let pret = function "void" :: r -> (None, r) | r -> let (t, r) = ptype r in (Some t, r)

let cls_name = function Fb -> "b" | Fh -> "h" | Fw -> "w" | Fl -> "l" | Fs -> "s" | Fd -> "d"
let ld_name = function LdUB -> "loadub" | LdSB -> "loadsb" | LdUH -> "loaduh" | LdSH -> "loadsh" | LdW -> "loadw" | LdL -> "loadl" | LdS -> "loads" | LdD -> "loadd"

let sc = ref true
let st = ref est0
let printed = ref 0
let idtag : (int, string) Hashtbl.t = Hashtbl.create 64      (* id -> tag *)

let tname id = Printf.sprintf ":%s.%d" (try Hashtbl.find idtag id with Not_found -> "?") id
let item_str = function FBase c -> cls_name c | FType id -> tname (int_of_z id)
let field_str (it, c) = let c = int_of_z c in if c = 1 then item_str it else Printf.sprintf "%s %d" (item_str it) c

let def_str d =
  let b = Buffer.create 64 in
  Buffer.add_string b ("type " ^ tname (int_of_z d.td_id));
  (match d.td_body with
   | BOpaque sz ->
     Buffer.add_string b (Printf.sprintf " = align %d { %d }" (match d.td_align with Some a -> int_of_z a | None -> 0) (int_of_z sz))
   | BStruct fs ->
     Buffer.add_string b " = { ";
     List.iter (fun f -> Buffer.add_string b (field_str f ^ ", ")) fs;
     Buffer.add_string b "}"
   | BUnion alts ->
     Buffer.add_string b " = { ";
     List.iter (fun fs -> Buffer.add_string b "{ "; List.iter (fun f -> Buffer.add_string b (field_str f)) fs; Buffer.add_string b " } ") alts;
     Buffer.add_string b "}");
  Buffer.contents b

(* print the descriptions added since the last call *)
let flush_types () =
  List.iter (fun (u, id) -> Hashtbl.replace idtag (int_of_z id) (try Hashtbl.find tags (int_of_z u) with Not_found -> "")) !st.e_map;
  let out = !st.e_out in
  List.iteri (fun i d -> if i >= !printed then print_endline (def_str d)) out;
  printed := List.length out

let acls_str = function ABase c -> cls_name c | AType id -> tname (int_of_z id)

let kind_name = function KInt -> "i" | KFlt -> "f" | KOpaque -> "o"
let kind_of = function "i" -> KInt | "f" -> KFlt | "o" -> KOpaque | s -> raise (Bad ("kind " ^ s))
let sv_name = function SvNone -> "n" | SvSse -> "S" | SvInt -> "I"
let classes li =
  let s = match sysv_class li with SvMem -> "mem" | SvRegs (a, b) -> sv_name a ^ sv_name b in
  let a = match aapcs64_class li with A64Hfa (e, n) -> Printf.sprintf "hfa%dx%d" (int_of_z e) (int_of_z n)
                                    | A64Int n -> Printf.sprintf "int%d" (int_of_z n) | A64Mem -> "mem" in
  let r = match rv64_class li with
    | RvFp l -> "fp" ^ String.concat "" (List.map (fun (s, f) -> Printf.sprintf "%s%d" (if f then "f" else "i") (int_of_z s)) l)
    | RvInt n -> Printf.sprintf "int%d" (int_of_z n) | RvMem -> "mem" in
  Printf.sprintf "%s %s %s" s a r
let flat_str fl = String.concat " " (List.map (fun ((o, s), k) -> Printf.sprintf "%d:%d:%s" (int_of_z o) (int_of_z s) (kind_name k)) fl)
let info_line id = function
  | None -> Printf.printf "INFO %d NONE\n" id
  | Some li -> Printf.printf "INFO %d %d %d %s | %s\n" id (int_of_z li.l_size) (int_of_z li.l_align) (classes li) (flat_str li.l_flat)
let infos defs =
  let e = env_of defs in
  List.iter (fun d -> info_line (int_of_z d.td_id) (elookup d.td_id e)) defs

let rec type_str = function
  | CScal (SkInt i) -> ikind_name i
  | CScal (SkEnum i) -> "enum:" ^ ikind_name i
  | CScal SkFloat -> "float" | CScal SkDouble -> "double" | CScal SkPtr -> "ptr" | CScal SkNullptr -> "nullptr"
  | CArr (e, s) -> Printf.sprintf "arr%d(%s)" (int_of_z s) (type_str e)
  | CRec (u, _, _, _, _, _) -> Printf.sprintf "rec:%d" (int_of_z u)

let pwidth = function "-" -> None | w -> Some (zi w)
let qdefs : tdef list ref = ref []

let pitem = function
  | it :: c :: r ->
    let it = if it.[0] = ':' then FType (zi (String.sub it 1 (String.length it - 1)))
      else FBase (match it with "b" -> Fb | "h" -> Fh | "w" -> Fw | "l" -> Fl | "s" -> Fs | "d" -> Fd | _ -> raise (Bad ("item " ^ it))) in
    ((it, zi c), r)
  | _ -> raise (Bad "item")
let rec pitems n r = if n = 0 then ([], r) else let (f, r) = pitem r in let (fs, r) = pitems (n - 1) r in (f :: fs, r)

let handle toks =
  match toks with
  | ["RESET"; s] -> sc := (s = "1"); st := est0; printed := 0; Hashtbl.reset names; Hashtbl.reset tags; Hashtbl.reset idtag; qdefs := []
  | "DEF" :: n :: r -> let (t, _) = ptype r in Hashtbl.replace names n t
  | "FUNC" :: r ->
    let (ret, r) = pret r in
    (match r with
     | va :: n :: r ->
       let (ps, _) = ptypes (int_of_string n) r in
       let ps = List.map typeadjust ps in                      (* decl.c parameter() *)
       st := mkfunc_types !sc ret ps !st;
       flush_types ();
       let ((rc, pcs), v) = funchead !sc !st.e_map ret ps (va = "1") in
       (* mkfunc stores every scalar parameter into its slot with qbetype(d->type).data *)
       let stores = List.filter_map (fun p -> match p with CScal _ -> Some (cls_name (qbetype !sc p).q_data) | _ -> None) ps in
       (* and reads a sub-word integer parameter back with qbetype(d->type).load *)
       let loads = List.filter_map (fun p -> match p with
           | CScal k -> let q = qbetype !sc p in (match q.q_load with LdUB | LdSB | LdUH | LdSH -> Some (ld_name q.q_load) | _ -> None)
           | _ -> None) ps in
       Printf.printf "HEAD %s |%s|%s | store%s | load%s\n" (match rc with Some c -> acls_str c | None -> "-")
         (String.concat "" (List.map (fun c -> " " ^ acls_str c) pcs)) (if v then " ..." else "")
         (String.concat "" (List.map (fun c -> " " ^ c) stores)) (String.concat "" (List.map (fun c -> " " ^ c) loads))
     | _ -> raise (Bad "FUNC"))
  | "CALL" :: r ->
    let (ret, r) = pret r in
    (match r with
     | va :: np :: n :: r ->
       let (args, _) = ptypes (int_of_string n) r in
       st := call_types !sc ret args !st;
       flush_types ();
       let (rc, acs) = callsig !sc !st.e_map ret (va = "1") (nat_of_int (int_of_string np)) args in
       Printf.printf "CALL %s |%s\n" (match rc with Some c -> acls_str c | None -> "-")
         (String.concat "" (List.map (function Some c -> " " ^ acls_str c | None -> " ...") acs))
     | _ -> raise (Bad "CALL"))
  | "XCALL" :: r ->
    (* the whole path of one call expression: parameter adjustment, argument conversion, types, call *)
    let (ret, r) = pret r in
    (match r with
     | va :: np :: r ->
       let (ps, r) = ptypes (int_of_string np) r in
       let ps = List.map typeadjust ps in
       (match r with
        | na :: r ->
          let rec pa n r = if n = 0 then [] else
              let (t, r) = ptype r in (match r with w :: r -> (t, pwidth w) :: pa (n - 1) r | [] -> raise (Bad "XCALL width")) in
          let args = pa (int_of_string na) r in
          (match convert_args !sc (va = "1") ps args with
           | ArgOk args ->
             st := call_types !sc ret args !st;
             flush_types ();
             let (rc, acs) = callsig !sc !st.e_map ret (va = "1") (nat_of_int (int_of_string np)) args in
             Printf.printf "CALL %s |%s\n" (match rc with Some c -> acls_str c | None -> "-")
               (String.concat "" (List.map (function Some c -> " " ^ acls_str c | None -> " ...") acs))
           | ArgTooMany -> print_endline "CALL toomany"
           | ArgTooFew -> print_endline "CALL toofew")
        | _ -> raise (Bad "XCALL"))
     | _ -> raise (Bad "XCALL"))
  | "CONV" :: va :: np :: r ->
    let (ps, r) = ptypes (int_of_string np) r in
    (match r with
     | na :: r ->
       let rec pa n r = if n = 0 then [] else
           let (t, r) = ptype r in (match r with w :: r -> (t, pwidth w) :: pa (n - 1) r | [] -> raise (Bad "CONV width")) in
       let args = pa (int_of_string na) r in
       (match convert_args !sc (va = "1") ps args with
        | ArgOk ts -> Printf.printf "CONV ok%s\n" (String.concat "" (List.map (fun t -> " " ^ type_str t) ts))
        | ArgTooMany -> print_endline "CONV toomany"
        | ArgTooFew -> print_endline "CONV toofew")
     | _ -> raise (Bad "CONV"))
  | "PROM" :: r ->
    let (t, r) = ptype r in
    let w = (match r with [w] -> pwidth w | _ -> raise (Bad "PROM")) in
    Printf.printf "PROM %s %s\n" (type_str (exprpromote !sc (t, w))) (type_str (promote_spec !sc t w))
  | "ADJ" :: r -> let (t, _) = ptype r in Printf.printf "ADJ %s %s\n" (type_str (typeadjust t)) (type_str (adjust_spec t))
  | "QBT" :: r ->
    let (t, _) = ptype r in
    let q = qbetype !sc t in
    Printf.printf "QBT %s %s %s\n" (cls_name q.q_base) (cls_name q.q_data) (ld_name q.q_load)
  | ["INFO"] -> infos !st.e_out
  | "CINFO" :: r ->
    let (t, _) = ptype r in
    let li = cinfo t in
    Printf.printf "CINFO %d %d %d %s | %s\n" (if naturalb t then 1 else 0) (int_of_z li.l_size) (int_of_z li.l_align) (classes li) (flat_str li.l_flat)
  | "QDEF" :: id :: al :: k :: r ->
    let al = if al = "-" then None else Some (zi al) in
    let body = (match k, r with
        | "O", [sz] -> BOpaque (zi sz)
        | "S", n :: r -> let (fs, _) = pitems (int_of_string n) r in BStruct fs
        | "U", k :: r ->
          let rec alts k r = if k = 0 then [] else
              (match r with n :: r -> let (fs, r) = pitems (int_of_string n) r in fs :: alts (k - 1) r | [] -> raise (Bad "QDEF U")) in
          BUnion (alts (int_of_string k) r)
        | _ -> raise (Bad "QDEF")) in
    qdefs := !qdefs @ [{ td_id = zi id; td_align = al; td_body = body }]
  | ["QINFO"] -> infos !qdefs; qdefs := []
  | "CLASS" :: sz :: al :: n :: r ->
    let rec pl n r = if n = 0 then [] else
        (match r with o :: s :: k :: r -> ((zi o, zi s), kind_of k) :: pl (n - 1) r | _ -> raise (Bad "CLASS")) in
    Printf.printf "CLASS %s\n" (classes { l_size = zi sz; l_align = zi al; l_flat = pl (int_of_string n) r })
  | [] | [""] -> ()
  | c :: _ -> raise (Bad ("command " ^ c))

let () =
  try
    while true do
      let line = input_line stdin in
      (try handle (List.filter (fun s -> s <> "") (String.split_on_char ' ' line))
       with Bad m -> Printf.printf "ERR %s\n" m
          | Failure m -> Printf.printf "ERR failure %s\n" m
          | Invalid_argument m -> Printf.printf "ERR invalid %s\n" m)
    done
  with End_of_file -> ()
