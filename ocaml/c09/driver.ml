(* Line-oriented driver around the extracted Linkage model and LinkSpec specification (C09).

   One history (translation unit) per input line, items separated by blanks:
     O                         `{` (at file scope: wrapper function `void wN(void) {`)
     C                         `}`
     B                         something else takes a number from mkglobal's counter
     U<i>                      use of identifier i
     D<i>,o,<sc>,<asm>,<init>          object declaration;  sc in n s e t st et ; asm = - or a number ; init 0/1
     D<i>,f,<sc>,<inl>,<asm>,<body>    function declaration; sc in n s e
   Every identifier has its own model state; the states share mkglobal's counter, the output order and
   the order of the tentative-definition list, as the C globals do.

   Output per history (terminated by a line "."):
     model <accept|reject|crash|ill> <index of the item that stopped it or -1>
     def <i> <data|func> <asm|-> <id> <thread> <export>        in emission order (accept only)
     ref <i> <asm|-> <id> <thread>   |   ref <i> tmp           in use order (accept only)
     obs <i> <outcome>          Linkage.observe of identifier i's own events
     spec <i> <outcome>         LinkSpec.run of identifier i's projected history
     dev <i> <d19> <thread-tentative>     LinkSpec.known_devs split by kind                     *)
open Model

let rec pos_of_int i = if i = 1 then XH else if i land 1 = 0 then XO (pos_of_int (i lsr 1)) else XI (pos_of_int (i lsr 1))
let n_of_int i = if i = 0 then N0 else Npos (pos_of_int i)
let rec int_of_pos = function XH -> 1 | XO p -> 2 * int_of_pos p | XI p -> 2 * int_of_pos p + 1
let int_of_n = function N0 -> 0 | Npos p -> int_of_pos p
let rec int_of_nat = function O -> 0 | S n -> 1 + int_of_nat n

let b s = s = "1"
let asm_of s = if s = "-" then None else Some (n_of_int (int_of_string s))
let osc_of = function
  | "n" -> OSnone | "s" -> OSstatic | "e" -> OSextern | "t" -> OSthread | "st" -> OSstatic_thread | "et" -> OSextern_thread
  | s -> failwith ("osc " ^ s)
let fsc_of = function "n" -> FSnone | "s" -> FSstatic | "e" -> FSextern | s -> failwith ("fsc " ^ s)

(* an input item: (identifier or -1 for all, item) *)
let parse_item tok =
  match tok with
  | "O" -> (-1, IOpen) | "C" -> (-1, IClose) | "B" -> (-1, IBump)
  | _ when tok.[0] = 'U' -> (int_of_string (String.sub tok 1 (String.length tok - 1)), IUse)
  | _ when tok.[0] = 'D' ->
    (match String.split_on_char ',' (String.sub tok 1 (String.length tok - 1)) with
     | [i; "o"; sc; a; init] -> (int_of_string i, IDecl (DObj (osc_of sc, asm_of a, b init)))
     | [i; "f"; sc; inl; a; body] -> (int_of_string i, IDecl (DFunc (fsc_of sc, b inl, asm_of a, b body)))
     | _ -> failwith ("item " ^ tok))
  | _ -> failwith ("item " ^ tok)

let sb x = if x then "1" else "0"
let sasm = function None -> "-" | Some a -> string_of_int (int_of_n a)
let sname = function Plain -> "-" | Label a -> string_of_int (int_of_n a)
let skind = function KObj -> "o" | KFunc -> "f"
let sreason = function
  | UBothLinkages -> "UBothLinkages" | UKindAcrossScopes -> "UKindAcrossScopes" | UExternalRedefinition -> "UExternalRedefinition"
  | UInlineNeverDefined -> "UInlineNeverDefined" | XThreadMismatch -> "XThreadMismatch"
  | XInternalUsedUndefined -> "XInternalUsedUndefined" | XAsmLabel -> "XAsmLabel"
let sref = function
  | RLinked (n, t) -> "L" ^ sname n ^ "/" ^ sb t
  | RAnon t -> "A" ^ sb t
  | RAuto -> "T"
let soutcome = function
  | Accept t ->
    Printf.sprintf "accept L[%s] A[%s] R[%s]"
      (String.concat ";" (List.map (fun d -> Printf.sprintf "%s,%s,%s,%s" (sname d.ld_name) (skind d.ld_kind) (sb d.ld_thread) (sb d.ld_export)) t.st_linked))
      (String.concat ";" (List.map sb t.st_anon))
      (String.concat ";" (List.map sref t.st_refs))
  | Reject -> "reject"
  | Unspec r -> "unspec " ^ sreason r
  | Crash -> "crash"
  | Ill -> "ill"

let sevent i = function
  | EData (a, id, t, e) -> Printf.sprintf "def %d data %s %d %s %s" i (sasm a) (int_of_n id) (sb t) (sb e)
  | EFunc (a, id, e) -> Printf.sprintf "def %d func %s %d 0 %s" i (sasm a) (int_of_n id) (sb e)
let smref i = function
  | MRef (a, id, t) -> Printf.sprintf "ref %d %s %d %s" i (sasm a) (int_of_n id) (sb t)
  | MRefTemp -> Printf.sprintf "ref %d tmp" i

let with_nextid m nid = { m with ms_nextid = nid }

(* the newest k elements of a newest-first list, oldest first *)
let newest k l =
  let rec take k l = if k = 0 then [] else match l with [] -> [] | x :: r -> x :: take (k - 1) r in
  List.rev (take k l)

let process line =
  let toks = List.filter (fun s -> s <> "") (String.split_on_char ' ' line) in
  let items = List.map parse_item toks in
  let nid = List.fold_left (fun a (i, _) -> max a (i + 1)) 1 items in
  let st = Array.make nid c09_init in
  let counter = ref N0 in
  let tentorder = ref [] in        (* identifiers in order of their appends to tentativedefns *)
  let defs = ref [] and refs = ref [] in   (* newest first *)
  let verdict = ref "accept" and stop = ref (-1) in
  let apply idx i it =
    let m = with_nextid st.(i) !counter in
    match c09_step m it with
    | MOk m' ->
      let nd = List.length m'.ms_defs - List.length m.ms_defs and nr = List.length m'.ms_refs - List.length m.ms_refs in
      List.iter (fun e -> defs := (i, e) :: !defs) (newest nd m'.ms_defs);
      List.iter (fun r -> refs := (i, r) :: !refs) (newest nr m'.ms_refs);
      for _ = 1 to int_of_nat m'.ms_tent - int_of_nat m.ms_tent do tentorder := i :: !tentorder done;
      st.(i) <- m'; Some m'.ms_nextid
    | MReject -> if !verdict = "accept" then (verdict := "reject"; stop := idx); None
    | MCrash -> if !verdict = "accept" then (verdict := "crash"; stop := idx); None
    | MIll -> if !verdict = "accept" then (verdict := "ill"; stop := idx); None in
  List.iteri (fun idx (i, it) ->
      if !verdict = "accept" then begin
        if i >= 0 then (match apply idx i it with Some c -> counter := c | None -> ())
        else begin
          (* scope items and foreign bumps reach every identifier; the counter moves once *)
          let c0 = !counter in
          let c1 = ref c0 in
          for j = 0 to nid - 1 do
            counter := c0;
            (match apply idx j it with Some c -> c1 := c | None -> ())
          done;
          counter := !c1
        end
      end) items;
  (* end of unit: emittentativedefns walks the list in order of appends *)
  let finals = Array.make nid FIll in
  if !verdict = "accept" then begin
    (* every identifier must be back at file scope *)
    Array.iteri (fun i m -> match m.ms_frames with [_] -> () | _ -> (verdict := "ill")) st;
    if !verdict = "accept" then begin
      let flushed = Array.make nid false in
      List.iter (fun i ->
          if not flushed.(i) then begin
            flushed.(i) <- true;
            match c09_finish st.(i) with
            | FAccept (d, r) ->
              let before = List.length st.(i).ms_defs in
              let rec drop k l = if k = 0 then l else match l with [] -> [] | _ :: t -> drop (k - 1) t in
              List.iter (fun e -> defs := (i, e) :: !defs) (drop before d)
            | FCrash -> verdict := "crash"
            | _ -> ()
          end) (List.rev !tentorder)
    end
  end;
  Printf.printf "model %s %d\n" !verdict !stop;
  if !verdict = "accept" then begin
    List.iter (fun (i, e) -> print_endline (sevent i e)) (List.rev !defs);
    List.iter (fun (i, r) -> print_endline (smref i r)) (List.rev !refs)
  end;
  (* per identifier: observation of its own events, specification of its projected history *)
  for i = 0 to nid - 1 do
    let proj = List.filter_map (fun (j, it) -> if j = i || j < 0 then Some it else None) items in
    if !verdict = "accept" then
      Printf.printf "obs %d %s\n" i (soutcome (c09_observe (c09_finish st.(i))));
    Printf.printf "spec %d %s\n" i (soutcome (c09_spec_run proj));
    (* deviations along the specification's run *)
    let d19 = ref false and tt = ref false in
    let rec go s = function
      | [] -> ()
      | it :: r ->
        (match it, s.ss_frames with
         | IDecl d, _ :: parents ->
           let file = (parents = []) in
           if c09_dev_inline_late s file d then d19 := true;
           if c09_dev_thread_tentative s file d then tt := true
         | _ -> ());
        (match c09_spec_step s it with SOk s' -> go s' r | _ -> ()) in
    go c09_spec_init proj;
    Printf.printf "dev %d %s %s\n" i (sb !d19) (sb !tt)
  done;
  print_endline "."

let () =
  try
    while true do
      let line = input_line stdin in
      (try process line with Failure m -> Printf.printf "error %s\n.\n" m)
    done
  with End_of_file -> ()
