(* Line-oriented driver around the extracted C10 models (Model/Checks.v) and specifications.
     TS kw...                      -> TS <ok type|ok none|err ENAME> | <spec type|none>
     SC kw...                      -> SC <ok mask|err> | <spec 0/1>
     SX ctx kind kw...             -> SX <0/1|-> | <spec 0/1>       (context test for an accepted combination)
     BF isint tsize align pack named width   -> BF <ok|ENAME>
     AL talign v...                -> AL <ok|invalid|weak>
     AR isint signed u incomplete isfunc esize -> AR <ok|ENAME>
     MA named variadic toks        -> MA <ok|notenough|toomany|eof> | <spec 0/1>     toks over , ( ) x *)
open Model

let rec nat_of_int i = if i <= 0 then O else S (nat_of_int (i - 1))
let rec pos_of_int i = if i = 1 then XH else if i land 1 = 0 then XO (pos_of_int (i lsr 1)) else XI (pos_of_int (i lsr 1))
let n_of_int i = if i = 0 then N0 else Npos (pos_of_int i)
let ten = n_of_int 10
let n_of_string s =
  let acc = ref N0 in
  String.iter (fun c -> acc := N.add (N.mul !acc ten) (n_of_int (Char.code c - 48))) s;
  !acc
let rec string_of_pos p = (* decimal through repeated division by ten *)
  let q, r = N.div_eucl (Npos p) ten in
  let d = match r with N0 -> 0 | Npos x -> let rec ip = function XH -> 1 | XO y -> 2 * ip y | XI y -> 2 * ip y + 1 in ip x in
  (match q with N0 -> "" | Npos q' -> string_of_pos q') ^ string_of_int d
let string_of_n = function N0 -> "0" | Npos p -> string_of_pos p

let tskw_of = function
  | "void" -> TSvoid | "char" -> TSchar | "short" -> TSshort | "int" -> TSint | "long" -> TSlong
  | "float" -> TSfloat | "double" -> TSdouble | "signed" -> TSsigned | "unsigned" -> TSunsigned
  | "_Bool" -> TSbool | "_Complex" -> TScomplex | "other" -> TSother
  | s -> failwith ("tskw " ^ s)
let ctype_name = function
  | Cvoid -> "void" | Cchar -> "char" | Cschar -> "schar" | Cuchar -> "uchar" | Cshort -> "short" | Cushort -> "ushort"
  | Cint -> "int" | Cuint -> "uint" | Clong -> "long" | Culong -> "ulong" | Cllong -> "llong" | Cullong -> "ullong"
  | Cfloat -> "float" | Cdouble -> "double" | Cldouble -> "ldouble" | Cbool -> "bool" | Cother -> "other"
let tserr_name = function
  | EDupShort -> "EDupShort" | ETooManyLong -> "ETooManyLong" | EDupSigned -> "EDupSigned" | EDupUnsigned -> "EDupUnsigned"
  | EComplex -> "EComplex" | EMultipleTypes -> "EMultipleTypes" | EInvalidCombination -> "EInvalidCombination"
let sckw_of = function
  | "typedef" -> SCtypedef | "extern" -> SCextern | "static" -> SCstatic | "_Thread_local" -> SCthread
  | "auto" -> SCauto | "register" -> SCregister | s -> failwith ("sckw " ^ s)
let dctx_of = function "file" -> AtFile | "block" -> AtBlock | "param" -> AtParam | s -> failwith s
let dkind_of = function "object" -> DObject | "function" -> DFunction | "typedef" -> DTypedef | s -> failwith s
let bferr_name = function
  | EBfHuge -> "EBfHuge" | EBfType -> "EBfType" | EBfAlign -> "EBfAlign" | EBfPacked -> "EBfPacked"
  | EBfZeroNamed -> "EBfZeroNamed" | EBfExceeds -> "EBfExceeds"
let arrerr_name = function
  | EArrLenType -> "EArrLenType" | EArrIncomplete -> "EArrIncomplete" | EArrFunction -> "EArrFunction"
  | EArrNegative -> "EArrNegative" | EArrTooLarge -> "EArrTooLarge"
let atok_of = function ',' -> AComma | '(' -> ALParen | ')' -> ARParen | _ -> AOther
let b s = s = "1"
let bs x = if x then "1" else "0"

let () =
  try
    while true do
      let line = input_line stdin in
      match List.filter (fun s -> s <> "") (String.split_on_char ' ' line) with
      | "TS" :: kws ->
        let l = List.map tskw_of kws in
        let m = match typespec l with
          | Inl e -> "err " ^ tserr_name e
          | Inr None -> "ok none"
          | Inr (Some t) -> "ok " ^ ctype_name t in
        let s = match c11_typespec l with None -> "none" | Some t -> ctype_name t in
        Printf.printf "TS %s | %s\n" m s
      | "SC" :: kws ->
        let l = List.map sckw_of kws in
        let m = match sc_run l with None -> "err" | Some sc -> "ok " ^ string_of_n sc in
        Printf.printf "SC %s | %s\n" m (bs (c11_storage_ok l))
      | "SX" :: c :: k :: kws ->
        let l = List.map sckw_of kws in
        let m = match sc_run l with None -> "-" | Some sc -> bs (sc_ctx_check (dctx_of c) (dkind_of k) sc) in
        Printf.printf "SX %s | %s\n" m (bs (c11_storage_ctx_ok (dctx_of c) (dkind_of k) l))
      | ["BF"; isint; tsize; align; pack; named; width] ->
        (match bitfield_check (b isint) (n_of_string tsize) (n_of_string align) (b pack) (b named) (n_of_string width) with
         | None -> print_endline "BF ok"
         | Some e -> print_endline ("BF " ^ bferr_name e))
      | "AL" :: talign :: vs ->
        let vs = List.map n_of_string vs in
        (match alignas_run vs with
         | None -> print_endline "AL invalid"
         | Some _ -> print_endline (if alignas_accepts vs (n_of_string talign) then "AL ok" else "AL weak"))
      | ["AR"; isint; sg; u; inc; fn; esize] ->
        (match array_check (b isint) (b sg) (n_of_string u) (b inc) (b fn) (n_of_string esize) with
         | None -> print_endline "AR ok"
         | Some e -> print_endline ("AR " ^ arrerr_name e))
      | "MA" :: named :: variadic :: rest ->
        let toks = match rest with [] -> "" | t :: _ -> t in
        let ts = List.init (String.length toks) (fun i -> atok_of toks.[i]) in
        let nn = nat_of_int (int_of_string named) in
        let m = match expandfunc_arity (macro_params nn (b variadic)) ts with
          | AOk -> "ok" | ANotEnough -> "notenough" | ATooMany -> "toomany" | AEof -> "eof" in
        Printf.printf "MA %s | %s\n" m (bs (c11_arity_ok nn (b variadic) ts))
      | [] -> ()
      | _ -> Printf.printf "? %s\n" line
    done
  with End_of_file -> ()
