(* Driver around the extracted location SPECIFICATION (Spec/LineSpec.v) - C11.
     oracle spec     <file> [<name>]   expected presumed locations (file_plain rule), one `file:line:col` per line
     oracle specfull <file> [<name>]   the same with the full file-name rule (escapes decoded)
     oracle scanpos  <file>            physical line:col of every token of the raw token stream *)
open Model

let rec pos_of_int i = if i = 1 then XH else if i land 1 = 0 then XO (pos_of_int (i lsr 1)) else XI (pos_of_int (i lsr 1))
let n_of_int i = if i = 0 then N0 else Npos (pos_of_int i)
let rec int_of_pos = function XH -> 1 | XO p -> 2 * int_of_pos p | XI p -> 2 * int_of_pos p + 1
let int_of_n = function N0 -> 0 | Npos p -> int_of_pos p
let str_of_pos p =
  let digits = ref [0] in
  let double_add carry0 =
    let carry = ref carry0 in
    digits := List.map (fun d -> let v = 2 * d + !carry in carry := v / 10; v mod 10) !digits;
    if !carry > 0 then digits := !digits @ [!carry] in
  let rec bits p acc = match p with XH -> 1 :: acc | XO q -> bits q (0 :: acc) | XI q -> bits q (1 :: acc) in
  List.iter (fun b -> double_add b) (bits p []);
  String.concat "" (List.rev_map string_of_int !digits)
let str_of_z = function Z0 -> "0" | Zpos p -> str_of_pos p | Zneg p -> "-" ^ str_of_pos p
let bytes_of_string s = List.init (String.length s) (fun i -> n_of_int (Char.code s.[i]))
let string_of_bytes l = String.concat "" (List.map (fun b -> String.make 1 (Char.chr (int_of_n b land 255))) l)
let read_file path =
  let ic = open_in_bin path in
  let n = in_channel_length ic in
  let s = really_input_string ic n in
  close_in ic; s

let () =
  match Array.to_list Sys.argv with
  | _ :: mode :: path :: rest when mode = "spec" || mode = "specfull" ->
    let name = match rest with n :: _ -> n | [] -> path in
    let text = bytes_of_string (read_file path) in
    let locs = expected (if mode = "spec" then file_plain else file_full) (bytes_of_string name) text in
    let b = Buffer.create 65536 in
    List.iter (fun ((f, l), c) -> Buffer.add_string b (Printf.sprintf "%s:%s:%s\n" (string_of_bytes f) (str_of_z l) (str_of_z c))) locs;
    print_string (Buffer.contents b)
  | [_; "scanpos"; path] ->
    let text = bytes_of_string (read_file path) in
    List.iter (fun (l, c) -> Printf.printf "%s:%s\n" (str_of_z l) (str_of_z c)) (expected_scan text)
  | _ -> prerr_endline "usage: oracle spec|specfull <file> [<name>] | scanpos <file>"; exit 2
