(* Line-oriented driver around the extracted PP model and MacroSpec specification (C12).
   Input:  "T <kind> <space> <hex spelling>"  one raw token (as scan() delivers them, EOF excluded)
           "R <e|c> <fuel>"                   run model (-E mode or compile mode) and specification on the tokens so far
           "K"                                print the kind codes the model assumes
   Output per R:  "M <status>" then "m kind space hide hex" per token; "S <status>" + "s ..." ; "P <status>" + "p ..."; "." *)
open Model

let rec nat_of_int i = if i <= 0 then O else S (nat_of_int (i - 1))
let rec int_of_nat = function O -> 0 | S n -> 1 + int_of_nat n
let rec pos_of_int i = if i = 1 then XH else if i land 1 = 0 then XO (pos_of_int (i lsr 1)) else XI (pos_of_int (i lsr 1))
let n_of_int i = if i = 0 then N0 else Npos (pos_of_int i)
let rec int_of_pos = function XH -> 1 | XO p -> 2 * int_of_pos p | XI p -> 2 * int_of_pos p + 1
let int_of_n = function N0 -> 0 | Npos p -> int_of_pos p

let str_of_hex s =
  let l = String.length s / 2 in
  List.init l (fun i -> n_of_int (int_of_string ("0x" ^ String.sub s (2 * i) 2)))
let hex_of_str k = String.concat "" (List.map (fun b -> Printf.sprintf "%02x" (int_of_n b)) k)

let pr tag (t : token) =
  Printf.printf "%s %d %d %d %s\n" tag (int_of_nat (kind_code t.kind_)) (if t.space then 1 else 0)
    (if t.hide then 1 else 0) (hex_of_str t.lit)

let err_name = function
  | EDefineName -> "EDefineName" | EParamList -> "EParamList" | EHashHash -> "EHashHash" | EVaArgs -> "EVaArgs"
  | EHashNotParam -> "EHashNotParam" | ERedefinition -> "ERedefinition" | EUndefName -> "EUndefName"
  | EDirectiveEnd -> "EDirectiveEnd" | EUnimplemented -> "EUnimplemented" | EBadDirective -> "EBadDirective"
  | ELine -> "ELine" | EArgEOF -> "EArgEOF" | ENotEnough -> "ENotEnough" | ETooMany -> "ETooMany"
  | EAssert -> "EAssert" | EPragmaExpansion -> "EPragmaExpansion" | EDirectiveInCall -> "EDirectiveInCall"

let spec tag = function
  | SOk l -> Printf.printf "%s Ok\n" (String.uppercase_ascii tag); List.iter (pr tag) l
  | SErr -> Printf.printf "%s Err\n" (String.uppercase_ascii tag)
  | SUnspec -> Printf.printf "%s Unspec\n" (String.uppercase_ascii tag)
  | SUnsupported -> Printf.printf "%s Unsupported\n" (String.uppercase_ascii tag)
  | SFuel -> Printf.printf "%s Fuel\n" (String.uppercase_ascii tag)

let () =
  let toks = ref [] in
  (try
    while true do
      let line = input_line stdin in
      match String.split_on_char ' ' line with
      | ["T"; k; sp; h] ->
        toks := { kind_ = kind_of_code (nat_of_int (int_of_string k)); lit = str_of_hex h; space = (sp = "1"); hide = false } :: !toks
      | ["R"; mode; fuel] ->
        let l = List.rev !toks in
        toks := [];
        let f = nat_of_int (int_of_string fuel) in
        let (out, st) = run f (mode = "e") [] l in
        (match st with
         | Done -> print_endline "M Done"
         | Failed e -> Printf.printf "M Failed %s\n" (err_name e)
         | OutOfFuel -> print_endline "M OutOfFuel");
        List.iter (pr "m") out;
        spec "s" (spec_run f [] l);
        spec "p" (spec_prosser f [] l);
        print_endline "."
      | ["K"] ->
        List.iter (fun (n, k) -> Printf.printf "K %s %d\n" n (int_of_nat (kind_code k)))
          ["TEOF", KEof; "TNEWLINE", KNewline; "TIDENT", KIdent; "TNUMBER", KNumber; "TCHARCONST", KChar;
           "TSTRINGLIT", KString; "TLPAREN", KLparen; "TRPAREN", KRparen; "TCOMMA", KComma; "THASH", KHash;
           "THASHHASH", KHashHash; "TELLIPSIS", KEllipsis]
      | [""] -> ()
      | _ -> Printf.printf "? %s\n" line
    done
  with End_of_file -> ())
