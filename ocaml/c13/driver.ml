(* Driver around the extracted scanner model (C13/C11).
     oracle pp   <file> [<name>]    token stream as the -E hook prints it (directives, keywords)
     oracle scan <file> [<name>]    raw scan() stream
     oracle kw                      stdin: one identifier per line -> kind number or -1
   Output lines: name:line:col \t kind \t space \t hide \t spelling ; last line: END ... *)
open Model

let rec pos_of_int i = if i = 1 then XH else if i land 1 = 0 then XO (pos_of_int (i lsr 1)) else XI (pos_of_int (i lsr 1))
let n_of_int i = if i = 0 then N0 else Npos (pos_of_int i)
let rec int_of_pos = function XH -> 1 | XO p -> 2 * int_of_pos p | XI p -> 2 * int_of_pos p + 1
let int_of_n = function N0 -> 0 | Npos p -> int_of_pos p
(* Z may exceed 63 bits (size_t): print through strings *)
let rec str_of_pos p =
  (* decimal string of a positive, by repeated doubling on a digit array *)
  let digits = ref [0] in
  let double_add carry0 =
    let carry = ref carry0 in
    digits := List.map (fun d -> let v = 2 * d + !carry in carry := v / 10; v mod 10) !digits;
    if !carry > 0 then digits := !digits @ [!carry] in
  let rec bits p acc = match p with XH -> 1 :: acc | XO q -> bits q (0 :: acc) | XI q -> bits q (1 :: acc) in
  List.iter (fun b -> double_add b) (bits p []);
  String.concat "" (List.rev_map string_of_int !digits)
let str_of_z = function Z0 -> "0" | Zpos p -> str_of_pos p | Zneg p -> "-" ^ str_of_pos p

let bytes_of_string s = List.init (String.length s) (fun i -> n_of_int (Char.code s.[i]))
let string_of_bytes l = String.concat "" (List.map (fun b -> String.make 1 (Char.chr (int_of_n b land 255))) l)

let read_file path =
  let ic = open_in_bin path in
  let n = in_channel_length ic in
  let s = really_input_string ic n in
  close_in ic; s

let tokstr_tbl = Hashtbl.create 200
let () = List.iter (fun (k, s) -> Hashtbl.replace tokstr_tbl (int_of_n (kind_num k)) (string_of_bytes s)) tokstr

let msgname = function
  | EInvalidHexEscape -> "invalid hexadecimal escape sequence"
  | EInvalidEscape -> "invalid escape sequence"
  | ENullInChar -> "null byte in character constant"
  | ENullInString -> "null byte in string literal"
  | ENewlineInChar -> "newline in character constant"
  | EEOFInChar -> "EOF in character constant"
  | ENewlineInString -> "newline in string literal"
  | EEOFInString -> "EOF in string literal"
  | EEOFInComment -> "EOF in comment"
  | EExpectedDirective -> "expected identifier newline, or number after '#'"
  | ENotImplemented -> "directive is not implemented"
  | EExpectedNumberAfterLine -> "expected number after #line"
  | EExpectedNewlineAfterDirective -> "expected newline after preprocessing directive"
  | EInvalidDirective -> "invalid preprocessor directive"

let locstr l = Printf.sprintf "%s:%s:%s" (string_of_bytes l.lfile) (str_of_z l.lline) (str_of_z l.lcol)

let print_tokens raw (toks, e) =
  let b = Buffer.create 65536 in
  List.iter (fun t ->
    let k = int_of_n (kind_num t.tkind) in
    let sp = match t.tlit with
      | Some l -> (let s = string_of_bytes l in match String.index_opt s '\000' with Some i -> String.sub s 0 i | None -> s)
      | None -> (try Hashtbl.find tokstr_tbl k with Not_found -> "") in
    let hide = match t.tkind, raw with
      | TIDENT, false -> 1
      | _, false -> if Hashtbl.mem tokstr_tbl k && t.tlit = None && k >= int_of_n (kind_num first_keyword) && k <= int_of_n (kind_num last_keyword) then 1 else 0
      | _ -> 0 in
    Buffer.add_string b (Printf.sprintf "%s\t%d\t%d\t%d\t%s\n" (locstr t.tloc) k (if t.tspace then 1 else 0) hide sp)) toks;
  print_string (Buffer.contents b);
  (match e with
   | EndEOF -> print_endline "END eof"
   | EndError (l, m) -> Printf.printf "END error %s: %s\n" (locstr l) (msgname m)
   | EndFuel -> print_endline "END fuel"
   | EndUnsupported -> print_endline "END unsupported")

let () =
  match Array.to_list Sys.argv with
  | _ :: mode :: path :: rest when mode = "pp" || mode = "scan" ->
    let name = match rest with n :: _ -> n | [] -> path in
    let text = bytes_of_string (read_file path) in
    let nm = bytes_of_string name in
    if mode = "pp" then print_tokens false (run nm text) else print_tokens true (run_scan nm text)
  | [_; "kw"] ->
    (try while true do
        let l = input_line stdin in
        match keyword_lookup keywords (bytes_of_string l) with
        | Some (Some k) -> Printf.printf "%d\n" (int_of_n (kind_num k))
        | Some None -> print_endline "-1"
        | None -> print_endline "fuel"
      done with End_of_file -> ())
  | _ -> prerr_endline "usage: oracle pp|scan <file> [<name>] | kw"; exit 2
