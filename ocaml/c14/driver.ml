(* Line-oriented driver around the extracted C14 models (Utf, Literal) and specification
   functions (Unicode, CLiteral).  The sweep commands E / L / C iterate exactly like
   harness/c14/harness.c and print one checksum line per block, so millions of cases are compared
   by comparing a few hundred lines; D / e give single cases in full. *)
open Model

let rec pos_of_int i = if i = 1 then XH else if i land 1 = 0 then XO (pos_of_int (i lsr 1)) else XI (pos_of_int (i lsr 1))
let n_of_int i = if i = 0 then N0 else Npos (pos_of_int i)
let rec int_of_pos = function XH -> 1 | XO p -> 2 * int_of_pos p | XI p -> 2 * int_of_pos p + 1
let int_of_n = function N0 -> 0 | Npos p -> int_of_pos p
let rec nat_of_int i = if i <= 0 then O else S (nat_of_int (i - 1))

(* arbitrary size: hexadecimal text *)
let hex_of_pos p =
  let rec bits p acc = match p with XH -> 1 :: acc | XO q -> bits q (0 :: acc) | XI q -> bits q (1 :: acc) in
  (* bits: most significant first *)
  let bl = bits p [] in
  let bl = List.rev bl in (* least significant first *)
  let rec digits l = match l with
    | [] -> []
    | a :: b :: c :: d :: r -> (a + 2 * b + 4 * c + 8 * d) :: digits r
    | l -> [List.fold_right (fun x acc -> x + 2 * acc) l 0] in
  let ds = List.rev (digits bl) in
  String.concat "" (List.map (fun d -> Printf.sprintf "%x" d) ds)
let hex_of_n = function N0 -> "0" | Npos p -> hex_of_pos p
let hex_of_z = function Z0 -> "0" | Zpos p -> hex_of_pos p | Zneg p -> "-" ^ hex_of_pos p
let n_of_hex s =
  (* up to 64 bits and more: build from digits *)
  let r = ref N0 in
  String.iter (fun ch ->
    let d = int_of_string ("0x" ^ String.make 1 ch) in
    r := N.add (N.mul !r (n_of_int 16)) (n_of_int d)) s;
  !r

let bytes_of_hex s =
  let l = String.length s / 2 in
  List.init l (fun i -> n_of_int (int_of_string ("0x" ^ String.sub s (2 * i) 2)))
let hex_of_bytes k = String.concat "" (List.map (fun b -> Printf.sprintf "%02x" (int_of_n b)) k)

let mask60 = (1 lsl 60) - 1
let mix h v = ((h * 1000003) + v + 1) land mask60

let target_of = function
  | "x86_64-sysv" -> targ_x86_64_sysv
  | "aarch64" -> targ_aarch64
  | "riscv64" -> targ_riscv64
  | s -> failwith ("target " ^ s)

let type_name = function TChar -> "char" | TUChar -> "uchar" | TUShort -> "ushort" | TUInt -> "uint" | TInt -> "int"
let err_name = function EPrefix -> "prefix" | EUtf8 -> "utf8" | EAssert -> "assert" | EOver -> "overread" | EFuel -> "fuel" | EMulti -> "multi" | ERepr -> "unrepresentable"
let kind_name = function K0 -> "-" | K8 -> "u8" | Ku -> "u" | KU -> "U" | KL -> "L"
let kind_of = function "-" -> K0 | "u8" -> K8 | "u" -> Ku | "U" -> KU | "L" -> KL | s -> failwith ("kind " ^ s)

(* the fixed set of candidate bytes for positions 1..3 of the structured decoder sweep *)
let cand = [0x00; 0x22; 0x27; 0x5c; 0x7f; 0x80; 0x81; 0x8f; 0x90; 0x9f; 0xa0; 0xaf; 0xbf; 0xc0; 0xc1; 0xc2; 0xdf; 0xe0; 0xed; 0xef; 0xf0; 0xf4; 0xf5; 0xff]
let setv = [0x00; 0x22; 0x7f; 0x80; 0xbf; 0xc0; 0xff]

let four = n_of_int 4
let fold_dec h d = match d with
  | Dec (c, l) -> mix (mix h (int_of_n c)) (int_of_n l)
  | Invalid -> mix h 0x7fffff1
  | OutOfBounds -> mix h 0x7fffff2
let fold_enc h e = match e with
  | Enc u -> List.fold_left (fun h x -> mix h (int_of_n x)) (mix h (List.length u)) u
  | AssertFail -> mix h 0x7fffff3

let cmd_E lo hi =
  let h = ref 0 and start = ref lo in
  for c = lo to hi - 1 do
    let cn = n_of_int c in
    let e8 = utf8enc cn in
    h := fold_enc !h e8;
    h := fold_enc !h (utf16enc cn);
    (match e8 with Enc u -> h := fold_dec !h (utf8dec (u @ [n_of_int 0x22]) four) | AssertFail -> ());
    if (c + 1) land 4095 = 0 || c = hi - 1 then begin
      Printf.printf "E %d %d %d\n" !start (c + 1) !h; h := 0; start := c + 1 end
  done

let cmd_L b0 =
  let nb0 = n_of_int b0 in
  List.iter (fun b1 ->
    let h = ref 0 in
    List.iter (fun b2 -> List.iter (fun b3 ->
      let s = [nb0; n_of_int b1; n_of_int b2; n_of_int b3; N0] in
      h := fold_dec !h (utf8dec s four);
      h := fold_dec !h (utf8dec s (n_of_int 2))) cand) cand;
    Printf.printf "L %d %d %d\n" b0 b1 !h) cand

let rec firstn k l = if k = 0 then [] else match l with [] -> [] | x :: r -> x :: firstn (k - 1) r

let is_scalar c = c < 0xd800 || (c >= 0xe000 && c < 0x110000)

let cmd_C lo hi step =
  let h = ref 0 and cnt = ref 0 in
  let c = ref lo in
  while !c < hi do
    if is_scalar !c then begin
      match utf8enc (n_of_int !c) with
      | AssertFail -> h := mix !h 0x7fffff3
      | Enc u ->
        let a = Array.of_list (List.map int_of_n u) in
        let len = Array.length a in
        let try_bytes bl n =
          incr cnt;
          h := fold_dec !h (utf8dec (List.map n_of_int bl) (n_of_int n)) in
        for i = 0 to len - 1 do
          let with_v v = Array.to_list (Array.mapi (fun j x -> if j = i then v else x) a) @ [0x22; 0] in
          for k = 0 to 7 do try_bytes (with_v (a.(i) lxor (1 lsl k))) 4 done;
          List.iter (fun v -> if v <> a.(i) then try_bytes (with_v v) 4) setv
        done;
        for k = 1 to len - 1 do
          let p = firstn k (Array.to_list a) in
          try_bytes (p @ [0x22; 0]) 4;
          try_bytes (p @ [0]) 4;
          try_bytes p k
        done
    end;
    c := !c + step
  done;
  Printf.printf "C %d %d %d %d %d\n" lo hi step !cnt !h

let show_dec = function
  | Dec (c, l) -> Printf.sprintf "ok %d %d" (int_of_n c) (int_of_n l)
  | Invalid -> "invalid"
  | OutOfBounds -> "oob"
let show_enc = function
  | Enc u -> String.concat " " (List.map (fun x -> string_of_int (int_of_n x)) u)
  | AssertFail -> "assert"

(* items: c<hex code point> | s<hex byte> | o<hex of digit bytes> | h<hex of digit bytes> *)
let item_of s =
  let arg = String.sub s 1 (String.length s - 1) in
  match s.[0] with
  | 'c' -> IChar (n_of_hex arg)
  | 's' -> ISimple (n_of_hex arg)
  | 'o' -> IOct (bytes_of_hex arg)
  | 'h' -> IHex (bytes_of_hex arg)
  | _ -> failwith "item"
(* part: kind:item,item,... (items may be empty) *)
let part_of s =
  match String.index_opt s ':' with
  | None -> failwith "part"
  | Some i ->
    let k = kind_of (String.sub s 0 i) in
    let rest = String.sub s (i + 1) (String.length s - i - 1) in
    let its = if rest = "" then [] else List.map item_of (String.split_on_char ',' rest) in
    (k, its)

let () =
  (try
    while true do
      let line = input_line stdin in
      (try
      match String.split_on_char ' ' line with
      | ["E"; lo; hi] -> cmd_E (int_of_string lo) (int_of_string hi)
      | ["L"; b0] -> cmd_L (int_of_string b0)
      | ["C"; lo; hi; step] -> cmd_C (int_of_string lo) (int_of_string hi) (int_of_string step)
      | ["D"; hx; n] -> Printf.printf "D %s\n" (show_dec (utf8dec (bytes_of_hex hx) (n_of_int (int_of_string n))))
      | ["e"; c] -> let cn = n_of_int (int_of_string c) in
          Printf.printf "e %s | %s\n" (show_enc (utf8enc cn)) (show_enc (utf16enc cn))
      | "S" :: tg :: force :: toks ->
          (match stringconcat (target_of tg) (List.map bytes_of_hex toks) (force = "1") with
           | SOk (t, el, size, alloc) ->
               Printf.printf "S ok %s %s %s %s\n" (type_name t) (hex_of_n size) (hex_of_n alloc)
                 (String.concat "," (List.map hex_of_n el))
           | SErr e -> Printf.printf "S err %s\n" (err_name e))
      | ["K"; tg; tok] ->
          (match charconst (target_of tg) (bytes_of_hex tok) with
           | COk (t, v) -> Printf.printf "K ok %s %s\n" (type_name t) (hex_of_n v)
           | CErr e -> Printf.printf "K err %s\n" (err_name e))
      | ["X"; inp] ->
          (match scan_literal (bytes_of_hex inp) with
           | Some (tok, rest) -> Printf.printf "X ok %s %s\n" (hex_of_bytes tok) (hex_of_bytes rest)
           | None -> print_endline "X err")
      (* specification: T <target> part part ...   (parts as kind:items) *)
      | "T" :: tg :: parts ->
          let tgt = target_of tg in
          let ps = List.map part_of parts in
          let toks = String.concat " " (List.map (fun p -> hex_of_bytes (render_string p)) ps) in
          (match merge_kinds K0 (List.map fst ps) with
           | None -> Printf.printf "T reject-prefix | %s\n" toks
           | Some k ->
               let t = kind_type tgt k in
               let w = ctype_size t in
               let inr = List.for_all (fun p -> List.for_all (in_rangeb w) (snd p)) ps in
               Printf.printf "T %s %s %s | %s\n" (type_name t) (if inr then "inrange" else "outofrange")
                 (String.concat "," (List.map hex_of_n (string_elements w ps))) toks)
      (* specification: Q <target> <kind> <item> *)
      | ["Q"; tg; k; it] ->
          let tgt = target_of tg and kk = kind_of k and item = item_of it in
          let tok = hex_of_bytes (render_const kk item) in
          (match kk with
           | K0 -> (match plain_char_spec tgt item with
                    | Some z -> Printf.printf "Q int %s u64=%s | %s\n" (hex_of_z z) (hex_of_n (u64_of_Z z)) tok
                    | None -> Printf.printf "Q unspecified | %s\n" tok)
           | _ -> (match wide_char_spec tgt kk item with
                   | Some z -> Printf.printf "Q %s %s u64=%s | %s\n" (type_name (const_type tgt kk)) (hex_of_z z) (hex_of_n (u64_of_Z z)) tok
                   | None -> Printf.printf "Q unspecified | %s\n" tok))
      | [""] -> ()
      | _ -> Printf.printf "? %s\n" line
      with Failure m -> Printf.printf "! %s (%s)\n" line m | Not_found -> Printf.printf "! %s\n" line)
    done
  with End_of_file -> ())
