(* Line-oriented driver around the extracted Tree/CaseSearch models (C15).
   R                    empty tree
   I <key>              treeinsert: prints "<new> <a[] slots used> | <preorder dump>" or "crash"
   i <key>              the same without the dump: "<new> <a[] slots used>"
   K <size> <sgn> <i>   switchcase: prints "ok <key>", "dup <key>" or "crash"
   C <size> <sgn> <i>   prints the converted key
   S <W|L> <v>          the ladder: prints "case <key> <depth>" or "default <depth>"
   D                    prints "D <rheight> | <dump>"
   dump = preorder, "key:storedheight" per node, "-" per NULL child.  Keys are unsigned decimals. *)
open Model

let rec pos_of_i64 (i : int64) : positive =
  if Int64.equal i 1L then XH
  else
    let rest = pos_of_i64 (Int64.shift_right_logical i 1) in
    if Int64.equal (Int64.logand i 1L) 0L then XO rest else XI rest
let n_of_i64 i = if Int64.equal i 0L then N0 else Npos (pos_of_i64 i)
let rec i64_of_pos = function
  | XH -> 1L
  | XO p -> Int64.shift_left (i64_of_pos p) 1
  | XI p -> Int64.logor (Int64.shift_left (i64_of_pos p) 1) 1L
let i64_of_n = function N0 -> 0L | Npos p -> i64_of_pos p
let n_of_string s = n_of_i64 (Int64.of_string ("0u" ^ s))
let string_of_n n = Printf.sprintf "%Lu" (i64_of_n n)
let int_of_z = function
  | Z0 -> 0
  | Zpos p -> Int64.to_int (i64_of_pos p)
  | Zneg p -> - (Int64.to_int (i64_of_pos p))

let dump b t =
  let rec go = function
    | Leaf -> Buffer.add_string b " -"
    | Node (k, h, l, r) ->
      Buffer.add_char b ' '; Buffer.add_string b (string_of_n k); Buffer.add_char b ':';
      Buffer.add_string b (string_of_int (int_of_z h)); go l; go r in
  go t

let () =
  let t = ref Leaf in
  let b = Buffer.create 65536 in
  let out = Buffer.create (1 lsl 20) in
  let flush_out () = print_string (Buffer.contents out); Buffer.clear out in
  (try
    while true do
      let line = input_line stdin in
      Buffer.clear b;
      (match String.split_on_char ' ' line with
      | ["R"] -> t := Leaf
      | ["I"; k] ->
        let k = n_of_string k in
        let pl = int_of_z (path_len k !t) in
        (match insert k !t with
         | None -> Buffer.add_string out "crash\n"
         | Some ((t', _), nw) ->
           t := t';
           dump b t';
           Buffer.add_string out (Printf.sprintf "%d %d |%s\n" (if nw then 1 else 0) pl (Buffer.contents b)))
      | ["i"; k] ->
        let k = n_of_string k in
        let pl = int_of_z (path_len k !t) in
        (match insert k !t with
         | None -> Buffer.add_string out "crash\n"
         | Some ((t', _), nw) ->
           t := t';
           Buffer.add_string out (Printf.sprintf "%d %d\n" (if nw then 1 else 0) pl))
      | ["K"; size; sgn; i] ->
        let size = n_of_string size and i = n_of_string i and sgn = (sgn = "1") in
        let key = string_of_n (convert size sgn i) in
        (match switchcase size sgn !t i with
         | Crash -> Buffer.add_string out "crash\n"
         | Dup -> Buffer.add_string out ("dup " ^ key ^ "\n")
         | Ok t' -> t := t'; Buffer.add_string out ("ok " ^ key ^ "\n"))
      | ["C"; size; sgn; i] ->
        Buffer.add_string out (string_of_n (convert (n_of_string size) (sgn = "1") (n_of_string i)) ^ "\n")
      | ["S"; c; v] ->
        let c = if c = "W" then W else L and v = n_of_string v in
        let d = int_of_z (search_depth c !t v) in
        (match search c !t v with
         | Some k -> Buffer.add_string out (Printf.sprintf "case %s %d\n" (string_of_n k) d)
         | None -> Buffer.add_string out (Printf.sprintf "default %d\n" d))
      | ["D"] -> dump b !t;
        Buffer.add_string out (Printf.sprintf "D %d |%s\n" (int_of_z (rheight !t)) (Buffer.contents b))
      | [""] -> ()
      | _ -> Buffer.add_string out ("? " ^ line ^ "\n"));
      if Buffer.length out > (1 lsl 19) then flush_out ()
    done
  with End_of_file -> ());
  flush_out ()
