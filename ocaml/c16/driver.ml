(* Line-oriented driver around the extracted Map/Scope models (C16). *)
open Model

let rec nat_of_int i = if i <= 0 then O else S (nat_of_int (i - 1))
let rec int_of_nat = function O -> 0 | S n -> 1 + int_of_nat n
let rec pos_of_int i = if i = 1 then XH else if i land 1 = 0 then XO (pos_of_int (i lsr 1)) else XI (pos_of_int (i lsr 1))
let n_of_int i = if i = 0 then N0 else Npos (pos_of_int i)
let rec int_of_pos = function XH -> 1 | XO p -> 2 * int_of_pos p | XI p -> 2 * int_of_pos p + 1
let int_of_n = function N0 -> 0 | Npos p -> int_of_pos p

let key_of_hex s =
  let l = String.length s / 2 in
  List.init l (fun i -> n_of_int (int_of_string ("0x" ^ String.sub s (2 * i) 2)))
let hex_of_key k = String.concat "" (List.map (fun b -> Printf.sprintf "%02x" (int_of_n b)) k)

let dump m =
  let b = Buffer.create 256 in
  Buffer.add_string b (Printf.sprintf "D %d %d" (int_of_nat m.len) (int_of_nat m.cap));
  List.iteri (fun i s -> match s with
    | None -> ()
    | Some (k, v) -> Buffer.add_string b (Printf.sprintf " %d:%s:%d" i (hex_of_key k) (int_of_n v))) m.slots;
  print_endline (Buffer.contents b)

let () =
  let m = ref None and s = ref None in
  (try
    while true do
      let line = input_line stdin in
      match String.split_on_char ' ' line with
      | ["M"; c] -> m := Some (mapinit (nat_of_int (int_of_string c)))
      | ["P"; k; v] -> m := step bytes_eqb fnv1a !m (OpPut (key_of_hex k, n_of_int (int_of_string v)))
      | ["T"; k] -> m := step bytes_eqb fnv1a !m (OpTouch (key_of_hex k))
      | ["G"; k] -> (match !m with
          | None -> print_endline "G fuel"
          | Some mm -> (match mapget bytes_eqb fnv1a mm (key_of_hex k) with
              | Some v -> Printf.printf "G %d\n" (int_of_n v)
              | None -> print_endline "G fuel"))
      | ["D"] -> (match !m with None -> print_endline "D fuel" | Some mm -> dump mm)
      | ["S"] -> s := Some [{decls = None; tags = None}]
      | ["+"] -> s := sstep bytes_eqb fnv1a !s SPush
      | ["-"] -> s := sstep bytes_eqb fnv1a !s SPop
      | ["d"; k; v] -> s := sstep bytes_eqb fnv1a !s (SPutDecl (key_of_hex k, n_of_int (int_of_string v)))
      | ["t"; k; v] -> s := sstep bytes_eqb fnv1a !s (SPutTag (key_of_hex k, n_of_int (int_of_string v)))
      | [("gd" | "gt") as w; k; r] -> (match !s with
          | None -> print_endline "g fail"
          | Some ss ->
            let f = if w = "gd" then scopegetdecl else scopegettag in
            (match f bytes_eqb fnv1a ss (key_of_hex k) (r = "1") with
             | Some v -> Printf.printf "g %d\n" (int_of_n v)
             | None -> print_endline "g fuel"))
      | [""] -> ()
      | _ -> Printf.printf "? %s\n" line
    done
  with End_of_file -> ())
