(* Line-oriented driver around the extracted Driver model and DriverSpec (C17).
   CFG <field> <word>...     set a config.h field (words are x<hex>)
   ARGV <word>...            print the outcome of the model and of the specification variants
   TABLES                    print the option tables of the specification *)
open Model

let bit b i = if b then 1 lsl i else 0
let char_of_ascii (Ascii (b0, b1, b2, b3, b4, b5, b6, b7)) =
  Char.chr (bit b0 0 + bit b1 1 + bit b2 2 + bit b3 3 + bit b4 4 + bit b5 5 + bit b6 6 + bit b7 7)
let ascii_of_char c =
  let n = Char.code c in
  let b i = n land (1 lsl i) <> 0 in
  Ascii (b 0, b 1, b 2, b 3, b 4, b 5, b 6, b 7)
let rec ocaml_of_string = function EmptyString -> "" | String (c, r) -> String.make 1 (char_of_ascii c) ^ ocaml_of_string r
let coq_of_string s =
  let r = ref EmptyString in
  for i = String.length s - 1 downto 0 do r := String (ascii_of_char s.[i], !r) done; !r
let rec int_of_nat = function O -> 0 | S n -> 1 + int_of_nat n

let hex s = "x" ^ String.concat "" (List.map (fun c -> Printf.sprintf "%02x" (Char.code c)) (List.init (String.length s) (String.get s)))
let unhex w =
  let n = (String.length w - 1) / 2 in
  String.init n (fun i -> Char.chr (int_of_string ("0x" ^ String.sub w (1 + 2 * i) 2)))
let words l = List.map (fun w -> coq_of_string (unhex w)) (List.filter (fun w -> w <> "") l)

let stage_name = function PREPROCESS -> "pp" | COMPILE -> "cc" | CODEGEN -> "cg" | ASSEMBLE -> "as" | LINK -> "ld"
let ftype_name = function NONE -> "NONE" | ASM -> "ASM" | ASMPP -> "ASMPP" | C -> "C" | CHDR -> "CHDR" | CPPOUT -> "CPPOUT" | OBJ -> "OBJ" | QBE -> "QBE"
let word = function Lit s -> hex (ocaml_of_string s) | Temp k -> "T" ^ string_of_int (int_of_nat k)
let show = function
  | Usage m -> "usage " ^ (match m with
      | UPlain -> "plain" | UStdinNeedsX -> "stdin"
      | UUnknownLang s -> "lang:" ^ hex (ocaml_of_string s)
      | UUnknownOpt s -> "opt:" ^ hex (ocaml_of_string s)
      | UObjStdout -> "objstdout" | UMultiOutput -> "multi")
  | Fatal -> "fatal" | Undefined -> "undefined" | OutOfFuel -> "fuel"
  | Run (v, ps, l) ->
    let p pl =
      " | P " ^ (match pl.p_dest with DStdout -> "-" | DFile w -> word w) ^
      String.concat "" (List.map (fun (g, ws) -> " ; " ^ stage_name g ^ String.concat "" (List.map (fun w -> " " ^ word w) ws)) pl.p_cmds) in
    "run v=" ^ (if v then "1" else "0") ^ String.concat "" (List.map p ps) ^
    (match l with None -> "" | Some ws -> " | L" ^ String.concat "" (List.map (fun w -> " " ^ word w) ws))

let () =
  let cfg = ref { target = EmptyString; startfiles = []; endfiles = []; preprocesscmd = []; compilecmd = [];
                  codegencmd = []; assemblecmd = []; linkcmd = [] } in
  let q a b c = { q_onechar = a; q_qbefile = b; q_hdrlink = c } in
  (try
    while true do
      let line = input_line stdin in
      match String.split_on_char ' ' line with
      | "CFG" :: f :: ws ->
        let l = words ws in
        let c = !cfg in
        cfg := (match f with
          | "target" -> { c with target = (match l with [t] -> t | _ -> EmptyString) }
          | "startfiles" -> { c with startfiles = l }
          | "endfiles" -> { c with endfiles = l }
          | "preprocesscmd" -> { c with preprocesscmd = l }
          | "compilecmd" -> { c with compilecmd = l }
          | "codegencmd" -> { c with codegencmd = l }
          | "assemblecmd" -> { c with assemblecmd = l }
          | "linkcmd" -> { c with linkcmd = l }
          | _ -> c)
      | "ARGV" :: ws ->
        let argv = words ws in
        Printf.printf "model %s\n" (show (plan !cfg argv));
        List.iter (fun (a, b, c) ->
          Printf.printf "q%d%d%d %s\n" (if a then 1 else 0) (if b then 1 else 0) (if c then 1 else 0) (show (plan_q (q a b c) !cfg argv)))
          [false,false,false; false,false,true; false,true,false; false,true,true; true,false,false; true,false,true; true,true,false; true,true,true];
        print_endline "."
      | ["TABLES"] ->
        let it = function
          | IInput _ -> "input" | ILib _ -> "lib" | IMode g -> "mode:" ^ stage_name g | IOut _ -> "out"
          | IFwd (g, ws) -> "fwd:" ^ stage_name g ^ ":" ^ String.concat "," (List.map ocaml_of_string ws)
          | INoStdlib -> "nostdlib" | IVerbose -> "verbose" | INop -> "nop" in
        List.iter (fun (w, is) -> Printf.printf "word %s %s\n" (ocaml_of_string w) (String.concat " " (List.map it is))) word_table;
        List.iter (fun w -> Printf.printf "pair %s\n" (ocaml_of_string w)) pair_table;
        List.iter (fun (c, k) -> Printf.printf "letter %c %s\n" (char_of_ascii c) (match k with
          | KStrict i -> "strict " ^ it i | KLax i -> "lax " ^ it i | KFwd g -> "fwd " ^ stage_name g
          | KLib -> "lib" | KOut -> "out" | KLang -> "lang" | KW -> "W" | KM -> "M")) letter_table;
        List.iter (fun (w, t) -> Printf.printf "lang %s %s\n" (ocaml_of_string w) (ftype_name t)) lang_table;
        List.iter (fun (w, t) -> Printf.printf "suffix %s %s\n" (ocaml_of_string w) (ftype_name t)) suffix_table;
        List.iter (fun t -> Printf.printf "stages %s %s\n" (ftype_name t) (String.concat "," (List.map stage_name (stages_for t))))
          [ASM; ASMPP; C; CHDR; CPPOUT; OBJ; QBE];
        List.iter (fun c ->
          match w_items (coq_of_string (Printf.sprintf "-W%c,z" c)) with
          | Inr [IFwd (g, [z])] when ocaml_of_string z = "z" -> Printf.printf "wtool %c %s\n" c (stage_name g)
          | _ -> ()) (List.init 95 (fun i -> Char.chr (32 + i)));
        (match lex documented NONE [coq_of_string "-std=zz"] with
         | Inr [IFwd (PREPROCESS, [z])] when ocaml_of_string z = "-std=zz" -> print_endline "prefix -std="
         | _ -> ());
        List.iter (fun (p, (a, b)) -> Printf.printf "arch %s %s %s\n" (ocaml_of_string p) (ocaml_of_string a) (ocaml_of_string b)) arch_table;
        print_endline "."
      | [""] -> ()
      | _ -> Printf.printf "? %s\n" line
    done
  with End_of_file -> ())
