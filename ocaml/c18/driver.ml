(* Line-oriented driver around the extracted DriverProc model (C18).
   CFG <field> <word>...        config.h field (words are x<hex>)
   SPAWN <k> <stage> <0|1> <pid>   result of the posix_spawn of stage <stage> of pipeline k
   WAIT <k> <pid> <status>      next (pid, status) returned by wait() while pipeline k is reaped (E<n> | S<n> | O)
   LINK <0|1> <status>          spawn result and exit status of the linker
   RUN <word>...                print the trace of the model for this command line under the environment given so far,
                                then the summary line, then "."; the environment is cleared *)
open Model

let bit b i = if b then 1 lsl i else 0
let char_of_ascii (Ascii (b0, b1, b2, b3, b4, b5, b6, b7)) =
  Char.chr (bit b0 0 + bit b1 1 + bit b2 2 + bit b3 3 + bit b4 4 + bit b5 5 + bit b6 6 + bit b7 7)
let ascii_of_char c =
  let n = Char.code c in
  let b i = n land (1 lsl i) <> 0 in
  Ascii (b 0, b 1, b 2, b 3, b 4, b 5, b 6, b 7)
let rec ocaml_of_string = function EmptyString -> "" | String (c, r) -> String.make 1 (char_of_ascii c) ^ ocaml_of_string r
let coq_of_string s =
  let r = ref EmptyString in
  for i = String.length s - 1 downto 0 do r := String (ascii_of_char s.[i], !r) done; !r
let rec int_of_nat = function O -> 0 | S n -> 1 + int_of_nat n
let rec nat_of_int i = if i <= 0 then O else S (nat_of_int (i - 1))

let hex s = "x" ^ String.concat "" (List.map (fun c -> Printf.sprintf "%02x" (Char.code c)) (List.init (String.length s) (String.get s)))
let unhex w =
  let n = (String.length w - 1) / 2 in
  String.init n (fun i -> Char.chr (int_of_string ("0x" ^ String.sub w (1 + 2 * i) 2)))
let words l = List.map (fun w -> coq_of_string (unhex w)) (List.filter (fun w -> w <> "") l)

let stage_name = function PREPROCESS -> "pp" | COMPILE -> "cc" | CODEGEN -> "cg" | ASSEMBLE -> "as" | LINK -> "ld"
let stage_of = function "pp" -> PREPROCESS | "cc" -> COMPILE | "cg" -> CODEGEN | "as" -> ASSEMBLE | _ -> LINK
let word = function Lit s -> hex (ocaml_of_string s) | Temp k -> "T" ^ string_of_int (int_of_nat k)
let status_of s =
  if s = "O" then OtherStatus
  else let n = nat_of_int (int_of_string (String.sub s 1 (String.length s - 1))) in
    if s.[0] = 'E' then Exited n else Signaled n
let show_status = function Exited n -> "E" ^ string_of_int (int_of_nat n) | Signaled n -> "S" ^ string_of_int (int_of_nat n) | OtherStatus -> "O"
let ws l = String.concat "" (List.map (fun w -> " " ^ word w) l)
(* pids are small in the model's nat: the check renumbers real pids 1,2,3,... *)
let show_event = function
  | EMkstemp w -> "mkstemp " ^ word w
  | ECreate w -> "create " ^ word w
  | ESpawn (k, g, p, argv) -> Printf.sprintf "spawn %d %s %d%s" (int_of_nat k) (stage_name g) (int_of_nat p) (ws argv)
  | ESpawnFail (k, g) -> Printf.sprintf "spawnfail %d %s" (int_of_nat k) (stage_name g)
  | EWait (p, st) -> Printf.sprintf "wait %d %s" (int_of_nat p) (show_status st)
  | EKill p -> Printf.sprintf "kill %d" (int_of_nat p)
  | EUnlink w -> "unlink " ^ word w
  | ESpawnLink argv -> "spawnlink" ^ ws argv
  | ESpawnLinkFail -> "spawnlinkfail"
  | EWaitLink st -> "waitlink " ^ show_status st
  | EExit n -> "exit " ^ string_of_int (int_of_nat n)
  | EStuck -> "stuck"

let () =
  let cfg = ref { target = EmptyString; startfiles = []; endfiles = []; preprocesscmd = []; compilecmd = [];
                  codegencmd = []; assemblecmd = []; linkcmd = [] } in
  let spawns = Hashtbl.create 16 and waits = Hashtbl.create 16 in
  let link = ref (true, Exited O) in
  (try
    while true do
      let line = input_line stdin in
      match String.split_on_char ' ' line with
      | "CFG" :: f :: wl ->
        let l = words wl in
        let c = !cfg in
        cfg := (match f with
          | "target" -> { c with target = (match l with [t] -> t | _ -> EmptyString) }
          | "startfiles" -> { c with startfiles = l }
          | "endfiles" -> { c with endfiles = l }
          | "preprocesscmd" -> { c with preprocesscmd = l }
          | "compilecmd" -> { c with compilecmd = l }
          | "codegencmd" -> { c with codegencmd = l }
          | "assemblecmd" -> { c with assemblecmd = l }
          | "linkcmd" -> { c with linkcmd = l }
          | _ -> c)
      | ["SPAWN"; k; g; ok; p] -> Hashtbl.replace spawns (int_of_string k, g) (ok = "1", int_of_string p)
      | ["WAIT"; k; p; st] ->
        let k = int_of_string k in
        let old = try Hashtbl.find waits k with Not_found -> [] in
        Hashtbl.replace waits k (old @ [(nat_of_int (int_of_string p), status_of st)])
      | ["LINK"; ok; st] -> link := (ok = "1", status_of st)
      | "RUN" :: wl ->
        let argv = words wl in
        let look k g = try Hashtbl.find spawns (int_of_nat k, stage_name g) with Not_found -> (true, 0) in
        let e = { spawn_ok = (fun k g -> fst (look k g));
                  pid_of = (fun k g -> nat_of_int (snd (look k g)));
                  waits = (fun k -> try Hashtbl.find waits (int_of_nat k) with Not_found -> []);
                  link_spawn_ok = fst !link; link_status = snd !link } in
        let tr = run e (plan !cfg argv) in
        List.iter (fun ev -> match ev with ECreate _ -> () | _ -> print_endline (show_event ev)) tr;
        Printf.printf "summary exit=%s stuck=%b link=%b files=%s\n"
          (match exit_code tr with Some n -> string_of_int (int_of_nat n) | None -> "none")
          (is_stuck tr) (link_started tr) (String.concat "," (List.map word (may_exist tr [])));
        print_endline ".";
        Hashtbl.reset spawns; Hashtbl.reset waits; link := (true, Exited O)
      | [""] -> ()
      | _ -> Printf.printf "? %s\n" line
    done
  with End_of_file -> ())
