(* driver.ml - command line around the extracted IL toolkit.
     oracle wf <file>...          per file: "== <file>" then OK | PARSE <line>: <msg> | VIOL ... lines (exit 1 if any file fails)
     oracle check <file>...       as wf, preceded by the print-after-parse self check ("ROUNDTRIP <msg>" on failure)
                                  and followed by "DATA $name size align" / "TYPE :name size align" lines
     oracle run <file> [fuel] [entry]   trace lines "out_l <signed>" / "out_d <hex bits>", then
                                  "status <n>" | "OOB <addr>" | "STUCK <reason>" | "OUTOFFUEL" | "PARSE ..."
     oracle roundtrip <file>      OK | message
     oracle print <file>          canonical text
     oracle opnames               the opcode spellings the parser knows, one per line *)
open Model
open Ilparse
module B = Big_int_Z

let read_file f =
  let ic = try open_in_bin f with Sys_error m -> raise (Parse_error (0, m)) in
  let n = in_channel_length ic in
  let s = really_input_string ic n in
  close_in ic; s

(* ------------------------------------------------------------------ floating point (trusted, OCaml doubles) *)
let to_s32 (z : B.big_int) : int =                   (* signed value of a 32-bit pattern *)
  let x = to_int z land 0xFFFFFFFF in if x >= 0x80000000 then x - 0x100000000 else x
let s64_of (z : B.big_int) : int64 =
  let z = if B.ge_big_int z two63 then B.sub_big_int z two64 else z in B.int64_of_big_int z
let u64_big (x : int64) : B.big_int =
  let z = B.big_int_of_int64 x in if Int64.compare x 0L < 0 then B.add_big_int z two64 else z
let round_s (f : float) : float = Int32.float_of_bits (Int32.bits_of_float f)

(* signed 64-bit integer to double with at most one rounding to single afterwards (round to odd) *)
let float_of_i64_for_single (x : int64) : float =
  let ax = Int64.abs x in
  if Int64.compare ax 0L >= 0 && Int64.compare ax 9007199254740992L < 0 then Int64.to_float x
  else begin
    let neg = Int64.compare x 0L < 0 in
    let u = if neg then Int64.neg x else x in          (* as unsigned magnitude *)
    let hi = Int64.shift_right_logical u 11 in
    let sticky = if Int64.logand u 0x7FFL <> 0L then 1L else 0L in
    let v = Int64.to_float (Int64.logor hi sticky) *. 2048.0 in
    if neg then -. v else v
  end
let float_of_u64 (single : bool) (x : int64) : float =
  if Int64.compare x 0L >= 0 then (if single then float_of_i64_for_single x else Int64.to_float x)
  else begin
    if single then begin
      let hi = Int64.shift_right_logical x 11 in
      let sticky = if Int64.logand x 0x7FFL <> 0L then 1L else 0L in
      Int64.to_float (Int64.logor hi sticky) *. 2048.0
    end else begin
      let h = Int64.logor (Int64.shift_right_logical x 1) (Int64.logand x 1L) in
      Int64.to_float h *. 2.0
    end
  end
let u64_of_float (f : float) : int64 =
  if f >= 9223372036854775808.0 then Int64.add (Int64.of_float (f -. 9223372036854775808.0)) Int64.min_int
  else Int64.of_float f

(* signed conversions: outside the range of the RESULT CLASS the hardware answer is not the wrapped mathematical
   value: amd64 cvttsd2si (the 32-bit form for class w) gives the "integer indefinite" value.  Modelling that (rather
   than wrapping a 64-bit conversion) keeps `w dtosi` distinguishable from `w dtoui` on values in [2^31, 2^32). *)
let tosi (wide : bool) (f : float) : int64 =
  if wide then (if Float.is_nan f || f >= 9223372036854775808.0 || f < -9223372036854775808.0 then Int64.min_int else Int64.of_float f)
  else (if Float.is_nan f || f >= 2147483648.0 || f <= -2147483649.0 then 0x80000000L else Int64.of_float f)

let fo : fops = {
  f_bin = (fun dbl op a b ->
      let x, y = if dbl then dbl_of_bits a, dbl_of_bits b else sgl_of_bits a, sgl_of_bits b in
      let r = match op with FAdd -> x +. y | FSub -> x -. y | FMul -> x *. y | FDiv -> x /. y in
      if dbl then bits_d r else bits_s r);
  f_cmp = (fun dbl c a b ->
      let x, y = if dbl then dbl_of_bits a, dbl_of_bits b else sgl_of_bits a, sgl_of_bits b in
      let un = Float.is_nan x || Float.is_nan y in
      match c with
      | Feq -> x = y | Fne -> un || x <> y | Fle -> x <= y | Flt -> x < y | Fge -> x >= y | Fgt -> x > y
      | Fo -> not un | Fuo -> un);
  f_cvt = (fun c wide a ->
      match c with
      | Cexts -> bits_d (sgl_of_bits a)
      | Ctruncd -> bits_s (dbl_of_bits a)
      | Cstosi -> u64_big (tosi wide (sgl_of_bits a))
      | Cdtosi -> u64_big (tosi wide (dbl_of_bits a))
      | Cstoui -> u64_big (u64_of_float (sgl_of_bits a))
      | Cdtoui -> u64_big (u64_of_float (dbl_of_bits a))
      | Cswtof -> let f = float_of_int (to_s32 a) in if wide then bits_d f else bits_s f
      | Cuwtof -> let f = float_of_int (to_int a land 0xFFFFFFFF) in if wide then bits_d f else bits_s f
      | Csltof -> let x = s64_of a in if wide then bits_d (Int64.to_float x) else bits_s (float_of_i64_for_single x)
      | Cultof -> let x = s64_of a in if wide then bits_d (float_of_u64 false x) else bits_s (float_of_u64 true x));
}

(* ------------------------------------------------------------------ reporting *)
let vkind_str = function
  | VDupSym -> "dup-symbol" | VDupType -> "dup-type" | VDupLabel -> "dup-label" | VDupTemp -> "dup-temp"
  | VUndefTemp -> "undef-temp" | VNotDom -> "not-dominated" | VClass -> "class" | VNoLabel -> "no-label"
  | VPhiPreds -> "phi-preds" | VPhiSet -> "phi-set" | VNoTerm -> "no-terminator" | VNoType -> "type-before-def" | VCallSig -> "call-signature"
  | VRetClass -> "ret-class" | VDomFuel -> "dom-fuel" | VEntryPhi -> "entry-phi"

let find_func (p : parsed) (g : int) : func option =
  List.fold_left (fun acc d -> match acc, d with None, Dfunc f when to_int f.f_name = g -> Some f | _ -> acc) None p.m

let viol_line (p : parsed) (v : violation) : string =
  let fn = to_int v.v_fn and bl = to_int v.v_blk and idx = to_int v.v_idx and aux = to_int v.v_aux in
  let k = v.v_kind in
  let fi = try Some (Hashtbl.find p.fns fn) with Not_found -> None in
  let fname = match k with
    | VDupType | VNoType when fi = None -> ":" ^ name_or p.tnames fn
    | _ -> "$" ^ name_or p.gnames fn in
  let bname = match fi with Some fi -> "@" ^ name_or fi.labels bl | None -> "-" in
  let auxs = match k, fi with
    | (VDupTemp | VUndefTemp | VNotDom), Some fi -> "%" ^ name_or fi.temps aux
    | (VNoLabel | VDupLabel | VNoTerm), Some fi -> "@" ^ name_or fi.labels aux
    | VPhiPreds, Some fi -> "@" ^ name_or fi.labels aux
    | (VPhiSet | VEntryPhi), Some fi -> "%" ^ name_or fi.temps aux
    | (VNoType | VDupType), _ -> ":" ^ name_or p.tnames aux
    | (VCallSig | VDupSym), _ -> "$" ^ name_or p.gnames aux
    | _ -> "-" in
  let text =
    match fi, find_func p fn with
    | Some fi, Some f ->
      let c = { p; fi } in
      (match List.find_opt (fun b -> to_int b.b_label = bl) f.f_blocks with
       | None -> ""
       | Some b ->
         if idx < 0 then
           (match List.find_opt (fun ph -> (match k with VPhiPreds | VNoLabel -> List.exists (fun (l, _) -> to_int l = aux) ph.p_args | VPhiSet | VClass | VEntryPhi -> to_int ph.p_res = aux | _ -> List.exists (fun (_, r) -> r = RTmp (bi aux)) ph.p_args)) b.b_phis with
            | Some ph -> phi_str c ph | None -> (match b.b_phis with ph :: _ -> phi_str c ph | [] -> ""))
         else if idx < List.length b.b_insts then inst_str c (List.nth b.b_insts idx)
         else (match b.b_jump with Some j -> jump_str c j | None -> "<no jump>"))
    | _ -> "" in
  Printf.sprintf "VIOL rule=%d kind=%s fn=%s blk=%s idx=%d aux=%s :: %s" (to_int v.v_rule) (vkind_str k) fname bname idx auxs text

let check_file ~(full : bool) (f : string) : bool =
  Printf.printf "== %s\n" f;
  match (try `P (parse (read_file f)) with Parse_error (l, m) -> `E (l, m)) with
  | `E (l, m) -> Printf.printf "PARSE %d: %s\n" l m; false
  | `P p ->
    let rt_ok = if full then (match roundtrip p with RtOk -> true | RtErr e -> Printf.printf "ROUNDTRIP %s\n" e; false) else true in
    let vs = wf_module_list p.m in
    List.iter (fun v -> print_endline (viol_line p v)) vs;
    if vs = [] && rt_ok then print_endline "OK";
    if full then begin
      List.iter (fun ((g, sz), al) -> Printf.printf "DATA $%s %s %s\n" (name_or p.gnames (to_int g)) (B.string_of_big_int sz) (B.string_of_big_int al)) (data_info p.m);
      List.iter (fun ((t, sz), al) -> Printf.printf "TYPE :%s %s %s\n" (name_or p.tnames (to_int t)) (B.string_of_big_int sz) (B.string_of_big_int al)) (type_info p.m)
    end;
    vs = [] && rt_ok

let rec nat_of_int n acc = if n <= 0 then acc else nat_of_int (n - 1) (S acc)

let stuck_str (p : parsed) = function
  | UndefTemp t -> "UndefTemp " ^ B.string_of_big_int t
  | NoLabel l -> "NoLabel " ^ B.string_of_big_int l
  | BadClass -> "BadClass"
  | NoType t -> "NoType :" ^ name_or p.tnames (to_int t)
  | UnknownExtern g -> "UnknownExtern $" ^ name_or p.gnames (to_int g)
  | BadCallee a -> "BadCallee " ^ B.string_of_big_int a
  | BadCall -> "BadCall"
  | BadPhi l -> "BadPhi " ^ B.string_of_big_int l
  | DivTrap -> "DivTrap"
  | HltReached -> "HltReached"
  | BadVa -> "BadVa"
  | BadAlloc -> "BadAlloc"
  | NoEntry -> "NoEntry"
  | FellOffEnd -> "FellOffEnd"

let print_result (p : parsed) (r : result) : unit =
  match r with
  | Done (tr, st) ->
    List.iter (function
        | EvL v -> let v = if B.ge_big_int v two63 then B.sub_big_int v two64 else v in Printf.printf "out_l %s\n" (B.string_of_big_int v)
        | EvD b -> Printf.printf "out_d %016Lx\n" (s64_of b)) tr;
    Printf.printf "status %s\n" (B.string_of_big_int st)
  | OOB a -> Printf.printf "OOB %s\n" (B.string_of_big_int a)
  | Stuck s -> Printf.printf "STUCK %s\n" (stuck_str p s)
  | OutOfFuel -> print_endline "OUTOFFUEL"

let run_file f fuel entry =
  match (try `P (parse (read_file f)) with Parse_error (l, m) -> `E (l, m)) with
  | `E (l, m) -> Printf.printf "PARSE %d: %s\n" l m; 2
  | `P p ->
    let gid s = try Some (Hashtbl.find (let h = Hashtbl.create 16 in Array.iteri (fun i n -> Hashtbl.replace h n i) p.gnames; h) s) with Not_found -> None in
    let ext = List.filter_map (fun (n, x) -> match gid n with Some g -> Some (bi g, x) | None -> None)
        ["out_l", XoutL; "out_d", XoutD; "exit", Xexit; "abort", Xabort] in
    (match gid entry with
     | None -> print_endline "STUCK NoEntry"; 1
     | Some g ->
       let r = run fo p.m ext (bi (max 1 p.nglob)) (bi g) (nat_of_int fuel O) in
       (match r with
        | Done _ -> ()
        | _ ->
          (* diagnostics only: replay with the step function to show the trace up to the failure *)
          let ge = mk_genv p.m ext in
          (match init_state p.m ge (bi (max 1 p.nglob)) (bi g) with
           | Ok st ->
             let cur = ref st and n = ref fuel and fin = ref false in
             while not !fin && !n > 0 do
               (match step fo ge !cur with Next s -> cur := s | Final _ -> fin := true); decr n
             done;
             print_result p (Done (List.rev !cur.st_trace, bi (-1)));
             (match !cur.st_stack with
              | fr :: _ -> Printf.printf "# failed in $%s block %s, %d instructions left in the block\n" (name_or p.gnames (to_int fr.fr_fn.f_name))
                             (try name_or (Hashtbl.find p.fns (to_int fr.fr_fn.f_name)).labels (to_int fr.fr_blk.b_label) with Not_found -> "?") (List.length fr.fr_code)
              | [] -> ())
           | Err _ -> ()));
       print_result p r;
       (match r with Done _ -> 0 | _ -> 1))

let () =
  match Array.to_list Sys.argv with
  | _ :: "wf" :: files when files <> [] ->
    let ok = List.fold_left (fun acc f -> check_file ~full:false f && acc) true files in exit (if ok then 0 else 1)
  | _ :: "check" :: files when files <> [] ->
    let ok = List.fold_left (fun acc f -> check_file ~full:true f && acc) true files in exit (if ok then 0 else 1)
  | [_; "run"; f] -> exit (run_file f 1000000 "main")
  | [_; "run"; f; fuel] -> exit (run_file f (int_of_string fuel) "main")
  | [_; "run"; f; fuel; entry] -> exit (run_file f (int_of_string fuel) entry)
  | [_; "roundtrip"; f] ->
    (match (try `P (parse (read_file f)) with Parse_error (l, m) -> `E (l, m)) with
     | `E (l, m) -> Printf.printf "PARSE %d: %s\n" l m; exit 2
     | `P p -> (match roundtrip p with RtOk -> print_endline "OK" | RtErr e -> print_endline e; exit 1))
  | [_; "print"; f] ->
    (match (try `P (parse (read_file f)) with Parse_error (l, m) -> `E (l, m)) with
     | `E (l, m) -> Printf.printf "PARSE %d: %s\n" l m; exit 2
     | `P p -> print_string (print p))
  | [_; "opnames"] -> List.iter (fun (n, _) -> print_endline n) optable
  | _ -> prerr_endline "usage: oracle wf|check <file>... | run <file> [fuel] [entry] | roundtrip <file> | print <file> | opnames"; exit 2
