(* ilparse.ml - strict parser of cproc's textual QBE IL into the extracted AST (Model), a printer
   that reproduces cproc's text token for token, and the print-after-parse self check.
   Part of the correspondence glue (trusted); see notes/QBE.md. *)
open Model
module B = Big_int_Z

exception Parse_error of int * string

let bi = B.big_int_of_int
let to_int = B.int_of_big_int

(* ------------------------------------------------------------------ tokens *)
type tok =
  | INT of string | FLTS of string | FLTD of string | STR of string
  | TMP of string | GLO of string | TYP of string | LBL of string | ID of string
  | COMMA | LP | RP | LB | RB | EQ | PLUS | DOTS | NL | EOF

let tok_str = function
  | INT s -> s | FLTS s -> "s_" ^ s | FLTD s -> "d_" ^ s | STR s -> "\"" ^ s ^ "\""
  | TMP s -> "%" ^ s | GLO s -> "$" ^ s | TYP s -> ":" ^ s | LBL s -> "@" ^ s | ID s -> s
  | COMMA -> "," | LP -> "(" | RP -> ")" | LB -> "{" | RB -> "}" | EQ -> "=" | PLUS -> "+"
  | DOTS -> "..." | NL -> "<newline>" | EOF -> "<eof>"

let is_digit c = c >= '0' && c <= '9'
let is_alpha c = (c >= 'a' && c <= 'z') || (c >= 'A' && c <= 'Z')
let is_name c = is_alpha c || is_digit c || c = '_' || c = '.' || c = '$'

let lex (s : string) : (tok * int) array =
  let n = String.length s in
  let out = ref [] in
  let line = ref 1 in
  let push t = out := (t, !line) :: !out in
  let i = ref 0 in
  let err m = raise (Parse_error (!line, m)) in
  let name_from j =            (* name after a sigil; a global may be a quoted string *)
    let k = ref j in
    if !k < n && s.[!k] = '"' then begin
      incr k;
      while !k < n && s.[!k] <> '"' do (if s.[!k] = '\n' then err "newline in quoted name"); incr k done;
      if !k >= n then err "unterminated quoted name";
      incr k
    end else begin
      while !k < n && is_name s.[!k] do incr k done;
      if !k = j then err "empty name after sigil"
    end;
    !k in
  while !i < n do
    let c = s.[!i] in
    if c = '\n' then (push NL; incr line; incr i)
    else if c = ' ' || c = '\t' || c = '\r' then incr i
    else if c = '#' then (while !i < n && s.[!i] <> '\n' do incr i done)
    else if c = ',' then (push COMMA; incr i)
    else if c = '(' then (push LP; incr i)
    else if c = ')' then (push RP; incr i)
    else if c = '{' then (push LB; incr i)
    else if c = '}' then (push RB; incr i)
    else if c = '=' then (push EQ; incr i)
    else if c = '+' then (push PLUS; incr i)
    else if c = '.' then begin
      if !i + 2 < n && s.[!i + 1] = '.' && s.[!i + 2] = '.' then (push DOTS; i := !i + 3) else err "stray '.'"
    end
    else if c = '%' || c = '$' || c = ':' || c = '@' then begin
      let k = name_from (!i + 1) in
      let nm = String.sub s (!i + 1) (k - !i - 1) in
      if c <> '$' && String.length nm > 0 && nm.[0] = '"' then err "quoted name is only allowed for globals";
      push (match c with '%' -> TMP nm | '$' -> GLO nm | ':' -> TYP nm | _ -> LBL nm);
      i := k
    end
    else if c = '"' then begin
      let k = ref (!i + 1) in
      while !k < n && s.[!k] <> '"' do
        if s.[!k] = '\n' then err "newline in string";
        if s.[!k] = '\\' then incr k;
        incr k
      done;
      if !k >= n then err "unterminated string";
      push (STR (String.sub s (!i + 1) (!k - !i - 1)));
      i := !k + 1
    end
    else if is_digit c || c = '-' then begin
      let k = ref (!i + 1) in
      while !k < n && is_digit s.[!k] do incr k done;
      if c = '-' && !k = !i + 1 then err "stray '-'";
      push (INT (String.sub s !i (!k - !i)));
      i := !k
    end
    else if (c = 's' || c = 'd') && !i + 1 < n && s.[!i + 1] = '_' then begin
      let k = ref (!i + 2) in
      while !k < n && (is_alpha s.[!k] || is_digit s.[!k] || s.[!k] = '.' || s.[!k] = '+' || s.[!k] = '-') do incr k done;
      let t = String.sub s (!i + 2) (!k - !i - 2) in
      if t = "" then err "empty floating constant";
      push (if c = 's' then FLTS t else FLTD t);
      i := !k
    end
    else if is_alpha c || c = '_' then begin
      let k = ref !i in
      while !k < n && (is_alpha s.[!k] || is_digit s.[!k] || s.[!k] = '_') do incr k done;
      push (ID (String.sub s !i (!k - !i)));
      i := !k
    end
    else err (Printf.sprintf "unexpected character %C" c)
  done;
  push EOF;
  Array.of_list (List.rev !out)

(* ------------------------------------------------------------------ numbers *)
let two64 = B.power_int_positive_int 2 64
let two63 = B.power_int_positive_int 2 63

let int_of_text line t =
  let z = try B.big_int_of_string t with _ -> raise (Parse_error (line, "bad integer " ^ t)) in
  if B.ge_big_int z two64 || B.lt_big_int z (B.minus_big_int two63) then raise (Parse_error (line, "integer out of 64-bit range: " ^ t));
  if B.sign_big_int z < 0 then B.add_big_int z two64 else z

let float_of_text line t =
  match t with
  | "nan" -> Float.nan | "-nan" -> Float.neg Float.nan | "inf" -> Float.infinity | "-inf" -> Float.neg_infinity
  | _ ->
    (* decimal or hexadecimal floating literal as printf %.17g / %a prints it *)
    let ok = String.length t > 0 && (is_digit t.[0] || ((t.[0] = '-' || t.[0] = '+') && String.length t > 1 && (is_digit t.[1] || t.[1] = '.')) || t.[0] = '.') in
    if not ok then raise (Parse_error (line, "bad floating constant " ^ t));
    (try float_of_string t with _ -> raise (Parse_error (line, "bad floating constant " ^ t)))

let bits_d (f : float) : B.big_int =
  let x = Int64.bits_of_float f in
  let z = B.big_int_of_int64 x in
  if Int64.compare x 0L < 0 then B.add_big_int z two64 else z
let bits_s (f : float) : B.big_int = bi ((Int32.to_int (Int32.bits_of_float f)) land 0xFFFFFFFF)
let dbl_of_bits (z : B.big_int) : float =
  let z = if B.ge_big_int z two63 then B.sub_big_int z two64 else z in
  Int64.float_of_bits (B.int64_of_big_int z)
let sgl_of_bits (z : B.big_int) : float = Int32.float_of_bits (Int32.of_int (to_int z))

(* ------------------------------------------------------------------ name tables *)
type table = { tbl : (string, int) Hashtbl.t; mutable rev : string list; mutable cnt : int }
let new_table () = { tbl = Hashtbl.create 64; rev = []; cnt = 0 }
let intern t s =
  match Hashtbl.find_opt t.tbl s with
  | Some i -> i
  | None -> t.cnt <- t.cnt + 1; Hashtbl.add t.tbl s t.cnt; t.rev <- s :: t.rev; t.cnt
let names_of t = Array.of_list ("?" :: List.rev t.rev)       (* index 0 unused *)

type fninfo = { temps : string array; labels : string array }
type parsed = {
  m : module0;
  gnames : string array;                 (* global id -> name (without '$') *)
  tnames : string array;                 (* type id -> name (without ':') *)
  fns : (int, fninfo) Hashtbl.t;         (* function global id -> its temporaries and labels *)
  nglob : int;
  toks : (tok * int) array;
}

let name_or a i = if i >= 0 && i < Array.length a then a.(i) else "?" ^ string_of_int i

(* ------------------------------------------------------------------ opcode table *)
let optable : (string * op) list = [
  "add", Obin Badd; "sub", Obin Bsub; "neg", Oneg; "div", Obin Bdiv; "mul", Obin Bmul; "udiv", Obin Budiv;
  "rem", Obin Brem; "urem", Obin Burem; "or", Obin Bor; "xor", Obin Bxor; "and", Obin Band;
  "sar", Obin Bsar; "shr", Obin Bshr; "shl", Obin Bshl;
  "stored", Ostore Sd; "stores", Ostore Ss; "storel", Ostore Sl; "storew", Ostore Sw; "storeh", Ostore Sh; "storeb", Ostore Sb;
  "loadd", Oload Ld; "loads", Oload Ls; "loadl", Oload Ll; "loadw", Oload Lw; "loadsh", Oload Lsh; "loaduh", Oload Luh;
  "loadsb", Oload Lsb; "loadub", Oload Lub;
  "alloc4", Oalloc (bi 4); "alloc8", Oalloc (bi 8); "alloc16", Oalloc (bi 16);
  "ceqw", Ocmpi (false, Ceq); "cnew", Ocmpi (false, Cne); "cslew", Ocmpi (false, Csle); "csltw", Ocmpi (false, Cslt);
  "csgew", Ocmpi (false, Csge); "csgtw", Ocmpi (false, Csgt); "culew", Ocmpi (false, Cule); "cultw", Ocmpi (false, Cult);
  "cugew", Ocmpi (false, Cuge); "cugtw", Ocmpi (false, Cugt);
  "ceql", Ocmpi (true, Ceq); "cnel", Ocmpi (true, Cne); "cslel", Ocmpi (true, Csle); "csltl", Ocmpi (true, Cslt);
  "csgel", Ocmpi (true, Csge); "csgtl", Ocmpi (true, Csgt); "culel", Ocmpi (true, Cule); "cultl", Ocmpi (true, Cult);
  "cugel", Ocmpi (true, Cuge); "cugtl", Ocmpi (true, Cugt);
  "ceqs", Ocmpf (false, Feq); "cnes", Ocmpf (false, Fne); "cles", Ocmpf (false, Fle); "clts", Ocmpf (false, Flt);
  "cges", Ocmpf (false, Fge); "cgts", Ocmpf (false, Fgt); "cos", Ocmpf (false, Fo); "cuos", Ocmpf (false, Fuo);
  "ceqd", Ocmpf (true, Feq); "cned", Ocmpf (true, Fne); "cled", Ocmpf (true, Fle); "cltd", Ocmpf (true, Flt);
  "cged", Ocmpf (true, Fge); "cgtd", Ocmpf (true, Fgt); "cod", Ocmpf (true, Fo); "cuod", Ocmpf (true, Fuo);
  "extsw", Oext Esw; "extuw", Oext Euw; "extsh", Oext Esh; "extuh", Oext Euh; "extsb", Oext Esb; "extub", Oext Eub;
  "exts", Ocvt Cexts; "truncd", Ocvt Ctruncd; "stosi", Ocvt Cstosi; "stoui", Ocvt Cstoui; "dtosi", Ocvt Cdtosi;
  "dtoui", Ocvt Cdtoui; "swtof", Ocvt Cswtof; "uwtof", Ocvt Cuwtof; "sltof", Ocvt Csltof; "ultof", Ocvt Cultof;
  "cast", Ocast; "copy", Ocopy; "vastart", Ovastart; "vaarg", Ovaarg;
]
let ophash = let h = Hashtbl.create 128 in List.iter (fun (n, o) -> Hashtbl.add h n o) optable; h
let opname (o : op) : string =
  let o' = match o with Oalloc z -> `A (to_int z) | _ -> `O o in
  let rec go = function
    | [] -> "?op"
    | (n, Oalloc z) :: r -> if o' = `A (to_int z) then n else go r
    | (n, x) :: r -> if o' = `O x then n else go r in
  go optable

(* ------------------------------------------------------------------ parser *)
let cls_of_id line = function
  | "w" -> Kw | "l" -> Kl | "s" -> Ks | "d" -> Kd
  | s -> raise (Parse_error (line, "class w/l/s/d expected, got " ^ s))

let parse (text : string) : parsed =
  let toks = lex text in
  let pos = ref 0 in
  let peek () = fst toks.(!pos) in
  let line () = snd toks.(!pos) in
  let adv () = if !pos < Array.length toks - 1 then incr pos in
  let err m = raise (Parse_error (line (), m ^ " (at " ^ tok_str (peek ()) ^ ")")) in
  let expect t = if peek () = t then adv () else err ("expected " ^ tok_str t) in
  let skipnl () = while peek () = NL do adv () done in
  let globals = new_table () and types = new_table () in
  let fns = Hashtbl.create 16 in
  let glo s = bi (intern globals s) in
  let typ s = bi (intern types s) in
  let decode_str raw =
    let n = String.length raw in
    let out = ref [] in
    let i = ref 0 in
    while !i < n do
      let c = raw.[!i] in
      if c <> '\\' then (out := Char.code c :: !out; incr i)
      else begin
        if !i + 1 >= n then err "dangling backslash in string";
        let d = raw.[!i + 1] in
        if d >= '0' && d <= '7' then begin
          let k = ref (!i + 1) and v = ref 0 in
          while !k < n && !k < !i + 4 && raw.[!k] >= '0' && raw.[!k] <= '7' do v := !v * 8 + Char.code raw.[!k] - 48; incr k done;
          out := (!v land 255) :: !out; i := !k
        end else begin
          let v = match d with 'n' -> 10 | 't' -> 9 | 'r' -> 13 | 'b' -> 8 | 'f' -> 12 | '\\' -> 92 | '"' -> 34
                             | _ -> err "unknown escape in string" in
          out := v :: !out; i := !i + 2
        end
      end
    done;
    List.rev_map bi !out in
  let parse_lnk () =
    let ex = ref false and th = ref false and sec = ref None in
    let continue = ref true in
    while !continue do
      skipnl ();
      (match peek () with
       | ID "export" -> ex := true; adv ()
       | ID "thread" -> th := true; adv ()
       | ID "section" -> adv ();
         (match peek () with
          | STR s -> sec := Some (decode_str s); adv ();
            (match peek () with STR _ -> err "section flags are not supported" | _ -> ())
          | _ -> err "section name expected")
       | _ -> continue := false)
    done;
    { l_export = !ex; l_thread = !th; l_section = !sec } in
  let parse_rty () =
    match peek () with
    | TYP s -> adv (); Tagg (typ s)
    | ID s -> let k = cls_of_id (line ()) s in adv (); Tbase k
    | _ -> err "type expected" in
  (* ---- type definition *)
  let parse_fty () =
    match peek () with
    | TYP s -> adv (); Fagg (typ s)
    | ID "b" -> adv (); Fb | ID "h" -> adv (); Fh | ID "w" -> adv (); Fw | ID "l" -> adv (); Fl
    | ID "s" -> adv (); Fs | ID "d" -> adv (); Fd
    | _ -> err "field type expected" in
  let parse_fields () =          (* after '{' ; consumes the closing '}' *)
    let fs = ref [] in
    let stop = ref false in
    while not !stop do
      if peek () = RB then stop := true
      else begin
        let f = parse_fty () in
        let cnt = match peek () with INT s -> let z = int_of_text (line ()) s in adv (); z | _ -> bi 1 in
        fs := (f, cnt) :: !fs;
        if peek () = COMMA then adv () else stop := true
      end
    done;
    expect RB;
    List.rev !fs in
  let parse_type () =
    adv ();
    let name = match peek () with TYP s -> adv (); typ s | _ -> err "type name expected" in
    expect EQ;
    let al = match peek () with
      | ID "align" -> adv (); (match peek () with INT s -> let z = int_of_text (line ()) s in adv (); Some z | _ -> err "alignment expected")
      | _ -> None in
    expect LB;
    let body =
      match peek () with
      | INT s -> let z = int_of_text (line ()) s in adv (); expect RB; TOpaque z
      | LB ->
        let alts = ref [] in
        while peek () = LB do adv (); alts := parse_fields () :: !alts done;
        expect RB; TUnion (List.rev !alts)
      | _ -> TStruct (parse_fields ()) in
    Dtype { td_name = name; td_align = al; td_body = body } in
  (* ---- data definition *)
  let parse_data lnk =
    adv ();
    let name = match peek () with GLO s -> adv (); glo s | _ -> err "data name expected" in
    expect EQ;
    let al = match peek () with
      | ID "align" -> adv (); (match peek () with INT s -> let z = int_of_text (line ()) s in adv (); Some z | _ -> err "alignment expected")
      | _ -> None in
    expect LB;
    let items = ref [] in
    let stop = ref false in
    while not !stop do
      skipnl ();
      (match peek () with
       | RB -> stop := true
       | ID "z" -> adv ();
         (match peek () with INT s -> let z = int_of_text (line ()) s in adv (); items := DZero z :: !items | _ -> err "size expected after z")
       | ID t when List.mem t ["b"; "h"; "w"; "l"; "s"; "d"] ->
         adv ();
         let ty = match t with "b" -> Db | "h" -> Dh | "w" -> Dw | "l" -> Dl | "s" -> Ds | _ -> Dd in
         let vs = ref [] in
         let more = ref true in
         while !more do
           (match peek () with
            | INT s -> vs := DVint (int_of_text (line ()) s) :: !vs; adv ()
            | FLTS s -> vs := DVflt (bits_s (float_of_text (line ()) s)) :: !vs; adv ()
            | FLTD s -> vs := DVdbl (bits_d (float_of_text (line ()) s)) :: !vs; adv ()
            | STR s -> vs := DVstr (decode_str s) :: !vs; adv ()
            | GLO s -> adv ();
              let off = if peek () = PLUS then (adv (); match peek () with INT o -> let z = int_of_text (line ()) o in adv (); z | _ -> err "offset expected") else bi 0 in
              vs := DVsym (glo s, off) :: !vs
            | _ -> more := false)
         done;
         if !vs = [] then err "data item without a value";
         items := DItem (ty, List.rev !vs) :: !items
       | _ -> err "data item expected");
      if not !stop then begin
        skipnl ();
        match peek () with
        | COMMA -> adv ()
        | RB -> ()
        | _ -> err "',' or '}' expected in data"
      end
    done;
    expect RB;
    Ddata { d_lnk = lnk; d_name = name; d_align = al; d_items = List.rev !items } in
  (* ---- function *)
  let parse_func lnk =
    adv ();
    let temps = new_table () and labels = new_table () in
    let tmp s = bi (intern temps s) and lbl s = bi (intern labels s) in
    let ret = match peek () with GLO _ -> None | _ -> Some (parse_rty ()) in
    let name = match peek () with GLO s -> adv (); glo s | _ -> err "function name expected" in
    expect LP;
    let params = ref [] and vararg = ref false in
    let stop = ref (peek () = RP) in
    while not !stop do
      (match peek () with
       | DOTS -> adv (); vararg := true; if peek () <> RP then err "'...' must be last"
       | _ -> let t = parse_rty () in
         (match peek () with TMP s -> adv (); params := (t, tmp s) :: !params | _ -> err "parameter name expected"));
      if peek () = COMMA then (adv (); if peek () = RP then err "parameter expected") else stop := true
    done;
    expect RP;
    expect LB;
    expect NL;
    let parse_ref () =
      match peek () with
      | TMP s -> adv (); RTmp (tmp s)
      | INT s -> let z = int_of_text (line ()) s in adv (); RInt z
      | FLTS s -> let f = float_of_text (line ()) s in adv (); RFlt (bits_s f)
      | FLTD s -> let f = float_of_text (line ()) s in adv (); RDbl (bits_d f)
      | GLO s -> adv (); RGlo (glo s, false)
      | ID "thread" -> adv (); (match peek () with GLO s -> adv (); RGlo (glo s, true) | _ -> err "global expected after thread")
      | _ -> err "operand expected" in
    let parse_call_args () =
      expect LP;
      let args = ref [] in
      let stop = ref (peek () = RP) in
      while not !stop do
        (match peek () with
         | DOTS -> adv (); args := Avar :: !args
         | _ -> let t = parse_rty () in let r = parse_ref () in args := Aval (t, r) :: !args);
        if peek () = COMMA then (adv (); if peek () = RP then err "argument expected") else stop := true
      done;
      expect RP;
      List.rev !args in
    let blocks = ref [] in
    (* current block under construction *)
    let cur_label = ref None and cur_phis = ref [] and cur_insts = ref [] in
    let close j =
      (match !cur_label with
       | None -> ()
       | Some l -> blocks := { b_label = l; b_phis = List.rev !cur_phis; b_insts = List.rev !cur_insts; b_jump = j } :: !blocks);
      cur_label := None; cur_phis := []; cur_insts := [] in
    let need_block () = if !cur_label = None then err "instruction outside a block (label expected after a jump)" in
    let fin = ref false in
    while not !fin do
      skipnl ();
      (match peek () with
       | RB -> adv (); close None; fin := true
       | LBL s -> adv (); close None; cur_label := Some (lbl s); expect NL
       | TMP s ->
         need_block ();
         adv (); let t = tmp s in
         expect EQ;
         let ty = parse_rty () in
         (match peek () with
          | ID "phi" ->
            adv ();
            if !cur_insts <> [] then err "phi after an ordinary instruction";
            let k = match ty with Tbase k -> k | Tagg _ -> err "phi of aggregate type" in
            let args = ref [] in
            let more = ref true in
            while !more do
              (match peek () with LBL l -> adv (); let r = parse_ref () in args := (lbl l, r) :: !args | _ -> err "phi label expected");
              if peek () = COMMA then adv () else more := false
            done;
            cur_phis := { p_res = t; p_cls = k; p_args = List.rev !args } :: !cur_phis
          | ID "call" ->
            adv (); let f = parse_ref () in let args = parse_call_args () in
            cur_insts := Icall (Some (t, ty), f, args) :: !cur_insts
          | ID o when Hashtbl.mem ophash o ->
            adv ();
            let k = match ty with Tbase k -> k | Tagg _ -> err "aggregate result class on a non-call instruction" in
            let a0 = parse_ref () in
            let a1 = if peek () = COMMA then (adv (); Some (parse_ref ())) else None in
            cur_insts := Iop (Some (t, k), Hashtbl.find ophash o, a0, a1) :: !cur_insts
          | _ -> err "unknown instruction");
         expect NL
       | ID "jmp" -> need_block (); adv ();
         (match peek () with LBL l -> adv (); expect NL; close (Some (Jmp (lbl l))) | _ -> err "label expected")
       | ID "jnz" -> need_block (); adv ();
         let r = parse_ref () in expect COMMA;
         let l1 = (match peek () with LBL l -> adv (); lbl l | _ -> err "label expected") in expect COMMA;
         let l2 = (match peek () with LBL l -> adv (); lbl l | _ -> err "label expected") in
         expect NL; close (Some (Jnz (r, l1, l2)))
       | ID "ret" -> need_block (); adv ();
         let r = if peek () = NL then None else Some (parse_ref ()) in
         expect NL; close (Some (Ret r))
       | ID "hlt" -> need_block (); adv (); expect NL; close (Some Hlt)
       | ID "call" -> need_block (); adv ();
         let f = parse_ref () in let args = parse_call_args () in
         cur_insts := Icall (None, f, args) :: !cur_insts; expect NL
       | ID o when Hashtbl.mem ophash o ->
         need_block (); adv ();
         let a0 = parse_ref () in
         let a1 = if peek () = COMMA then (adv (); Some (parse_ref ())) else None in
         cur_insts := Iop (None, Hashtbl.find ophash o, a0, a1) :: !cur_insts; expect NL
       | _ -> err "instruction, label or '}' expected")
    done;
    let f = { f_lnk = lnk; f_ret = ret; f_name = name; f_params = List.rev !params; f_vararg = !vararg; f_blocks = List.rev !blocks } in
    Hashtbl.replace fns (to_int name) { temps = names_of temps; labels = names_of labels };
    Dfunc f in
  let defs = ref [] in
  let fin = ref false in
  while not !fin do
    skipnl ();
    match peek () with
    | EOF -> fin := true
    | ID "type" -> defs := parse_type () :: !defs; if peek () <> EOF then expect NL
    | _ ->
      let lnk = parse_lnk () in
      (match peek () with
       | ID "function" -> defs := parse_func lnk :: !defs
       | ID "data" -> defs := parse_data lnk :: !defs
       | _ -> err "type, data or function definition expected");
      if peek () <> EOF then expect NL
  done;
  { m = List.rev !defs; gnames = names_of globals; tnames = names_of types; fns; nglob = globals.cnt; toks }

(* ------------------------------------------------------------------ printer (cproc's layout) *)
let cls_str = function Kw -> "w" | Kl -> "l" | Ks -> "s" | Kd -> "d"
let fmt_float f =
  if Float.is_nan f then (if Int64.compare (Int64.bits_of_float f) 0L < 0 then "-nan" else "nan")
  else Printf.sprintf "%.17g" f

let escape_bytes (l : B.big_int list) =
  let b = Buffer.create 16 in
  List.iter (fun z -> let c = to_int z in
              if c >= 32 && c < 127 && c <> 34 && c <> 92 then Buffer.add_char b (Char.chr c)
              else Buffer.add_string b (Printf.sprintf "\\%03o" c)) l;
  Buffer.contents b

type pctx = { p : parsed; fi : fninfo }

let rty_str p = function Tbase k -> cls_str k | Tagg t -> ":" ^ name_or p.tnames (to_int t)
let ref_str c = function
  | RTmp t -> "%" ^ name_or c.fi.temps (to_int t)
  | RInt z -> B.string_of_big_int z
  | RFlt b -> "s_" ^ fmt_float (sgl_of_bits b)
  | RDbl b -> "d_" ^ fmt_float (dbl_of_bits b)
  | RGlo (g, th) -> (if th then "thread " else "") ^ "$" ^ name_or c.p.gnames (to_int g)
let lbl_str c l = "@" ^ name_or c.fi.labels (to_int l)

let inst_str c = function
  | Iop (d, o, a0, a1) ->
    (match d with Some (t, k) -> "%" ^ name_or c.fi.temps (to_int t) ^ " =" ^ cls_str k ^ " " | None -> "")
    ^ opname o ^ " " ^ ref_str c a0 ^ (match a1 with Some r -> ", " ^ ref_str c r | None -> "")
  | Icall (d, f, args) ->
    (match d with Some (t, ty) -> "%" ^ name_or c.fi.temps (to_int t) ^ " =" ^ rty_str c.p ty ^ " " | None -> "")
    ^ "call " ^ ref_str c f ^ "("
    ^ String.concat ", " (List.map (function Avar -> "..." | Aval (t, r) -> rty_str c.p t ^ " " ^ ref_str c r) args) ^ ")"
let phi_str c ph =
  "%" ^ name_or c.fi.temps (to_int ph.p_res) ^ " =" ^ cls_str ph.p_cls ^ " phi "
  ^ String.concat ", " (List.map (fun (l, r) -> lbl_str c l ^ " " ^ ref_str c r) ph.p_args)
let jump_str c = function
  | Jmp l -> "jmp " ^ lbl_str c l
  | Jnz (r, a, b) -> "jnz " ^ ref_str c r ^ ", " ^ lbl_str c a ^ ", " ^ lbl_str c b
  | Ret None -> "ret" | Ret (Some r) -> "ret " ^ ref_str c r
  | Hlt -> "hlt"

let lnk_str_data l =
  (if l.l_thread then "thread " else "") ^ (if l.l_export then "export " else "")
  ^ (match l.l_section with Some s -> "section \"" ^ escape_bytes s ^ "\" " | None -> "")

let print (p : parsed) : string =
  let b = Buffer.create 4096 in
  let add = Buffer.add_string b in
  List.iter (function
    | Dtype t ->
      add ("type :" ^ name_or p.tnames (to_int t.td_name) ^ " = ");
      (match t.td_align with Some a -> add ("align " ^ B.string_of_big_int a ^ " ") | None -> ());
      let fty_str = function Fb -> "b" | Fh -> "h" | Fw -> "w" | Fl -> "l" | Fs -> "s" | Fd -> "d"
                           | Fagg u -> ":" ^ name_or p.tnames (to_int u) in
      let fld (f, n) = fty_str f ^ (if B.eq_big_int n (bi 1) then "" else " " ^ B.string_of_big_int n) in
      (match t.td_body with
       | TOpaque s -> add ("{ " ^ B.string_of_big_int s ^ " }\n")
       | TStruct fs -> add "{ "; List.iter (fun x -> add (fld x ^ ", ")) fs; add "}\n"
       | TUnion alts -> add "{ "; List.iter (fun fs -> add ("{ " ^ String.concat ", " (List.map fld fs) ^ " } ")) alts; add "}\n")
    | Ddata d ->
      add (lnk_str_data d.d_lnk ^ "data $" ^ name_or p.gnames (to_int d.d_name) ^ " = ");
      (match d.d_align with Some a -> add ("align " ^ B.string_of_big_int a ^ " ") | None -> ());
      add "{ ";
      let dty_str = function Db -> "b" | Dh -> "h" | Dw -> "w" | Dl -> "l" | Ds -> "s" | Dd -> "d" in
      let dv = function
        | DVint z -> B.string_of_big_int z
        | DVflt x -> "s_" ^ fmt_float (sgl_of_bits x)
        | DVdbl x -> "d_" ^ fmt_float (dbl_of_bits x)
        | DVstr l -> "\"" ^ escape_bytes l ^ "\""
        | DVsym (g, o) -> "$" ^ name_or p.gnames (to_int g) ^ (if B.sign_big_int o = 0 then "" else " + " ^ B.string_of_big_int o) in
      List.iter (function
          | DZero n -> add ("z " ^ B.string_of_big_int n ^ ", ")
          | DItem (t, vs) -> add (dty_str t ^ " " ^ String.concat " " (List.map dv vs) ^ ", ")) d.d_items;
      add "}\n"
    | Dfunc f ->
      let fi = try Hashtbl.find p.fns (to_int f.f_name) with Not_found -> { temps = [||]; labels = [||] } in
      let c = { p; fi } in
      if f.f_lnk.l_thread then add "thread ";
      (match f.f_lnk.l_section with Some s -> add ("section \"" ^ escape_bytes s ^ "\" ") | None -> ());
      if f.f_lnk.l_export then add "export\n";
      add "function ";
      (match f.f_ret with Some t -> add (rty_str p t ^ " ") | None -> ());
      add ("$" ^ name_or p.gnames (to_int f.f_name) ^ "(");
      add (String.concat ", " (List.map (fun (t, x) -> rty_str p t ^ " %" ^ name_or fi.temps (to_int x)) f.f_params
                               @ (if f.f_vararg then ["..."] else [])));
      add ") {\n";
      List.iter (fun bl ->
          add (lbl_str c bl.b_label ^ "\n");
          List.iter (fun ph -> add ("\t" ^ phi_str c ph ^ "\n")) bl.b_phis;
          List.iter (fun i -> add ("\t" ^ inst_str c i ^ "\n")) bl.b_insts;
          (match bl.b_jump with Some j -> add ("\t" ^ jump_str c j ^ "\n") | None -> ())) f.f_blocks;
      add "}\n") p.m;
  Buffer.contents b

(* ------------------------------------------------------------------ print-after-parse self check *)
(* token streams are compared after dropping a ',' that precedes '}', collapsing newlines and
   comparing floating constants by value *)
let normalise (toks : (tok * int) array) : tok list =
  let l = Array.to_list toks |> List.map fst in
  let l = List.map (function
      | FLTS s -> (try FLTS (B.string_of_big_int (bits_s (float_of_text 0 s))) with _ -> FLTS s)
      | FLTD s -> (try FLTD (B.string_of_big_int (bits_d (float_of_text 0 s))) with _ -> FLTD s)
      | INT s -> (try INT (B.string_of_big_int (int_of_text 0 s)) with _ -> INT s)
      | t -> t) l in
  let rec go acc = function
    | COMMA :: RB :: r -> go acc (RB :: r)
    | PLUS :: INT "0" :: r -> go acc r               (* "$sym + 0" is printed as "$sym" *)
    | COMMA :: NL :: r -> go acc (COMMA :: r)        (* newlines inside data bodies *)
    | NL :: NL :: r -> go acc (NL :: r)
    | t :: r -> go (t :: acc) r
    | [] -> List.rev acc in
  let l = go [] l in
  (* a second pass for ", }" created by the first *)
  let l = go [] l in
  match l with NL :: r -> r | _ -> l

type rt = RtOk | RtErr of string
let roundtrip (p : parsed) : rt =
  let text = print p in
  match (try Some (parse text) with Parse_error (l, m) -> prerr_endline (Printf.sprintf "printed text does not parse: line %d: %s" l m); None) with
  | None -> RtErr "printed text does not parse"
  | Some p2 ->
    let a = normalise p.toks and b = normalise p2.toks in
    let rec cmp i = function
      | x :: r, y :: s -> if x = y then cmp (i + 1) (r, s) else RtErr (Printf.sprintf "token %d differs: input %s, printed %s" i (tok_str x) (tok_str y))
      | [], [] -> RtOk
      | x :: _, [] -> RtErr (Printf.sprintf "printed text ends early at token %d (input has %s)" i (tok_str x))
      | [], y :: _ -> RtErr (Printf.sprintf "printed text has extra token %d: %s" i (tok_str y)) in
    match cmp 0 (a, b) with
    | RtErr e -> RtErr e
    | RtOk -> if p.m = p2.m then RtOk else RtErr "re-parsed module differs from the module"
