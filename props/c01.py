# C01 - compiled programs behave as the C abstract machine prescribes.   DESIGN.md section 5 (C01), notes/C01.md.
#   proof      : Properties_C01.v (conversions, binary operators, expression trees, bit-fields, aggregate copy) over
#                Model/Lower.v, executed by the straight-line fragment of Model/Qbe.v
#   structural : every (operator, type, type), conversion pair, bit-field shape, ++/--, control form ... compiled by
#                cproc-qbe and compared, modulo renaming, with the extracted model's prediction (ocaml/c01/oracle)
#   semantic   : generated whole programs run under Qbe.run (ocaml/qbe/oracle) against gcc -O1 and clang -O0+UBSan
import os, re, sys, time, hashlib, itertools, threading
import vlib
from vlib import sh, txt, run_limited

sys.path.insert(0, os.path.join(vlib.VERIF, 'gen'))
import c01_front as F
import c01_struct
import c01_progs
import c03            # build_oracle, shrink_lines, SHIM (props/c03.py)

LEVEL = 'proof'
MODULE = 'Properties_C01'
TARGETS = [('x86_64-sysv', True), ('aarch64', False), ('riscv64', False)]      # (name, plain char is signed)
CHUNK = 400
FUEL = 3000000

# findings of this check (notes/C01.md): the first two are fixed in /repo (their replays stay as regression probes), the third is known
K_SUBINT_FLOAT = 'subint-to-float-unextended'
K_BF_VALUE = 'bitfield-assign-value-subword-top'
K_COPY_PACKED = 'funccopy-overshoot-packed-alignas'
K_EMITTYPE = 'emittype-bitfield-drops-members'

PROBES = [
    (K_SUBINT_FLOAT, 'the value of a 1- or 2-byte integer expression that is not an lvalue is converted to float/double without '
     'being re-extended: (float)(signed char)x with x = 300 gives 300.0 instead of 44.0',
     'void out_l(long);\nvoid out_d(double);\nint x = 300;\nint y = 70000;\nint main(void)\n{\n\tout_d((float)(signed char)x);\n'
     '\tout_d((double)(unsigned short)y);\n\tout_d((unsigned char)(x + 1) * 0.5);\n\treturn 0;\n}\n'),
    (K_BF_VALUE, 'the value of an assignment (=, OP=, prefix ++/--) to a bit-field that ends at the top of a 1- or 2-byte storage unit '
     'is not reduced to the width of the bit-field: (s.f = 100) is 100 instead of 4 for signed char f : 5',
     'void out_l(long);\nstruct S { signed char a : 3; signed char f : 5; } s;\nstruct U { unsigned char a : 3; unsigned char f : 5; } u;\n'
     'struct H { unsigned short a : 3; unsigned short f : 13; } h;\nint main(void)\n{\n\tint y = (s.f = 100);\n\tout_l(y);\n\tout_l(s.f);\n'
     '\ty = (u.f = 100);\n\tout_l(y);\n\ty = (h.f = 78192);\n\tout_l(y);\n\tout_l(u.f += 100);\n\tout_l(++u.f);\n\treturn 0;\n}\n'),
    ('vla-typedef-size-first-use', 'the size of a VLA typedef is evaluated where the typedef is declared (6.7.8p3), not at its first use',
     'void out_l(long);\nlong fl(int n, int c)\n{\n\ttypedef int T[n];\n\tlong r = 0;\n\tif (c) {\n\t\tT a;\n\t\ta[0] = 1;\n\t\tr += sizeof a + a[0];\n\t}\n'
     '\tT b;\n\tb[n - 1] = 2;\n\tr += sizeof b + b[n - 1];\n\treturn r;\n}\nlong h(int n)\n{\n\ttypedef int T[n];\n\tn = 100;\n\tT x;\n\tx[0] = 5;\n\treturn sizeof x + x[0];\n}\n'
     'int main(void)\n{\n\tout_l(fl(3, 0));\n\tout_l(fl(3, 1));\n\tout_l(h(3));\n\treturn 0;\n}\n'),
    ('vla-pointer-arithmetic-scale-zero', 'arithmetic on pointers to variable length arrays is scaled by the run-time size of the array (a[i][j], p + 1, p++, p - q)',
     'void out_l(long);\nlong f(int n, int m)\n{\n\tint a[n][m];\n\tint (*p)[m] = a, (*q)[m] = a;\n\tlong r;\n\ta[1][2] = 5;\n\ta[0][2] = 7;\n\ta[n - 1][m - 1] = 9;\n'
     '\tr = a[1][2] * 100 + a[0][2] * 10 + a[n - 1][m - 1];\n\tq++;\n\t++q;\n\tq -= 1;\n\tout_l((char *)(p + 2) - (char *)p);\n\tout_l(q - p);\n\tout_l((*q)[2]);\n\tout_l(&a[2] - &a[0]);\n\treturn r;\n}\n'
     'int main(void)\n{\n\tout_l(f(3, 4));\n\tout_l(f(4, 7));\n\treturn 0;\n}\n'),
    ('string-literal-identity', 'distinct string literals (also wide ones with a common prefix) denote distinct arrays with their own contents',
     'void out_l(long);\nconst int *w1 = L"tab", *w2 = L"tag";\nint main(void)\n{\n\tconst unsigned short *a = u"abcd1", *b = u"abcd2";\n\tconst unsigned *c = U"xy", *d = U"xz";\n'
     '\tconst char *e = "pq", *f = "pr";\n\tout_l(w1[2]);\n\tout_l(w2[2]);\n\tout_l(a[4]);\n\tout_l(b[4]);\n\tout_l(c[1]);\n\tout_l(d[1]);\n\tout_l(e[1]);\n\tout_l(f[1]);\n\tout_l(L"ab"[1] + u"ac"[1]);\n\treturn 0;\n}\n'),
    ('float-to-unsigned-high-range', 'conversion of floating values in the upper half of the range of an unsigned type (>= 2^31 for unsigned, >= 2^63 for unsigned long)',
     'void out_l(long);\ndouble d1 = 3000000000.0, d2 = 4294967295.0, d3 = 2147483648.0, d4 = 1.8e19, d5 = 9223372036854775808.0;\nfloat f1 = 3000000000.0f, f2 = 1.5e19f;\n'
     'int main(void)\n{\n\tout_l((unsigned)d1);\n\tout_l((unsigned)d2);\n\tout_l((unsigned)d3);\n\tout_l((unsigned)f1);\n\tout_l((unsigned long)d4 >> 1);\n\tout_l((unsigned long)d5 >> 1);\n'
     '\tout_l((unsigned long)f2 >> 1);\n\tout_l((unsigned)(d1 - d3));\n\treturn 0;\n}\n'),
    ('logical-operator-value', 'the value of && and || is 0 or 1 whatever the operands are (bit masks, comparisons, _Bool, pointers, floats)',
     'void out_l(long);\nint en = 1, perm = 6, z = 0;\ndouble d = 0.5;\nint *p = &en;\nint main(void)\n{\n\tint n = 0;\n\tn += en && (perm & 4);\n\tout_l(n);\n\tn += z || (perm | 8);\n\tout_l(n);\n'
     '\tout_l(en && perm);\n\tout_l((perm & 2) && (perm & 4));\n\tout_l(z || (perm ^ 6));\n\tout_l(d && p);\n\tout_l((en && (perm & 4)) + (z || (perm & 2)) * 10);\n\tout_l(!(perm & 4) || (perm << 3));\n'
     '\tout_l((_Bool)(perm & 4) && (perm > 5));\n\tout_l(3 * (en && (perm - 1)));\n\treturn 0;\n}\n'),
    ('func-name-contents', '__func__ is an array holding the function name and its terminating null character',
     'void out_l(long);\nint len(const char *s) { int n = 0; while (s[n]) n++; return n; }\nint longer_name_here(void) { return len(__func__) * 100 + sizeof __func__; }\n'
     'int main(void)\n{\n\tconst char *p = __func__;\n\tout_l(len(p));\n\tout_l(p[4]);\n\tout_l(sizeof __func__);\n\tout_l(longer_name_here());\n\tout_l(__func__[0] + __func__[3]);\n\treturn 0;\n}\n'),
    ('negative-zero-conditions', 'negative zero is false: as a constant ?: condition, as an if/while condition, as an operand of ! && ||',
     'void out_l(long);\nint n;\nint bump(void) { return ++n; }\ndouble nz = -0.0;\nint main(void)\n{\n\tout_l(-0.0 ? 10 : 20);\n\tout_l((0.0 * -1) ? 1 : 2);\n\tout_l(-0.0f ? bump() : 5);\n\tout_l(n);\n'
     '\tout_l(nz ? 3 : 4);\n\tif (-0.0)\n\t\tout_l(-1);\n\tif (nz)\n\t\tout_l(-2);\n\tout_l(!nz);\n\tout_l(!-0.0);\n\tout_l(nz || 0);\n\tout_l(-0.0 && bump());\n\tout_l(n);\n\twhile (-nz * 0)\n\t\tout_l(-3);\n\tout_l((_Bool)nz + (_Bool)-0.0f);\n\treturn 0;\n}\n'),
    ('switch-insertion-orders', 'a switch reaches exactly the matching case whatever the order of its labels (every AVL rotation shape)',
     'void out_l(long);\n' + ''.join(
         'long sw%d(long v)\n{\n\tswitch (v) {\n%s\tdefault: return -1;\n\t}\n}\n' % (k, ''.join('\tcase %d: return %d;\n' % (c, c * 3 + k) for c in order))
         for k, order in enumerate([[50, 20, 80, 10, 30, 25], [10, 20, 30, 40, 50, 60, 70], [70, 60, 50, 40, 30, 20, 10], [40, 20, 60, 10, 30, 50, 70, 25, 27, 26],
                                    [5, 1, 9, 3, 7, 2, 4, 6, 8, 0, -5, -3, -4], [100, 50, 75, 60, 65, 62, 64, 63], [1, 100, 2, 99, 3, 98, 4, 97, 5, 96, 50, 51, 49]])) +
     'int main(void)\n{\n\tlong v;\n\tfor (v = -8; v <= 102; v++) {\n\t\tout_l(sw0(v) + sw1(v) * 7 + sw2(v) * 11 + sw3(v) * 13);\n\t\tout_l(sw4(v) + sw5(v) * 7 + sw6(v) * 11);\n\t}\n\treturn 0;\n}\n'),
    ('struct-array-members-by-value', 'structs with (multi-dimensional) array members are passed and returned by value intact',
     'void out_l(long);\nstruct A { int m[2][3]; };\nstruct B { short cell[3][3]; char t; };\nstruct C { char c[2][2][2]; long l; };\n'
     'struct A fa(struct A a, int k) { a.m[1][2] += k; a.m[0][0] -= k; return a; }\nlong fb(struct B b) { return b.cell[2][2] * 100 + b.cell[1][0] * 10 + b.t; }\n'
     'struct C fc(struct C c) { c.c[1][1][1]++; c.l += c.c[0][1][0]; return c; }\n'
     'int main(void)\n{\n\tstruct A a = { { { 1, 2, 3 }, { 4, 5, 6 } } }, r;\n\tstruct B b = { { { 1, 2, 3 }, { 4, 5, 6 }, { 7, 8, 9 } }, 5 };\n\tstruct C c = { { { { 1, 2 }, { 3, 4 } }, { { 5, 6 }, { 7, 8 } } }, 1000 }, q;\n'
     '\tr = fa(a, 10);\n\tout_l(r.m[0][0]);\n\tout_l(r.m[0][2]);\n\tout_l(r.m[1][0]);\n\tout_l(r.m[1][2]);\n\tout_l(a.m[1][2]);\n\tout_l(fb(b));\n\tq = fc(c);\n\tout_l(q.c[1][1][1]);\n\tout_l(q.l);\n\tout_l(q.c[0][0][1]);\n\treturn 0;\n}\n'),
    ('auto-init-brace-elision', 'automatic aggregates initialised with elided braces (struct containing a union, array of structs, nested arrays) hold the same values as with full braces',
     'void out_l(long);\nstruct V { int kind; union { int i; unsigned char bytes[4]; } u; int line; };\nstruct W { int k; union { long l; char c; }; short tail; };\nstruct P { char a; int b[2]; };\n'
     'int main(void)\n{\n\tint x = 2;\n\tstruct V v = { x, 0x01020304, 99 };\n\tstruct W w = { x + 1, 77, 5 };\n\tstruct P ps[2] = { 1, 2, 3, 4, 5, 6 };\n\tint g[2][3] = { 1, 2, 3, 4 };\n\tstruct V vs[2] = { 1, 2, 3, 4, 5, 6 };\n'
     '\tout_l(v.kind);\n\tout_l(v.u.i);\n\tout_l(v.line);\n\tout_l(w.k);\n\tout_l(w.l);\n\tout_l(w.tail);\n\tout_l(ps[0].a + ps[0].b[1] * 10 + ps[1].a * 100 + ps[1].b[1] * 1000);\n'
     '\tout_l(g[0][2] + g[1][0] * 10 + g[1][2] * 100);\n\tout_l(vs[0].line + vs[1].kind * 10 + vs[1].u.i * 100 + vs[1].line * 1000);\n\treturn 0;\n}\n'),
    ('side-effects-before-constant-operand', 'side effects of the left operand of && / || happen even when the right operand decides the value (x && 0, x || 1), also in ?: conditions and array bounds',
     'void out_l(long);\nint n;\nint bump(void) { return ++n; }\nint main(void)\n{\n\tint a = 5, *p = &a;\n\tout_l((bump() && 0) ? 10 : 20);\n\tout_l(n);\n\tout_l(((*p)++ || 1) ? a : -1);\n\tout_l(a);\n'
     '\t{\n\t\tchar buf[(bump() || 1)];\n\t\tout_l(sizeof buf);\n\t\tout_l(n);\n\t}\n\tout_l((bump(), 0) && bump());\n\tout_l(n);\n\tif (bump() && 0)\n\t\tout_l(-5);\n\tout_l(n);\n\tout_l(0 * bump() + n);\n\treturn 0;\n}\n'),
    ('literal-types-at-run-time', 'integer constants have the type 6.4.4.1 gives them (u-suffixed non-decimal constants beyond 32 bits are unsigned long)',
     'void out_l(long);\nlong v = -1;\nint s = 33;\nint main(void)\n{\n\tout_l(v < 0x100000000u);\n\tout_l(v < 0x100000000);\n\tout_l(-0x100000000u >> s);\n\tout_l(-0x100000000 >> s);\n'
     '\tout_l((0x100000000u - 0x100000001u) / 2 > 0);\n\tout_l(v / 0x7fffffffffffffffu);\n\tout_l(v < 040000000000u);\n\tout_l(v < 4294967296u);\n\tout_l(v < 0xffffffffu);\n\tout_l(v < 0x7fffffff);\n\treturn 0;\n}\n'),
    ('variadic-named-parameters', 'arguments for the NAMED parameters of a variadic function are converted to the parameter types (not default-promoted)',
     'void out_l(long);\nvoid out_d(double);\nlong first(long a, double d, unsigned long u, ...) { out_d(d); out_l((long)(u >> 32)); return a; }\nfloat fl(float f, ...) { return f * 2; }\n'
     'int main(void)\n{\n\tint neg = -7, three = 3;\n\tunsigned char c = 200;\n\tout_l(first(neg, three, neg, 1, 2));\n\tout_l(first(c, c, c, 0));\n\tout_d(fl(three, 1.5));\n\treturn 0;\n}\n'),
    ('rarely-lowered-constructs', 'constructs the generators do not produce (found with a coverage build): _Noreturn calls, __func__, wide-string automatic arrays, return without value, over-aligned partially initialised locals',
     'void out_l(long);\nint depth;\n_Noreturn void stop(int c);\nvoid visit(int n) { if (n == 0) return; out_l(n); visit(n - 1); return; }\n'
     'int name_len(void) { int n = 0; while (__func__[n]) n++; return n * 1000 + __func__[0]; }\n'
     'long wides(int k)\n{\n\tunsigned short u[6] = u"ab";\n\tint w[5] = L"xyz";\n\tunsigned v[3] = U"pq";\n\treturn u[0] + u[1] * 3 + u[2] + u[5] + w[2] * 7 + w[3] + w[4] + v[1] * 11 + v[2] + k;\n}\n'
     'long aligned(int k)\n{\n\tstruct { _Alignas(16) char c; int y; long z[5]; } s = { .y = k };\n\t_Alignas(32) int a[12] = { [3] = k };\n\tlong r = s.c + s.y + s.z[0] + s.z[4] + a[0] + a[3] + a[11];\n'
     '\treturn r * 2 + (((unsigned long)&s & 15) == 0) + (((unsigned long)a & 31) == 0);\n}\n'
     'int pick(int c) { if (c > 2) stop(c); return c ? c + 1 : (stop(0), 0); }\n'
     'int main(void)\n{\n\tvisit(3);\n\tout_l(name_len());\n\tout_l(wides(5));\n\tout_l(aligned(7));\n\tout_l(pick(1));\n\tout_l(pick(2));\n\treturn 0;\n}\n'
     'void stop(int c) { out_l(-c); for (;;) { } }\n'),
    ('switch-controlling-value', 'the controlling expression of a switch is promoted as a VALUE (narrow results of =, +=, ++, casts are extended first); a switch with only a default label runs it',
     'void out_l(long);\nint pick(int x)\n{\n\tsigned char c;\n\tunsigned char uc = 255;\n\tshort s = 32767;\n\tint r = 0;\n'
     '\tswitch (c = x) { case 1: r += 1; break; case -1: r += 2; break; case 257: r += 4; break; default: r += 8; }\n'
     '\tswitch (++uc) { case 0: r += 16; break; case 256: r += 32; break; default: r += 64; }\n'
     '\tswitch (s += 1) { case -32768: r += 128; break; case 32768: r += 256; break; default: r += 512; }\n'
     '\tswitch ((signed char)x) { case 1: r += 1024; break; case 257: r += 2048; break; default: r += 4096; }\n'
     '\tswitch ((unsigned char)(x + 255)) { case 0: r += 8192; break; case 512: r += 16384; break; default: r += 32768; }\n\treturn r;\n}\n'
     'int onlydefault(int x)\n{\n\tint r = 1;\n\tswitch (x) { default: r = 2; }\n\tswitch (x) { { default: r += 10; } }\n\tswitch (x) { case 1: switch (x) { default: r += 100; } break; case 2: r += 1000; break; }\n'
     '\tswitch (x) { }\n\tswitch (x) while (x > 5) { default: r += 5; break; }\n\treturn r;\n}\n'
     'int main(void)\n{\n\tout_l(pick(257));\n\tout_l(pick(-1));\n\tout_l(pick(1));\n\tout_l(pick(513));\n\tout_l(onlydefault(1));\n\tout_l(onlydefault(2));\n\tout_l(onlydefault(7));\n\treturn 0;\n}\n'),
    ('pointer-comparisons', 'equality and relational comparison of pointers with null pointer constants on either side, void pointers and function pointers',
     'void out_l(long);\nint a[4];\nint *p = &a[1], *q = &a[3], *z;\nvoid *v = &a[1];\nint (*fp)(void);\nint fn(void) { return 1; }\n'
     'int main(void)\n{\n\tout_l((p == 0) + 2 * (0 == p) + 4 * ((void *)0 != p) + 8 * (z == (void *)0) + 16 * ((int *)0 == z));\n'
     '\tout_l((v == p) + 2 * (p == v) + 4 * (v != q) + 8 * (q > p) + 16 * (p >= q) + 32 * (&a[4] > q));\n\tfp = fn;\n\tout_l((fp == fn) + 2 * (fp != 0) + 4 * (0 == fp) + 8 * (fn == fp));\n'
     '\tout_l((q - p) * 10 + (p - q) + ((char *)q - (char *)p));\n\tout_l(!p + !z * 2 + !!v * 4 + (p && z) * 8 + (p || z) * 16);\n\treturn 0;\n}\n'),
    ('enum-typed-objects', 'objects of an enumeration type whose compatible type is signed behave as signed integers (negative values in comparison, division, shifts, conversion to long/double)',
     'void out_l(long);\nvoid out_d(double);\nenum tone { LOW = -3, MID = 0, HIGH = 3 };\nenum big { NEG = -5000000000, POS = 5 };\nenum tone t = LOW;\nenum big b = NEG;\n'
     'long widen(enum tone x) { return x; }\nint main(void)\n{\n\tenum tone u = t;\n\tout_l(widen(t));\n\tout_l(t < MID);\n\tout_l(t / 2);\n\tout_l(t >> 1);\n\tout_l(t % 2);\n\tout_d(t);\n\tout_l((long)t * 2);\n'
     '\tout_l(b < 0);\n\tout_l(b / 1000);\n\tu = HIGH;\n\tout_l(u - t);\n\tout_l(-t);\n\tout_l(t < u);\n\treturn 0;\n}\n'),
    (K_COPY_PACKED, 'assignment of a packed struct with an _Alignas member (size 5, alignment 4) copies 8 bytes: access beyond both objects',
     'void out_l(long);\nstruct __attribute__((packed)) P { _Alignas(4) int a; char b; };\nstruct P g1 = { 7, 8 }, g2;\n'
     'int main(void)\n{\n\tstruct P *p = &g2, *q = &g1;\n\t*p = *q;\n\tout_l(g2.a);\n\tout_l(g2.b);\n\treturn 0;\n}\n'),
]


# ----------------------------------------------------------------------------- reference executions
class Refs:
    """gcc -O1 and clang -O0 (+UBSan) builds of one source, for both signednesses of plain char"""
    def __init__(self, ctx):
        self.ctx = ctx
        self.shim = os.path.join(ctx.tmp, 'shim.c')
        open(self.shim, 'w').write(c03.SHIM)
        self.counter = itertools.count(1)
        self.lock = threading.Lock()

    def run(self, src, signedness=(True, False), extra_clang=False):
        """{signedchar: expected text} or (None, reason)"""
        with self.lock:
            k = next(self.counter)
        base = os.path.join(self.ctx.tmp, 'ref%d_%d' % (os.getpid(), k))
        open(base + '.c', 'w').write(src)
        outs = {}
        try:
            for sc in signedness:
                fl = '-fsigned-char' if sc else '-funsigned-char'
                res = []
                builds = [('gcc', '-O1 -ffp-contract=off', True), ('clang', '-O0 -fsanitize=undefined -fno-sanitize-recover=all', False)]
                if extra_clang:
                    builds.append(('clang', '-O0', True))
                for cc, opt, aslimit in builds:
                    exe = '%s.%s%d%d' % (base, cc, sc, len(res))
                    rc, o, e = sh('%s -w -std=c11 %s %s %s.c %s -o %s' % (cc, opt, fl, base, self.shim, exe), timeout=120)
                    if rc != 0:
                        return None, 'ref-build-failed: ' + txt(e)[-300:]
                    rc, o, e = run_limited([exe], timeout=20, aslimit=aslimit)
                    try:
                        os.unlink(exe)
                    except OSError:
                        pass
                    if b'runtime error' in e:
                        return None, 'ubsan: ' + txt(e)[:200]
                    if rc < 0 or rc > 255:
                        return None, 'ref-crashed rc=%d' % rc
                    res.append(o.decode('utf-8', 'replace') + 'status %d\n' % rc)
                if any(r != res[0] for r in res):
                    return None, 'refs-disagree'
                outs[sc] = res[0]
        finally:
            try:
                os.unlink(base + '.c')
            except OSError:
                pass
        return outs, ''


def il_run(ctx, qexe, src, target, tag):
    """compile with cproc-qbe and run under Qbe.run; returns (text | None, reason)"""
    rc, il, err = ctx.qbe(src, target=target, timeout=20)
    if rc != 0:
        return None, 'cproc-rejects: ' + err[:300]
    f = os.path.join(ctx.tmp, 'run_%s_%s_%d.qbe' % (tag, target, threading.get_ident()))
    open(f, 'w').write(il)
    rc, o, e = run_limited([qexe, 'run', f, str(FUEL)], timeout=120, cap=32 << 20)
    try:
        os.unlink(f)
    except OSError:
        pass
    return '\n'.join(l for l in o.decode('utf-8', 'replace').split('\n') if not l.startswith('#')), ''


def first_diff(got, want):
    a, b = got.split('\n'), want.split('\n')
    k = next((j for j in range(min(len(a), len(b))) if a[j] != b[j]), min(len(a), len(b)))
    return 'output line %d: Qbe.run of cproc\'s IL %r, gcc/clang %r' % (k + 1, a[k:k + 2], b[k:k + 2])


def judge(ctx, refs, qexe, src, tag, targets):
    """status: ok | discarded:<why> | rejected | mismatch ; detail"""
    need = sorted(set(sc for _, sc in targets), reverse=True)
    outs, why = refs.run(src, need)
    if outs is None:
        return 'discarded:' + why.split(':')[0], why, None
    for target, sc in targets:
        got, why = il_run(ctx, qexe, src, target, tag)
        if got is None:
            return 'rejected', why, target
        if got != outs[sc]:
            return 'mismatch', '-t %s: %s' % (target, first_diff(got, outs[sc])), target
    return 'ok', outs[need[0]].count('\n'), None


# ----------------------------------------------------------------------------- structural tier
def structural(ctx, oracle, stats, samples):
    thorough = ctx.tier == 'thorough'
    targets = TARGETS if thorough else TARGETS[:2]
    total = 0
    fam = {}
    mism = []
    rejected = []
    for target, sc in targets:
        cs = c01_struct.cases(ctx.rng, sc, 3000 if thorough else 400)
        decls = ''.join(cs.decls)
        cases = cs.out
        # the model's predictions
        req = '\n'.join(c['sx'] for c in cases) + '\n'
        rc, o, e = run_limited([oracle], input=req.encode(), timeout=300, cap=256 << 20)
        preds = o.decode('utf-8', 'replace').split('end\n')
        if rc != 0 or len(preds) < len(cases):
            ctx.broken('build', 'c01 oracle', 'oracle failed on the structural requests (rc=%d, %d answers for %d requests) %s' % (rc, len(preds), len(cases), txt(e)[-300:]))
            return
        # cproc on chunks
        chunks = [cases[i:i + CHUNK] for i in range(0, len(cases), CHUNK)]

        def compile_chunk(ch):
            src = decls + ''.join(c['c'] for c in ch)
            rc, il, err = ctx.qbe(src, target=target, timeout=60, cap=128 << 20)
            if rc == 0:
                return F.split_functions(il), []
            # find the culprit(s)
            fns, bad = {}, []
            for c in ch:
                rc, il, err = ctx.qbe(decls + c['c'], target=target, timeout=20)
                if rc == 0:
                    fns.update(F.split_functions(il))
                else:
                    bad.append((c, err))
            return fns, bad
        fns = {}
        for got, bad in vlib.parallel_map(compile_chunk, chunks):
            fns.update(got)
            rejected += [(target, c, err) for c, err in bad]
        for c, pred in zip(cases, preds):
            total += 1
            f = fam.setdefault(c['family'], [0, 0])
            f[0] += 1
            real = fns.get(c['name'])
            if real is None:
                continue
            if pred.startswith('error'):
                mism.append((target, sc, c, real, pred, decls))
                f[1] += 1
                continue
            if F.canon_function(real) != F.canon_function(pred):
                mism.append((target, sc, c, real, pred, decls))
                f[1] += 1
        if not samples:
            c = cases[len(cases) // 2]
            samples.append({'structural_case': c['c'], 'request': c['sx'][:400]})
    stats['structural_cases'] = total
    stats['structural_by_family'] = {k: v[0] for k, v in fam.items()}
    stats['structural_mismatches'] = len(mism)
    stats['structural_rejected'] = len(rejected)
    ctx.ob('K-structural: %d functions (every operator x type x type, conversion pair, bit-field shape, ++/--, control form, copy, alloc, random trees) '
           'compile to the instruction sequence the model predicts, on %s' % (total, '/'.join(t for t, _ in targets)), not mism and not rejected)
    return mism, rejected


def driver_for(case_c, decls, name, params, rett, rng):
    """a main() that calls the function on boundary values and prints what can be observed"""
    lines = ['void out_l(long);', 'void out_d(double);', decls, case_c, 'int main(void)', '{']
    args = []
    post = []
    for i, (pn, t) in enumerate(params):
        if t.isptr():
            b = t.base
            if isinstance(b, F.Agg):
                lines.append('\tstatic unsigned char o%d[%d + 16] = { %s };' % (i, b.size(), ', '.join(str(rng.randrange(256)) for _ in range(min(b.size() + 16, 48)))))
                args.append('(void *)o%d' % i)
                post.append('\tfor (int k = 0; k < %d + 16; k++) out_l(o%d[k]);' % (b.size(), i))
            elif b.isptr():
                lines.append('\tstatic long a%d[4] = { 1, 2, 3, 4 };\n\tvoid *o%d = &a%d[1];' % (i, i, i))
                args.append('(void *)&o%d' % i)
                post.append('\tout_l((long *)o%d - a%d);' % (i, i))
            else:
                v = boundary(rng, b)
                lines.append('\t%s = %s;' % (b.c('o%d[3]' % i), '{ %s, %s, %s }' % (boundary(rng, b), v, boundary(rng, b))))
                args.append('&o%d[1]' % i)
                post.append('\tfor (int k = 0; k < 3; k++) %s(o%d[k]);' % ('out_d' if b.isflt() else 'out_l', i))
        else:
            args.append(boundary(rng, t))
    call = '%s(%s)' % (name, ', '.join(args))
    if rett is None:
        lines.append('\t%s;' % call)
    elif rett.isptr():
        lines.append('\tout_l(%s != 0);' % call)
    elif rett.isflt():
        lines.append('\tout_d(%s);' % call)
    else:
        lines.append('\tout_l(%s);' % call)
    lines += post
    lines += ['\treturn 0;', '}']
    return '\n'.join(lines) + '\n'


def boundary(rng, t):
    if t.isflt():
        return rng.choice(['0.0', '1.5', '-2.25', '3.0', '100.0', '-0.0', '0.1'])
    if t.name == 'bool':
        return rng.choice(['0', '1'])
    bits = t.size() * 8
    if t.signed(True) and t.name != 'char':
        lo, hi = -(1 << (bits - 1)), (1 << (bits - 1)) - 1
    elif t.name == 'char':
        lo, hi = 0, 127
    else:
        lo, hi = 0, (1 << bits) - 1
    v = rng.choice([0, 1, 2, 3, 7, hi, hi - 1, lo, lo + 1, rng.randint(lo, hi), rng.randint(-100, 100), 1 << rng.randrange(bits - 1)])
    v = max(lo, min(hi, v))
    if v == -(1 << 63):
        return '(-9223372036854775807L-1)'
    if v == -(1 << 31):
        return '(-2147483647-1)'
    suf = ('L' if t.signed(True) else 'UL') if bits == 64 else ('U' if bits == 32 and not t.signed(True) else '')
    return '((%s)%d%s)' % (t.c(), v, suf)


PARAM_RE = re.compile(r'^(.*?)\s(\w+)\((.*)\)\n\{', re.S)


def follow_up(ctx, refs, qexe, mism, stats):
    """a structural mismatch means model and code differ; look for an input on which the CODE is wrong (gcc/clang decide)"""
    seen = {}
    found = 0
    tried = 0
    deadline = time.time() + (120 if ctx.tier == 'thorough' else 40)
    for target, sc, c, real, pred, decls in mism:
        k = c['family']
        seen[k] = seen.get(k, 0) + 1
        if seen[k] > 3 or tried > 60 or time.time() > deadline:
            continue
        params, rett = c.get('params'), c.get('rett')
        if params is None:
            continue
        for attempt in range(8):
            tried += 1
            src = driver_for(c['c'], decls_for(c, decls), c['name'], params, rett, ctx.rng)
            st, detail, tg = judge(ctx, refs, qexe, src, 'fu', [(target, sc)])
            if st == 'mismatch':
                found += 1
                key = 'structural:%s' % k
                if k.startswith('bf-assign-value') or (k in ('bf-compound', 'bf-incdec') and 'Qbe.run' in detail):
                    key = 'structural:%s' % k
                ctx.violation('compiled function misbehaves (%s, %s): %s' % (k, c['note'], detail),
                              '/* cproc-qbe -t %s ; %s */\n%s' % (target, detail, src), 'c', key=key)
                break
        if found >= 3:
            break
    stats['followup_programs'] = tried
    stats['followup_failing_inputs'] = found


def decls_for(c, decls):
    """only the declarations the case needs (struct tags it mentions, external functions)"""
    need = set(re.findall(r'struct (S\d+)', c['c']))
    out = []
    for d in decls.split('\n'):
        m = re.match(r'struct (S\d+) \{', d)
        if m:
            if m.group(1) in need:
                out.append(d)
        elif re.match(r'struct (S\d+) g', d):
            m = re.match(r'struct (S\d+) g', d)
            if m.group(1) in need:
                out.append(d)
        elif d.strip() and not d.startswith('long ext2') and not d.startswith('void extv') and not d.startswith('double extd') and not d.startswith('int extn'):
            out.append(d)
    return '\n'.join(out)


# ----------------------------------------------------------------------------- semantic tier
def semantic(ctx, refs, qexe, stats, samples):
    thorough = ctx.tier == 'thorough'
    rng = ctx.rng
    nprog = 3000 if thorough else 260
    targets_of = lambda i: TARGETS if (thorough or i % 4 == 0) else [TARGETS[0], TARGETS[1 + i % 2]]
    progs = []
    feats = {}
    for i in range(nprog):
        src, meta = c01_progs.gen_program(rng, rng.randint(1, 5))
        progs.append((i, src, meta))
        for ft in meta['features']:
            feats[ft] = feats.get(ft, 0) + 1

    def one(p):
        i, src, meta = p
        return (i,) + judge(ctx, refs, qexe, src, 'g%d' % i, targets_of(i))
    res = vlib.parallel_map(one, progs)
    tally = {}
    lines = 0
    mism = []
    rej = []
    for i, st, detail, tg in res:
        tally[st] = tally.get(st, 0) + 1
        if st == 'ok':
            lines += detail
        elif st == 'mismatch':
            mism.append((i, detail, tg))
        elif st == 'rejected':
            rej.append((i, detail, tg))
    stats['semantic'] = tally
    stats['semantic_discard_reasons'] = sorted(set(str(d)[:160] for i, st, d, _ in res if st.startswith('discarded')))[:6]
    stats['semantic_trace_lines'] = lines
    stats['generator_features'] = feats
    stats['semantic_runs'] = sum(len(targets_of(i)) for i, st, _, _ in res if st == 'ok')
    samples.append({'generated_program_head': progs[0][1][:700]})
    # a program of the supported language that cproc rejects is a finding too ("is accepted")
    for i, detail, tg in rej[:2]:
        src = progs[i][1]
        ctx.violation('a generated program with defined behaviour is rejected by cproc-qbe -t %s: %s' % (tg, detail[:200]),
                      '/* cproc-qbe -t %s ; %s */\n%s' % (tg, detail[:200].replace('*/', '* /'), src), 'c', key='rejects-valid-program')
    budget = 90 if thorough else 40
    for i, detail, tg in mism[:3]:
        src = progs[i][1]
        sc = dict(TARGETS)[tg]

        def bad(s):
            st, d, _ = judge(ctx, refs, qexe, s, 'shr', [(tg, sc)])
            return st == 'mismatch'
        small = c03.shrink_lines(src, bad, budget=400, seconds=budget)
        st, d, _ = judge(ctx, refs, qexe, small, 'shr', [(tg, sc)])
        ctx.violation('generated program: behaviour of the compiled code differs from gcc and clang (%s)' % (d if st == 'mismatch' else detail),
                      '/* cproc-qbe -t %s ; %s */\n%s' % (tg, (d if st == 'mismatch' else detail).replace('*/', '* /'), small), 'c', key=classify(small))
    ctx.ob('K-semantic: %d generated programs (%d runs on x86_64-sysv/aarch64/riscv64, %d trace lines) behave under Qbe.run as gcc -O1 and clang -O0 (UBSan-clean) do'
           % (tally.get('ok', 0), stats['semantic_runs'], lines), not mism and not rej and tally.get('ok', 0) > 0)
    # directed probes for the open findings
    for key, what, src in PROBES:
        st, detail, tg = judge(ctx, refs, qexe, src, 'probe', TARGETS[:1])
        stats.setdefault('probes', {})[key] = st
        if st == 'mismatch':
            ctx.violation(what + ' [' + detail + ']', '/* cproc-qbe -t %s ; %s */\n%s' % (tg, detail.replace('*/', '* /'), src), 'c', key=key)
        elif st == 'rejected':
            # the probes are valid programs: a rejection (or a crash of the compiler) is a finding as well
            ctx.violation(what + ' [valid probe program not compiled: ' + str(detail)[:200] + ']', '/* cproc-qbe -t %s */\n%s' % (tg, src), 'c', key=key)
        elif st != 'ok':
            ctx.broken('correspondence', 'directed probe %s could not be judged' % key, '%s: %s' % (st, str(detail)[:300]))


def classify(src):
    """narrow key for a shrunk failing program: the open findings are recognised by their shape"""
    if re.search(r'\((float|double)\)\s*\((signed char|unsigned char|char|short|unsigned short)\)', src):
        return K_SUBINT_FLOAT
    return 'semantic-mismatch'


# ----------------------------------------------------------------------------- the check
def attach_types(cs_cases):
    pass


def run(ctx):
    snap = ctx.snapshot()
    ok = ctx.coq(['Properties/%s.vo' % MODULE, 'Extract/Extract_c01.vo', 'Extract/Extract_qbe.vo'])
    if ok:
        ctx.assumptions(MODULE, ctx.theorem_names(MODULE))
    oracle = ctx.oracle('c01') if ok else None
    qexe = c03.build_oracle(ctx) if ok else None
    stats = {}
    samples = []
    if snap and oracle and qexe:
        refs = Refs(ctx)
        t0 = time.time()
        r = structural(ctx, oracle, stats, samples)
        ctx.log('structural: %d cases, %.1fs' % (stats.get('structural_cases', 0), time.time() - t0))
        if r:
            mism, rejected = r
            for target, c, err in rejected[:3]:
                ctx.violation('a valid function is rejected by cproc-qbe -t %s (%s %s): %s' % (target, c['family'], c['note'], err[:200]),
                              '/* cproc-qbe -t %s */\n%s' % (target, c['c']), 'c', key='rejects-valid:' + c['family'])
            if mism:
                target, sc, c, real, pred, decls = mism[0]
                ctx.broken('correspondence', 'instruction selection differs from Model/Lower.v (%d of %d functions; first: %s %s, -t %s)'
                           % (len(mism), stats['structural_cases'], c['family'], c['note'], target),
                           'source:\n%s\ncproc-qbe:\n%s\nmodel:\n%s\nfamilies: %s' % (c['c'], real, pred, sorted(set(m[2]['family'] for m in mism))))
                follow_up(ctx, refs, qexe, mism, stats)
        t0 = time.time()
        semantic(ctx, refs, qexe, stats, samples)
        ctx.log('semantic: %s, %.1fs' % (stats.get('semantic'), time.time() - t0))
    nontrivial = stats.get('structural_cases', 0) + stats.get('semantic', {}).get('ok', 0)
    cov = dict(evaluations=stats.get('structural_cases', 0) + stats.get('semantic_runs', 0) + stats.get('followup_programs', 0),
               distinct_nontrivial=nontrivial,
               rule='structural: one case = one generated function (distinct by construction: operator/type/shape enumerations and random trees), all of them '
                    'emit at least one selected instruction; semantic: one case = one generated program accepted by both references (UBSan-clean, gcc = clang), '
                    'counted once, run on 2-3 targets',
               samples=samples, stats=stats,
               trusted_base=vlib.TRUSTED_BASE + [
                   'Model/Qbe.v is the definition of the IL semantics (no qbe binary); ocaml/qbe/oracle (extraction with zarith, ilparse.ml, OCaml doubles for floating point)',
                   'gcc 12 -O1 and clang 14 -O0 -fsanitize=undefined as the reference C implementations (they must agree)',
                   'gen/c01_front.py: the typing of the test functions (promotions, usual arithmetic conversions, rewrites of cc.h) - checked by the comparison itself',
                   'ocaml/c01/driver.ml: S-expression reader and IL printer around the extracted LowerFn.lower_function'])
    return ctx.finish(cov, assumptions=[
        'PARTIAL: proved for all operand values - integer/_Bool/pointer conversions (convert), the opcode per operator and type on promoted operands (EXPRBINARY), '
        'side-effect-free expression trees over them, bit-field load/store (funcbits, funcstore), the aggregate copy chain (funccopy); '
        'carried by correspondence only - floating point (class and opcode selection are compared structurally, values by program runs), control flow '
        '(phi/jnz shapes compared structurally), calls, variadics, VLAs, alloca, initialisers, switch, static data, aggregates by value',
        'the tie between qbe.c and Model/Lower.v + Model/LowerFn.v is the exhaustive structural comparison of this run, not a proof',
        'the typed AST is taken as expr.c builds it (C05 checks the typing); the structural comparison would expose a disagreement',
        'the theorems state the register/memory effect of emitted sequences under the straight-line fragment of Qbe.step (C01_exec_is_step); '
        'whole-function correctness (blocks, phis, calls) is not proved'])


def replay(ctx, path):
    snap = ctx.snapshot()
    qexe = c03.build_oracle(ctx)
    text = open(path).read()
    m = re.match(r'/\* cproc-qbe -t (\S+)', text)
    target = m.group(1) if m else TARGETS[0][0]
    sc = dict(TARGETS).get(target, True)
    refs = Refs(ctx)
    outs, why = refs.run(text, [sc])
    if outs is None:
        print('references unusable:', why)
        return 0
    got, why = il_run(ctx, qexe, text, target, 'replay')
    if got is None:
        print(why)
        return 1
    print('--- Qbe.run of cproc-qbe -t %s\n%s\n--- gcc/clang\n%s' % (target, got, outs[sc]))
    if got != outs[sc]:
        print('MISMATCH:', first_diff(got, outs[sc]))
        return 1
    print('agree')
    return 0
