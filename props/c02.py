# C02 - the self-compiled compiler is indistinguishable from the reference-built one.   DESIGN.md section 5 (C02).
# LEVEL translation validation, PARTIAL: no theorem quantifies over all inputs of stage 2.  Every run
#   V  validates harness/c02/il2c.py (QBE IL -> C) against the extracted interpreter Qbe.run and against gcc,
#   B  builds stage 2 = stage 1's IL for the snapshot's own sources, translated by il2c and compiled natively,
#   a  checks the bootstrap fixed point (stage 2's IL for every own source == stage 1's, byte for byte, all targets),
#   b  compares stage 1 and stage 2 on the regression corpus (all target options, -E),
#   c  compares them on generated valid and invalid programs, and on command-line variants.
import os, re, sys, hashlib, json, time, shutil
import vlib
from vlib import sh, txt, run_limited

sys.path.insert(0, os.path.join(vlib.VERIF, 'gen'))
sys.path.insert(0, os.path.join(vlib.VERIF, 'harness', 'c02'))

LEVEL = 'translation_validation'
MODULE = 'Properties_C02'
HDIR = os.path.join(vlib.VERIF, 'harness', 'c02')
IL2C = os.path.join(HDIR, 'il2c.py')
GCCFLAGS = ['-O1', '-fno-strict-aliasing', '-fwrapv', '-ffp-contract=off', '-fno-pie', '-w']
TARGETS = ['x86_64-sysv', 'aarch64', 'riscv64']
MODES = [['-t', 'x86_64-sysv'], ['-t', 'aarch64'], ['-t', 'riscv64'], ['-t', 'x86_64-sysv', '-E']]
SHIM = '''#include <stdio.h>
#include <string.h>
void out_l(long v) { printf("out_l %ld\\n", v); }
void out_d(double d) { unsigned long b; memcpy(&b, &d, 8); printf("out_d %016lx\\n", b); }
'''


# ----------------------------------------------------------------------------- tables re-read from the snapshot
def read_cpp_cmd(snap):
    """preprocesscmd[] of config.h (what the driver runs before cproc-qbe)"""
    text = open(os.path.join(snap, 'config.h'), errors='replace').read()
    m = re.search(r'preprocesscmd\s*\[\s*\]\s*=\s*\{(.*?)\}\s*;', text, re.S)
    if not m:
        return None
    body = re.sub(r'/\*.*?\*/', '', m.group(1), flags=re.S)
    return [re.sub(r'\\(.)', r'\1', s) for s in re.findall(r'"((?:[^"\\]|\\.)*)"', body)]


def read_make_list(snap, var):
    text = open(os.path.join(snap, 'Makefile'), errors='replace').read()
    m = re.search(r'^%s=\\\n((?:\t[^\n]*\n)+)' % var, text, re.M)
    if not m:
        return None
    be = re.search(r'^BACKEND=(\S+)', text, re.M)
    out = []
    for l in m.group(1).split('\n'):
        l = l.strip().rstrip('\\').strip()
        if l:
            out.append(l.replace('$(BACKEND)', be.group(1) if be else 'qbe'))
    return out


# ----------------------------------------------------------------------------- stage 2
class Stage2:
    def __init__(self):
        self.exe = None
        self.driver = None
        self.il = {}       # file -> stage-1 IL (bytes)
        self.pre = {}      # file -> preprocessed text (bytes)
        self.obj = {}      # file -> object path
        self.csrc = {}     # file -> il2c output path
        self.fail = []     # (file, phase, detail)
        self.times = {}


def build_stage2(ctx, snap, outdir, files, driver_files, cppcmd):
    """files: SRC list of the Makefile. Everything is redone on every call; nothing is cached outside ctx.tmp."""
    os.makedirs(outdir, exist_ok=True)
    st = Stage2()
    s1 = os.path.join(snap, 'cproc-qbe')
    allf = list(files) + [f for f in driver_files if f not in files]

    def one(fn):
        base = os.path.join(outdir, fn[:-2])
        t0 = time.time()
        # the same text stage 1 was built from: the hook macro is defined for both stages
        rc, pre, err = sh(cppcmd + ['-D', vlib.GUARD, fn], cwd=snap, timeout=60)
        if rc != 0:
            return fn, 'cpp', txt(err)[-2000:], None, None, None
        rc, il, err = run_limited([s1, '-t', 'x86_64-sysv'], input=pre, timeout=60, cap=64 << 20)
        if rc != 0:
            return fn, 'stage1-rejects-own-source', 'rc=%d %s' % (rc, txt(err)[-2000:]), pre, None, None
        open(base + '.i', 'wb').write(pre)
        open(base + '.ssa', 'wb').write(il)
        rc, o, e = sh([sys.executable, IL2C, base + '.ssa', base + '.il.c'], timeout=120)
        if rc != 0:
            return fn, 'il2c-rejects-il', txt(e)[-2000:], pre, il, None
        rc, o, e = sh(['gcc'] + GCCFLAGS + ['-c', base + '.il.c', '-o', base + '.o'], timeout=300)
        if rc != 0:
            return fn, 'gcc-rejects-translation', txt(e)[-3000:], pre, il, None
        return fn, None, time.time() - t0, pre, il, base + '.o'
    t0 = time.time()
    for fn, phase, detail, pre, il, obj in vlib.parallel_map(one, allf):
        if pre is not None:
            st.pre[fn] = pre
        if il is not None:
            st.il[fn] = il
        if phase:
            st.fail.append((fn, phase, detail))
        else:
            st.obj[fn] = obj
            st.csrc[fn] = obj[:-2] + '.il.c'
    st.times['compile'] = round(time.time() - t0, 2)
    if all(f in st.obj for f in files):
        exe = os.path.join(outdir, 'cproc-qbe')
        rc, o, e = sh(['gcc', '-no-pie', '-o', exe] + [st.obj[f] for f in files], timeout=120)
        if rc != 0:
            st.fail.append(('cproc-qbe', 'link', txt(e)[-3000:]))
        else:
            st.exe = exe
    if driver_files and all(f in st.obj for f in driver_files):
        exe = os.path.join(outdir, 'cproc')
        rc, o, e = sh(['gcc', '-no-pie', '-o', exe] + [st.obj[f] for f in driver_files], timeout=120)
        if rc != 0:
            st.fail.append(('cproc', 'link', txt(e)[-3000:]))
        else:
            st.driver = exe
    st.times['total'] = round(time.time() - t0, 2)
    return st


# ----------------------------------------------------------------------------- running and comparing the two stages
def run_one(exe, args, data, cwd, timeout, env=None, stack=None):
    cmd = [exe] + list(args)
    if stack:
        cmd = ['prlimit', '--stack=%d' % stack, '--'] + cmd
    rc, out, err = run_limited(cmd, input=data if data is not None else b'', timeout=timeout, cwd=cwd, env=env, cap=64 << 20)
    return rc, out, err


def differ(a, b):
    """a, b = (rc, out, err); returns None or the first differing aspect"""
    if a[0] == -9 and b[0] == -9:
        n = min(len(a[1]), len(b[1]))        # both ran out of time: compare what both had time to write
        return 'stdout' if a[1][:n] != b[1][:n] else None
    if a[1] != b[1]:
        return 'stdout'
    if a[2] != b[2]:
        return 'stderr'
    if a[0] != b[0]:
        return 'status'
    return None


class Comparer:
    def __init__(self, ctx, s1, s2, cwd):
        self.ctx, self.s1, self.s2, self.cwd = ctx, s1, s2, cwd
        self.runs = 0
        self.raw_disagreements = 0
        self.resource_dependent = 0
        self.both_timeout = 0
        self.stack_retries = 0
        self.s2_timeouts = 0          # stage 2 ran into the time limit where stage 1 did not (confirmed by the long retry)
        self.aborted = False          # circuit breaker: a stage 2 that hangs on everything must not cost 7 time limits per input
        self.by_stream = {}
        self.seen = set()
        self.nontrivial = set()
        self.diffs = []

    def compare(self, args, data, timeout=10, env=None):
        a = run_one(self.s1, args, data, self.cwd, timeout, env)
        b = run_one(self.s2, args, data, self.cwd, timeout, env)
        d = differ(a, b)
        retried = False
        if d and (a[0] < 0 or b[0] < 0 or a[0] >= 128 or b[0] >= 128) and not (a[0] == -9 or b[0] == -9) and self.stack_retries < 40:
            self.stack_retries += 1        # bounded: a stage 2 that crashes on everything must not double the cost of every input
            # one side died from a signal: frame sizes differ between the two builds, so stack exhaustion may hit only one of them
            retried = True
            a2 = run_one(self.s1, args, data, self.cwd, timeout * 3, env, stack=4 << 30)
            b2 = run_one(self.s2, args, data, self.cwd, timeout * 3, env, stack=4 << 30)
            if differ(a2, b2) is None:
                return a, b, None, 'stack'
        elif d and (a[0] == -9) != (b[0] == -9):
            if self.s2_timeouts >= 8:
                return a, b, d, None          # already established on 8 inputs: no more long retries
            retried = True
            a2 = run_one(self.s1, args, data, self.cwd, min(timeout * 6, 60), env)
            b2 = run_one(self.s2, args, data, self.cwd, min(timeout * 6, 60), env)
            if differ(a2, b2) is None:
                return a, b, None, 'time'
            if b2[0] == -9 and a2[0] != -9:
                self.s2_timeouts += 1
        return a, b, d, ('retried' if retried else None)

    def batch(self, stream, items, modes=MODES, timeout=10):
        """items: (label, data bytes | None, extra argv (e.g. a path)).  Every item is run in every mode."""
        jobs = []
        for label, data, extra in items:
            h = hashlib.sha1((data or b'') + b'\0' + ' '.join(extra).encode()).hexdigest()
            if (stream != 'own') and h in self.seen:
                continue
            self.seen.add(h)
            for m in modes:
                jobs.append((label, data, list(m) + list(extra), h))
        stt = self.by_stream.setdefault(stream, dict(inputs=0, runs=0, accepted=0, diagnosed=0, other_status=0, differences=0))
        stt['inputs'] += len({j[3] for j in jobs})

        def one(j):
            label, data, args, h = j
            a, b, d, note = self.compare(args, data, timeout)
            return j, a, b, d, note
        res = []
        step = max(8, vlib.NCPU)         # one round of the pool at a time, so that the breaker can act between rounds
        for k in range(0, len(jobs), step):
            if self.aborted:
                break
            res += vlib.parallel_map(one, jobs[k:k + step])
            if self.s2_timeouts >= 8 and sum(1 for r in res if r[3] and r[2][0] == -9 and r[1][0] != -9) >= 24:
                self.aborted = True           # stage 2 does not terminate on input after input: the differences found so far are reported
        stt['skipped_after_abort'] = stt.get('skipped_after_abort', 0) + len(jobs) - len(res)
        for (label, data, args, h), a, b, d, note in res:
            self.runs += 1
            stt['runs'] += 1
            if a[0] == 0:
                stt['accepted'] += 1
            elif a[0] == 1 and a[2]:
                stt['diagnosed'] += 1
            else:
                stt['other_status'] += 1
            if a[0] == -9 and b[0] == -9:
                self.both_timeout += 1
            if note in ('stack', 'time'):
                self.raw_disagreements += 1
                self.resource_dependent += 1
            if a[1] or a[2]:
                self.nontrivial.add((h, ' '.join(args[:3])))
            if d:
                self.raw_disagreements += 1
                stt['differences'] += 1
                self.diffs.append(dict(stream=stream, label=label, data=data, args=args, aspect=d, s1=a, s2=b))
        return res


def describe(a, b, aspect):
    def cut(x):
        return txt(x)[:160].replace('\n', '\\n')
    if aspect == 'status':
        return 'exit status %d (stage 1) vs %d (stage 2)' % (a[0], b[0])
    k = 1 if aspect == 'stdout' else 2
    x, y = a[k], b[k]
    i = next((i for i in range(min(len(x), len(y))) if x[i] != y[i]), min(len(x), len(y)))
    lo = max(0, i - 40)
    return '%s differs at byte %d: stage 1 %r, stage 2 %r (status %d vs %d)' % (aspect, i, cut(x[lo:i + 60]), cut(y[lo:i + 60]), a[0], b[0])


def shrink_input(cmp, diff, seconds=25):
    """line deletion while the two stages still disagree (in any aspect) with the same arguments"""
    from c03 import shrink_lines
    data = diff['data']
    if data is None:
        return None
    text = data.decode('latin1')

    def bad(t):
        a, b, d, note = cmp.compare(diff['args'], t.encode('latin1'), timeout=10)
        return d is not None
    if not bad(text):
        return None
    return shrink_lines(text, bad, budget=600, seconds=seconds).encode('latin1')


# ----------------------------------------------------------------------------- V: validation of il2c
def validate_il2c(ctx, oracle, snap, stats, samples):
    import c02_ilprogs, c03_progs, il2c
    rng = ctx.rng
    vdir = os.path.join(ctx.tmp, 'v')
    os.makedirs(vdir, exist_ok=True)
    shim = os.path.join(vdir, 'shim.c')
    open(shim, 'w').write(SHIM)
    progs = c02_ilprogs.all_programs(rng)
    # opcode coverage: every opcode of the snapshot's ops.h is translated by il2c and exercised by a validation program
    opsh = re.findall(r'OP\(\s*\w+\s*,\s*"(\w+)"\s*\)', open(os.path.join(snap, 'ops.h')).read())
    used = c02_ilprogs.opcodes_used(progs)
    known = set(il2c.OPS) | {'call'}
    miss_tr = [o for o in opsh if o not in known]
    miss_ex = [o for o in opsh if o not in used]
    ctx.ob('V:every opcode of ops.h (%d) is implemented by il2c and exercised by the validation programs' % len(opsh), opsh and not miss_tr and not miss_ex)
    if miss_tr or miss_ex or not opsh:
        ctx.broken('table', 'ops.h vs il2c', 'opcodes not translated: %r; not exercised: %r' % (miss_tr, miss_ex))
    stats['il2c_opcodes'] = len(opsh)
    # C programs: interpreter == il2c+gcc == gcc directly
    ncp = 24 if ctx.tier == 'quick' else 200
    cprogs = []
    for i in range(ncp):
        src, meta = c03_progs.gen_program(rng, rng.randint(1, 6))
        cprogs.append(('c%d' % i, src))

    def run_il(name, il_text, fuel):
        base = os.path.join(vdir, name)
        open(base + '.ssa', 'w', encoding='latin1').write(il_text)
        ref = None
        if oracle:
            rc, o, e = run_limited([oracle, 'run', base + '.ssa', str(fuel)], timeout=300, cap=64 << 20)
            ref = '\n'.join(l for l in txt(o).split('\n') if not l.startswith('#'))
        try:
            c = il2c.translate(il_text)
        except il2c.ILError as ex:
            return ref, None, 'il2c: %s' % ex
        open(base + '.il.c', 'w', encoding='latin1').write(c)
        rc, o, e = sh(['gcc'] + GCCFLAGS + ['-no-pie', base + '.il.c', shim, '-o', base + '.il.exe'], timeout=300)
        if rc != 0:
            return ref, None, 'gcc: ' + txt(e)[-1500:]
        rc, o, e = run_limited([base + '.il.exe'], timeout=20, cap=64 << 20)
        os.unlink(base + '.il.exe')
        return ref, txt(o) + 'status %d\n' % rc, None

    def one_il(p):
        name, il_text = p
        return p, run_il(name, il_text, 6000000)

    def one_c(p):
        name, src = p
        base = os.path.join(vdir, name)
        open(base + '.c', 'w').write(src)
        rc, o, e = sh('gcc -w -std=c11 -O1 -ffp-contract=off -fsigned-char %s.c %s -o %s.gcc.exe' % (base, shim, base), timeout=120)
        if rc != 0:
            return p, 'ref-build-failed', None, None, None
        rc, o, e = run_limited([base + '.gcc.exe'], timeout=20, cap=64 << 20)
        os.unlink(base + '.gcc.exe')
        direct = txt(o) + 'status %d\n' % rc
        # second reference (gcc 12 folds `0.0 - (double)i` to a negation, giving -0.0 for i == 0): programs on which
        # the references disagree are not used
        rc, o, e = sh('clang -w -std=c11 -O0 -ffp-contract=off -fsigned-char %s.c %s -o %s.clang.exe' % (base, shim, base), timeout=120)
        if rc == 0:
            rc, o, e = run_limited([base + '.clang.exe'], timeout=20, cap=64 << 20)
            os.unlink(base + '.clang.exe')
            if txt(o) + 'status %d\n' % rc != direct:
                return p, 'refs-disagree', None, None, None
        rc, il, err = ctx.qbe(src, timeout=30)
        if rc != 0:
            return p, 'cproc-rejects', None, None, None
        ref, got, e = run_il(name, il, 20000000)
        return p, e, ref, got, direct
    nil = nc = 0
    bad = []
    for (name, il_text), (ref, got, e) in vlib.parallel_map(one_il, progs):
        nil += 1
        if e or (oracle and ref != got):
            bad.append('%s: %s' % (name, e or first_diff(ref, got)))
        if len(samples) < 2 and got and name.startswith('aggregates'):
            samples.append({'il2c_validation_program': name, 'trace_lines': got.count('\n'), 'il_head': il_text[:400]})
    skipped = 0
    no_interp = 0
    miscompiled = []
    for (name, src), e, ref, got, direct in vlib.parallel_map(one_c, cprogs):
        if e in ('ref-build-failed', 'cproc-rejects', 'refs-disagree'):
            skipped += 1
            continue
        nc += 1
        interp_ok = oracle and ref and re.search(r'^status \d+$', ref, re.M) and not re.search(r'^(PARSE|STUCK|OOB|OUTOFFUEL)', ref, re.M)
        if oracle and not interp_ok:
            no_interp += 1
        if e and oracle and not interp_ok and e.startswith('il2c:'):
            # the interpreter's strict parser / class discipline refuses this IL as well: the COMPILER wrote invalid IL (C03's domain)
            miscompiled.append('%s: invalid IL: %s' % (name, e[:200]))
        elif e:
            bad.append('%s: %s' % (name, e))
        elif interp_ok and ref != got:
            bad.append('%s: interpreter vs il2c+gcc: %s' % (name, first_diff(ref, got)))
        elif got != direct:
            if interp_ok:
                # Qbe.run and il2c agree on what the IL means, gcc's program does something else: the COMPILER is wrong (C01's
                # domain); il2c is not at fault.  Recorded, not a C02 obligation.
                miscompiled.append('%s: %s' % (name, first_diff(direct, got)))
            else:
                bad.append('%s: il2c+gcc vs gcc directly: %s' % (name, first_diff(direct, got)))
    # strictness: il2c must refuse what QBE's grammar / class rules refuse
    neg = [
        ('unknown opcode', 'function w $f() {\n@s\n\t%a =w frob 1, 2\n\tret %a\n}\n'),
        ('w temporary used as l', 'function l $f(w %a) {\n@s\n\t%b =l add %a, 1\n\tret %b\n}\n'),
        ('phi misses a predecessor', 'function w $f(w %a) {\n@s\n\tjnz %a, @x, @y\n@x\n\tjmp @y\n@y\n\t%p =w phi @x 1\n\tret %p\n}\n'),
        ('instruction after jump', 'function w $f() {\n@s\n\tret 0\n\tret 1\n}\n'),
        ('temporary defined twice', 'function w $f() {\n@s\n\t%a =w copy 1\n\t%a =w copy 2\n\tret %a\n}\n'),
        ('undefined label', 'function w $f() {\n@s\n\tjmp @nowhere\n}\n'),
        ('undefined type', 'function w $f(:nosuch %a) {\n@s\n\tret 0\n}\n'),
        ('store with result', 'function w $f(l %p) {\n@s\n\t%a =w storew 1, %p\n\tret 0\n}\n'),
        ('float constant as integer', 'function w $f() {\n@s\n\t%a =w add 1, d_1.5\n\tret %a\n}\n'),
        ('missing jump at end', 'function w $f() {\n@s\n\t%a =w copy 1\n}\n'),
        ('bad string escape', 'data $d = align 1 { b "a\\q", }\n'),
    ]
    accepted = []
    for what, text in neg:
        try:
            il2c.translate(text)
            accepted.append(what)
        except il2c.ILError:
            pass
    if miscompiled:
        stats['generated_c_programs_miscompiled_by_stage1'] = miscompiled[:5]
        ctx.notes.append('stage 1 miscompiles %d generated C programs (interpreter and il2c agree with each other, not with gcc): C01 territory' % len(miscompiled))
    stats.update(il2c_il_programs=nil, il2c_c_programs=nc, il2c_c_skipped=skipped, il2c_interpreter_out_of_fuel=no_interp,
                 il2c_negative_cases=len(neg), il2c_interpreter='ocaml/qbe/oracle run (extracted Qbe.run)' if oracle else 'NOT AVAILABLE: validated against gcc only')
    ok = not bad and not accepted and nil > 0
    ctx.ob('V:il2c agrees with Qbe.run and gcc on %d IL programs + %d generated C programs; rejects %d malformed modules' % (nil, nc, len(neg)), ok)
    if not ok:
        ctx.broken('correspondence', 'il2c validation', 'disagreements: %s\nmalformed IL accepted: %r' % ('\n'.join(bad[:10]), accepted))
    return ok


def first_diff(a, b):
    a, b = (a or '').split('\n'), (b or '').split('\n')
    k = next((j for j in range(min(len(a), len(b))) if a[j] != b[j]), min(len(a), len(b)))
    return 'line %d: %r vs %r' % (k, a[k:k + 2], b[k:k + 2])


# ----------------------------------------------------------------------------- generated inputs
def generated_inputs(ctx, snap, own_pre):
    """(stream, [(label, bytes, extra argv)]) - valid programs, macro-heavy programs, scope units, hand-written traps,
    token-level mutants of corpus files and of pieces of cproc's own source"""
    import c03_progs, c12_gen, c16, c19
    rng = ctx.rng
    thorough = ctx.tier == 'thorough'
    k = 20 if thorough else 1
    out = []
    valid = []
    for i in range(120 * k):
        src, meta = c03_progs.gen_program(rng, rng.randint(1, 7))
        valid.append(('c03prog%d' % i, src.encode(), []))
    out.append(('gen-valid', valid))
    macro = []
    for i in range(50 * k):
        macro.append(('c12prog%d' % i, c12_gen.gen_program(rng).encode('utf-8', 'surrogateescape'), []))
    for i in range(100 * k):
        macro.append(('c12free%d' % i, c12_gen.gen_free_case(rng, small=rng.random() < 0.5).encode('utf-8', 'surrogateescape'), []))
    out.append(('gen-macro', macro))
    names = ['n_' + n for n in ('x', 'y', 'T', 's', 'aa', 'ab', 'q0', 'zz')]
    scope = []
    for i in range(30 * k):
        src, ops, checks = c16.gen_cli_unit(rng, rng.randint(2, 10), names)
        scope.append(('c16unit%d' % i, src.encode(), []))
    out.append(('gen-scope', scope))
    # constant expressions: they run eval.c / the literal and cast code of expr.c in stage 2, i.e. the compiler's own arithmetic
    # (shifts of negative 64-bit values, unsigned division, float <-> integer conversions at the ends of the ranges, ...)
    consts = []
    try:
        import c04, c04_gen
        for j, (src, exp) in enumerate(c04.FIXED_CLI):
            consts.append(('c04fixed%d' % j, src.encode(), []))
        for j, src in enumerate(c04.REJECT_CLI):
            consts.append(('c04reject%d' % j, src.encode(), []))
        for tg in ('x86_64-sysv', 'aarch64'):
            gen = c04_gen.CGen(rng, c04_gen.SIGNEDCHAR[tg])
            cs = []
            while len(cs) < 400 * k:
                c = gen.gen(rng.randint(1, 5))
                if len(c[0]) < 1500:
                    cs.append(c)
            for j in range(0, len(cs), 20):
                src, _ = c04.cli_unit(cs[j:j + 20], c04_gen.SIGNEDCHAR[tg])
                consts.append(('c04unit-%s-%d' % (tg, j), src.encode(), ['-t', tg]))
        consts.append(('consts-hand', b'long a = -16L >> 2; long b = -1L >> 63u; long c = (-0x7fffffffffffffffL - 1) >> 1UL; unsigned long long d = 1.5e19; unsigned long e = 18446744073709549568.0;\n'
                                      b'unsigned long f = 9223372036854775808.0; double g = 18446744073709551615u; float h = 0xfffffffffffffc00; float i = 0.1f; double j = 0.1f; int k = 0.1f == 0.1;\n'
                                      b'unsigned long l = -1UL / 3; long m = -7L / 2; long n = -7L %% 3; unsigned o = 0x80000000u >> 31; int p = -1 < 0u; long q = (char)200; unsigned long r = (unsigned long)-1 %% 10;\n'.replace(b'%%', b'%'), []))
    except Exception as e:
        ctx.notes.append('constant-expression stream skipped: %r' % (e,))
    out.append(('gen-constants', consts))
    hand = []
    for nm, src in c19.HANDWRITTEN:
        hand.append(('hand:' + nm, src if isinstance(src, bytes) else src.encode(), []))
    out.append(('handwritten-invalid', hand))
    if thorough:
        # deeply nested / very long inputs: stack depth is not part of the comparison (see Comparer.compare)
        out.append(('deep', [('deep:' + nm, src if isinstance(src, bytes) else src.encode(), []) for nm, src in c19.deep_inputs(True)]))
    # mutants: seeds are corpus files, generated programs and slices of the compiler's own preprocessed source
    seeds = []
    tdir = os.path.join(snap, 'test')
    for fn in sorted(os.listdir(tdir)):
        if fn.endswith('.c'):
            seeds.append(open(os.path.join(tdir, fn), 'rb').read())
    seeds += [v[1] for v in valid[:40]] + [m[1] for m in macro[:30]]
    for fn, pre in sorted(own_pre.items()):
        lines = pre.split(b'\n')
        # the part of the file after the system headers, in slices
        start = max((i for i, l in enumerate(lines) if l.startswith(b'# ') and b'/usr/' in l), default=0)
        body = lines[start + 1:]
        for j in range(0, len(body), 120):
            seeds.append(b'\n'.join(lines[:start + 1][-400:] + body[j:j + 120]) + b'\n')
    mut = []
    for i in range(1200 * k):
        s = rng.choice(seeds)
        m = s
        for _ in range(rng.choice([1, 1, 1, 2, 3, 5])):
            m = c19.mutate(rng, m)
        mut.append(('mutant%d' % i, m, []))
    out.append(('mutants', mut))
    return out


def cli_variants(ctx, snap):
    """command lines other than `-t T [-E] < input`"""
    t = 'test/' + sorted(f for f in os.listdir(os.path.join(snap, 'test')) if f.endswith('.c'))[0]
    small = b'int x = 1;\nint main(void) { return x; }\n'
    return [
        ('no-arguments', small, [[]]),
        ('unknown-target', small, [['-t', 'pdp11'], ['-t', ''], ['-t']]),
        ('unknown-option', small, [['-x'], ['-E', '-q'], ['--', '-t']]),
        ('missing-file', None, [['nonexistent.c'], ['-E', 'nonexistent.c'], ['test']]),
        ('two-files', None, [[t, t], ['-E', t, t]]),
        ('stdin-dash', small, [['-'], ['-t', 'x86_64-sysv', '-E', '--']]),
        ('option-glued', small, [['-tx86_64-sysv'], ['-Etaarch64'], ['-triscv64', '-E']]),
        ('output-to-dev-null', small, [['-o', '/dev/null'], ['-o', '/nonexistent/dir/x'], ['-o']]),
        ('output-dev-full', small, [['-o', '/dev/full'], ['-E', '-o', '/dev/full']]),
    ]


# ----------------------------------------------------------------------------- the check
def run(ctx):
    thorough = ctx.tier == 'thorough'
    stats = {}
    samples = []
    timing = {}
    snap = ctx.snapshot()
    timing['snapshot'] = round(time.time() - ctx.t0, 1)
    dev_nocoq = bool(os.environ.get('C02_DEV_NOCOQ'))     # development only (the shared Coq lock can be held for many minutes)
    if dev_nocoq:
        ctx.ob('coq: SKIPPED (C02_DEV_NOCOQ is set - this run is not evidence)', False)
        ok = False
    else:
        ok = ctx.coq(['Properties/%s.vo' % MODULE])
    if ok:
        ctx.assumptions(MODULE, ctx.theorem_names(MODULE))
    timing['coq'] = round(time.time() - ctx.t0, 1)
    oracle = None
    try:
        import c03
        if dev_nocoq or ctx.coq(['Extract/Extract_qbe.vo']):
            oracle = c03.build_oracle(ctx)
    except Exception as ex:      # the shared toolkit is somebody else's: fall back to gcc-only validation, visibly
        ctx.notes.append('IL interpreter not available (%s): il2c validated against gcc only' % ex)
    cmp_ = None
    programs = 0
    if snap:
        t0 = time.time()
        v_ok = validate_il2c(ctx, oracle, snap, stats, samples)
        timing['il2c_validation'] = round(time.time() - t0, 1)

        # ---- tables
        cppcmd = read_cpp_cmd(snap)
        srcs = read_make_list(snap, 'SRC')
        dsrcs = read_make_list(snap, 'DRIVER_SRC')
        cfiles = sorted(f for f in os.listdir(snap) if f.endswith('.c'))
        tab_ok = bool(cppcmd) and bool(srcs) and bool(dsrcs) and sorted(set(srcs) | set(dsrcs)) == cfiles
        ctx.ob('T:config.h preprocesscmd and the Makefile SRC/DRIVER_SRC lists re-read; every .c file of the tree is in one of them', tab_ok)
        if not tab_ok:
            ctx.broken('table', 'Makefile SRC / config.h preprocesscmd',
                       'preprocesscmd=%r SRC=%r DRIVER_SRC=%r files=%r' % (cppcmd, srcs, dsrcs, cfiles))
            cppcmd = cppcmd or ['cpp', '-U', '__GNUC__', '-U', '__GNUC_MINOR__', '-D', '__STDC_NO_ATOMICS__', '-D', '__STDC_NO_COMPLEX__',
                                '-U', '__SIZEOF_INT128__', '-U', '__PIC__', '-D', '__extension__=']
            srcs = srcs or [f for f in cfiles if f != 'driver.c']
            dsrcs = dsrcs or ['driver.c', 'util.c']

        # ---- B: stage 2
        t0 = time.time()
        st = build_stage2(ctx, snap, os.path.join(ctx.tmp, 'stage2'), srcs, dsrcs, cppcmd)
        timing['stage2_build'] = round(time.time() - t0, 1)
        stats['stage2_build_s'] = st.times
        stats['own_il_lines'] = sum(v.count(b'\n') for v in st.il.values())
        stats['own_functions'] = sum(len(re.findall(rb'^function ', v, re.M)) for v in st.il.values())
        ctx.ob('B:stage 2 built from stage 1\'s IL for %d own sources (%d IL lines, %d functions)' % (len(st.il), stats['own_il_lines'], stats['own_functions']),
               st.exe is not None and not st.fail)
        s1 = os.path.join(snap, 'cproc-qbe')
        # the IL stage 2 is made of passes the C03 checker (grammar, single definitions, dominance, classes, phis, calls)
        if oracle and st.il:
            try:
                ssa = [os.path.join(ctx.tmp, 'stage2', fn[:-2] + '.ssa') for fn in sorted(st.il)]
                ssa = [f for f in ssa if os.path.exists(f)]
                verdicts = {}
                for res in vlib.parallel_map(lambda b: c03.oracle_check(oracle, b), [ssa[i::8] for i in range(8) if ssa[i::8]]):
                    verdicts.update(res)
                notwf = ['%s: %s' % (os.path.basename(f), (v['parse'] or v['roundtrip'] or (v['viols'] or ['?'])[0])[:160]) for f, v in sorted(verdicts.items()) if not v['ok']]
                stats['own_il_wf_checked'] = len(verdicts)
                ctx.ob('B:stage 1\'s IL for the %d own sources is well-formed (Qbe wf checker of C03)' % len(verdicts), len(verdicts) == len(ssa) and not notwf)
                if notwf:
                    ctx.broken('correspondence', 'own IL not well-formed', '\n'.join(notwf))
            except Exception as ex:
                ctx.notes.append('wf check of the own IL skipped: %r' % (ex,))
        if st.fail:
            detail = '\n'.join('%s: %s: %s' % f for f in st.fail)
            ctx.broken('correspondence', 'stage 2 cannot be built (%s)' % ', '.join(sorted({'%s:%s' % (f[0], f[1]) for f in st.fail})), detail)
            import localise
            for fn, phase, det in st.fail[:2]:
                m = re.search(r'il2c: line (\d+):', det)
                if m and fn in st.il:
                    det = det.strip() + ' [in own function %s()]' % localise.il_function_at(st.il[fn].decode('latin1'), int(m.group(1)))
                if fn in st.pre and phase in ('stage1-rejects-own-source', 'il2c-rejects-il', 'gcc-rejects-translation'):
                    t1 = time.time()
                    small = localise.shrink_build_failure(ctx, s1, st.pre[fn], phase, GCCFLAGS, IL2C)
                    timing['shrink_build_failure'] = round(time.time() - t1, 1)
                    if small is not None:
                        rtext, ext = encode_replay('/* C02 build failure: %s ; origin %s ; cproc-qbe -t x86_64-sysv */\n' % (phase, fn), small)
                        ctx.violation('stage 2 cannot be built: %s for own source %s (%s); smallest fragment of the preprocessed file that still shows it attached'
                                      % (phase, fn, det.strip().split('\n')[-1][:200]), rtext, ext, key='stage2-build:%s' % phase)
        if st.exe:
            cmp_ = Comparer(ctx, s1, st.exe, snap)
            # does stage 2 run at all?
            a, b, d, note = cmp_.compare(['-t', 'x86_64-sysv'], b'int main(void) { return 0; }\n')
            ctx.ob('B:stage 2 runs', d is None and a[0] == 0)

            # ---- a: fixed point, every target
            t0 = time.time()
            own_items = [('own:' + fn, st.pre[fn], []) for fn in sorted(st.pre)]
            res = cmp_.batch('own', own_items, timeout=30)
            fp_bad = []
            n_fp = 0
            for (label, data, args, h), a, b, d, note in res:
                if args[:2] == ['-t', 'x86_64-sysv'] and '-E' not in args:
                    n_fp += 1
                    fn = label[4:]
                    if a[0] != 0 or a[1] != st.il.get(fn):
                        fp_bad.append(fn + ' (stage 1 not reproducible)')
                    elif b[1] != a[1]:
                        fp_bad.append(fn)
            ctx.ob('a:bootstrap fixed point: stage 2\'s IL == stage 1\'s IL byte for byte for %d own sources (and equal output for the other targets and -E)' % n_fp,
                   not fp_bad and n_fp == len(st.pre) and not any(x['stream'] == 'own' for x in cmp_.diffs))
            stats['fixed_point_files'] = n_fp
            timing['fixed_point'] = round(time.time() - t0, 1)
            if len(samples) < 4 and st.il:
                fn = sorted(st.il)[0]
                samples.append({'fixed_point_input': fn, 'preprocessed_bytes': len(st.pre[fn]), 'il_sha1_stage1': hashlib.sha1(st.il[fn]).hexdigest(),
                                'il_head': txt(st.il[fn][:300])})

            # ---- b: corpus
            t0 = time.time()
            tdir = os.path.join(snap, 'test')
            corpus = [('test/' + fn, None, ['test/' + fn]) for fn in sorted(os.listdir(tdir)) if fn.endswith('.c')]
            cmp_.batch('corpus', corpus, timeout=20)
            # own mode of the runtests script, including -o
            ownmode = []
            for fn in sorted(os.listdir(tdir)):
                if fn.endswith('.c'):
                    arch = fn[:-2].split('+')[-1] if '+' in fn else 'x86_64-sysv'
                    pp = os.path.exists(os.path.join(tdir, fn[:-2] + '.pp'))
                    ownmode.append((fn, arch, pp))
            om_bad = []

            def om(t):
                fn, arch, pp = t
                outs = []
                for tag, exe in (('1', s1), ('2', st.exe)):
                    o = os.path.join(ctx.tmp, 'om-%s-%s.out' % (tag, fn))
                    rc, so, se = run_limited([exe, '-t', arch] + (['-E'] if pp else []) + ['-o', o, 'test/' + fn], timeout=20, cwd=snap)
                    outs.append((rc, open(o, 'rb').read() if os.path.exists(o) else None, so, se))
                    if os.path.exists(o):
                        os.unlink(o)
                want = open(os.path.join(tdir, fn[:-2] + ('.pp' if pp else '.qbe')), 'rb').read()
                return fn, outs, want
            golden_bad = []
            if cmp_.aborted:
                ownmode = []                  # stage 2 hangs: already reported through the corpus stream
            for fn, outs, want in vlib.parallel_map(om, ownmode):
                cmp_.runs += 1
                if outs[0] != outs[1]:
                    om_bad.append(fn)
                if outs[1][1] != want:
                    golden_bad.append(fn)
            stats['corpus_own_mode'] = len(ownmode)
            stats['corpus_stage2_golden_mismatch'] = len(golden_bad)
            ctx.ob('b:%d corpus files: stage 2 == stage 1 in every mode; with -o as runtests does (stage 2 passes the suite: %d/%d)'
                   % (len(corpus), len(ownmode) - len(golden_bad), len(ownmode)),
                   not om_bad and not any(x['stream'] == 'corpus' for x in cmp_.diffs))
            for fn in om_bad[:3]:
                cmp_.diffs.append(dict(stream='corpus', label='test/%s (with -o)' % fn, data=None, args=['test/' + fn], aspect='stdout',
                                       s1=(0, b'', b''), s2=(0, b'', b'')))
            timing['corpus'] = round(time.time() - t0, 1)

            # ---- c: generated inputs, CLI variants, token dump hook
            t0 = time.time()
            ngen = 0
            for stream, items in generated_inputs(ctx, snap, st.pre):
                cmp_.batch(stream, items, timeout=10)
                ngen += len(items)
                if len(samples) < 8 and items:
                    it = items[ctx.rng.randrange(len(items))]
                    samples.append({'stream': stream, 'label': it[0], 'input_head': txt(it[1][:240])})
            for label, data, argvs in cli_variants(ctx, snap):
                for av in argvs:
                    cmp_.batch('cli', [(label + ' ' + ' '.join(av), data, av)], modes=[[]], timeout=10)
            env = dict(os.environ, CPROC_VERIF_TOKDUMP='1')
            td = 0
            for fn in sorted(os.listdir(tdir))[:60]:
                if fn.endswith('.c') and not cmp_.aborted:
                    a = run_one(s1, ['-E', 'test/' + fn], None, snap, 10, env)
                    b = run_one(st.exe, ['-E', 'test/' + fn], None, snap, 10, env)
                    cmp_.runs += 1
                    td += 1
                    d = differ(a, b)
                    if d:
                        cmp_.raw_disagreements += 1
                        cmp_.diffs.append(dict(stream='tokdump', label='test/' + fn, data=None, args=['-E', 'test/' + fn], aspect=d, s1=a, s2=b))
            stats['tokdump_runs'] = td
            ctx.ob('c:generated valid/invalid programs, mutants, command-line variants: stage 2 == stage 1',
                   not any(x['stream'] not in ('own', 'corpus') for x in cmp_.diffs))
            timing['generated'] = round(time.time() - t0, 1)

            # ---- the driver built by both (a handful of invocations that need no backend)
            if st.driver and not cmp_.aborted:
                d1 = os.path.join(snap, 'cproc')
                dr_bad = []
                small = os.path.join(ctx.tmp, 'drv.c')
                open(small, 'w').write('#define X 3\nint x = X;\n')
                drv = ([], ['-E', small], ['-x'], ['-o'], ['-E', '-D', 'X=4', small], ['-E', '-U', 'X', '-I', '/nonexistent', small], ['-E', '-o'])
                for av in drv:
                    a = run_limited([d1] + av, timeout=20, cwd=snap)
                    b = run_limited([st.driver] + av, timeout=20, cwd=snap)
                    # the driver names its children by process id
                    a = (a[0], a[1], re.sub(rb'process \d+', b'process N', a[2]))
                    b = (b[0], b[1], re.sub(rb'process \d+', b'process N', b[2]))
                    cmp_.runs += 1
                    if differ(a, b):
                        dr_bad.append(' '.join(av))
                        cmp_.raw_disagreements += 1
                        cmp_.diffs.append(dict(stream='driver', label='cproc ' + ' '.join(av), data=None, args=av, aspect=differ(a, b), s1=a, s2=b))
                ctx.ob('c:stage-2 driver (driver.c, util.c) behaves as the stage-1 driver on %d invocations' % len(drv), not dr_bad)

            # ---- report differences
            t0 = time.time()
            reported = set()
            loc_done = False
            # small inputs first; whole own sources last (they are not shrunk)
            order = sorted(cmp_.diffs, key=lambda x: (x['stream'] == 'own', len(x['data']) if x['data'] is not None else 1 << 20))
            for df in order:
                key = 'stage-diff:%s:%s' % (df['stream'], df['aspect'])
                if key in reported or len(reported) >= 5:
                    continue
                reported.add(key)
                if df['data'] is None and df['stream'] == 'corpus' and df['args'] and os.path.isfile(os.path.join(snap, df['args'][-1])):
                    # a corpus file named on the command line: the same text on stdin, if the difference survives that
                    body = open(os.path.join(snap, df['args'][-1]), 'rb').read()
                    a, b, d, note = cmp_.compare(df['args'][:-1], body)
                    if d:
                        df = dict(df, data=body, args=df['args'][:-1], s1=a, s2=b, aspect=d)
                small = shrink_input(cmp_, df) if df['stream'] not in ('own', 'driver', 'tokdump') else None
                data = small if small is not None else df['data']
                if data is None and df['args'] and os.path.isfile(os.path.join(snap, df['args'][-1])):
                    data = open(os.path.join(snap, df['args'][-1]), 'rb').read()
                if small is not None:
                    a, b, d, note = cmp_.compare(df['args'], small)
                    desc = describe(a, b, d or df['aspect'])
                else:
                    desc = describe(df['s1'], df['s2'], df['aspect'])
                where = ''
                if not loc_done and df['stream'] != 'driver':
                    loc_done = True
                    try:
                        import localise
                        where = localise.localise(ctx, snap, st, srcs, df['args'], small if small is not None else df['data'], GCCFLAGS, IL2C)
                    except Exception as ex:
                        where = 'localisation failed: %r' % (ex,)
                what = 'stage 1 and stage 2 differ on %s `cproc-qbe %s`: %s%s' % (df['label'], ' '.join(df['args']), desc, ('; ' + where) if where else '')
                head = '/* C02: cproc-qbe %s ; %s */\n' % (' '.join(df['args']), desc.replace('*/', '* /')[:300])
                rtext, ext = encode_replay(head, data or b'')
                ctx.violation(what, rtext, ext, key=key)
            timing['report'] = round(time.time() - t0, 1)
            programs = len(cmp_.seen)
            stats['streams'] = cmp_.by_stream
            stats['runs_per_stage'] = cmp_.runs
            stats['both_timeout'] = cmp_.both_timeout
            stats['resource_dependent_disagreements'] = cmp_.resource_dependent
    stats['timing_s'] = timing
    cov = dict(programs=programs,
               disagreements_checked=cmp_.raw_disagreements if cmp_ else 0,
               evaluations=(cmp_.runs if cmp_ else 0) + stats.get('il2c_il_programs', 0) + stats.get('il2c_c_programs', 0),
               distinct_nontrivial=len(cmp_.nontrivial) if cmp_ else 0,
               rule='inputs: the %d preprocessed own sources, every test/*.c, generated valid programs (gen/c03_progs, gen/c12_gen, c16 scope units), '
                    'hand-written invalid programs and token-level mutants of corpus files and of slices of the own sources; each distinct input '
                    '(sha1 of text + arguments) is run by both stages under -t x86_64-sysv, -t aarch64, -t riscv64 and -E and (status, stdout, stderr) '
                    'are compared byte for byte; an (input, mode) pair counts as non-trivial when stage 1 wrote IL/preprocessed text or a diagnostic'
                    % (cmp_.by_stream.get('own', {}).get('inputs', 0) if cmp_ else 0),
               samples=samples, stats=stats,
               explanation='PARTIAL: stage-2 equivalence is decided per input (translation validation); no theorem quantifies over all inputs. '
                           'Stage 2 is stage 1\'s IL executed through il2c.py + gcc, since no qbe binary exists; il2c is validated on every run '
                           'against the extracted Qbe.run and against gcc.')
    return ctx.finish(cov, assumptions=[
        'no qbe binary: the meaning of IL is Coq Model/Qbe.v; stage 2 = il2c.py (IL -> C) + gcc -O1, validated per run on IL programs covering every opcode of ops.h',
        'gcc 12 (-O1 -fwrapv -fno-strict-aliasing) and glibc are trusted for both stages',
        'no forall-input theorem: agreement is shown only on the inputs of this run (Coq: conditional stability of the bootstrap chain, determinism of Qbe.run)',
        'stack depth and running time are not compared (frame sizes differ): a disagreement that disappears with a larger stack/time limit is counted, not reported',
        'both stages contain the CPROC_VERIF hook (same preprocessed text)'])


def encode_replay(head, data):
    """replay files are written as text by vlib: inputs that are not UTF-8 are stored in hexadecimal"""
    try:
        return head + data.decode('utf-8'), 'c'
    except UnicodeDecodeError:
        return head + data.hex() + '\n', 'hex'


def replay(ctx, path):
    """rebuild both stages and run the replay file (first line: /* C02: cproc-qbe <args> ; ... */)"""
    snap = ctx.snapshot()
    if not snap:
        return 1
    text = open(path, 'rb').read()
    head, _, body = text.partition(b'\n')
    if path.endswith('.hex'):
        body = bytes.fromhex(body.decode().strip())
    m = re.match(rb'/\* C02(?: build failure)?: (?:cproc-qbe )?(.*?) ;', head)
    args = m.group(1).decode().split() if m else ['-t', 'x86_64-sysv']
    if b'build failure' in head:
        args = ['-t', 'x86_64-sysv']
    args = [a for a in args if not a.startswith('test/')]
    cppcmd = read_cpp_cmd(snap)
    srcs = read_make_list(snap, 'SRC')
    st = build_stage2(ctx, snap, os.path.join(ctx.tmp, 'stage2'), srcs, [], cppcmd)
    for f in st.fail:
        print('stage 2 build failure: %s: %s: %s' % f)
    if not st.exe:
        return 1
    cmp_ = Comparer(ctx, os.path.join(snap, 'cproc-qbe'), st.exe, snap)
    a, b, d, note = cmp_.compare(args, body)
    print('cproc-qbe %s' % ' '.join(args))
    print('stage 1: status %d, %d bytes of stdout, stderr %r' % (a[0], len(a[1]), txt(a[2])[:300]))
    print('stage 2: status %d, %d bytes of stdout, stderr %r' % (b[0], len(b[1]), txt(b[2])[:300]))
    if d:
        print('DIFFERENCE: ' + describe(a, b, d))
        return 1
    print('no difference')
    return 0
